"""Shared machinery of the checks: driver process, protocol encoding, build + audit of the
Lean side, evidence, known findings, VIOLATION / KNOWN-FINDING reporting.

Run under /venv/bin/python with PYTHONPATH=/repo (the ./check wrapper does this), so that
`import coxeter` is always the current working tree of /repo.
"""
import fcntl
import hashlib
import json
import os
import re
import struct
import subprocess
import sys
import time
from fractions import Fraction

import numpy as np

VERIF = os.path.dirname(os.path.dirname(os.path.abspath(__file__)))
LEAN = os.path.join(VERIF, "lean")
DRIVER = os.path.join(LEAN, ".lake", "build", "bin", "driver")
REPO = os.environ.get("COXETER_REPO", "/repo")
ALLOWED_AXIOMS = {"propext", "Classical.choice", "Quot.sound"}
FORBIDDEN = re.compile(
    r"\bsorry\b|\badmit\b|^\s*axiom\s|\bnative_decide\b|\bbv_decide\b|implemented_by|\bunsafe\s|maxHeartbeats\s+0\b",
    re.M,
)


class InfraError(Exception):
    """Anything that is the machinery's fault: exit code 2, never a violation."""


class ModelRaise(Exception):
    """The model raised (E:<kind>)."""

    def __init__(self, kind):
        super().__init__(kind)
        self.kind = kind


def f2h(x):
    return struct.pack(">d", float(x)).hex()


def h2f(s):
    return struct.unpack(">d", bytes.fromhex(s))[0]


def I(n):
    return "i%d" % int(n)


def enc(obj):
    """Encode nested python data as protocol tokens: ints -> i.., floats -> hex,
    lists/arrays of rows -> flattened (NOT length prefixed; use L for that)."""
    out = []
    _enc(obj, out)
    return out


def _enc(obj, out):
    if isinstance(obj, str):
        out.append(obj)
    elif isinstance(obj, (bool, np.bool_)):
        out.append(I(1 if obj else 0))
    elif isinstance(obj, (int, np.integer)):
        out.append(I(obj))
    elif isinstance(obj, (float, np.floating)):
        out.append(f2h(obj))
    elif isinstance(obj, Fraction):
        out.append(f2h(float(obj)))
    elif isinstance(obj, np.ndarray):
        if obj.dtype.kind in "iu":
            out.extend(I(v) for v in obj.ravel().tolist())
        else:
            out.extend(f2h(v) for v in obj.ravel().tolist())
    elif isinstance(obj, (list, tuple)):
        for o in obj:
            _enc(o, out)
    elif isinstance(obj, Lst):
        out.append(I(len(obj.items)))
        for o in obj.items:
            _enc(o, out)
    else:
        raise InfraError("cannot encode %r" % (type(obj),))


class Lst:
    """Length-prefixed list in the protocol."""

    def __init__(self, items):
        self.items = list(items)


def L(items):
    return Lst(items)


def parse_reply(line):
    line = line.strip()
    if line.startswith("X:"):
        raise InfraError("driver protocol error: " + line)
    if line.startswith("E:"):
        raise ModelRaise(line[2:])
    out = []
    for t in line.split():
        if t[0] == "i":
            out.append(int(t[1:]))
        elif t[0] == "b" and len(t) == 2:
            out.append(t == "b1")
        elif "/" in t:
            n, d = t.split("/")
            out.append(Fraction(int(n), int(d)))
        elif len(t) == 16:
            out.append(h2f(t))
        else:
            raise InfraError("bad reply token %r" % t)
    return out


class Driver:
    def __init__(self):
        if not os.path.exists(DRIVER):
            raise InfraError("driver not built: " + DRIVER)
        self.p = subprocess.Popen(
            [DRIVER], stdin=subprocess.PIPE, stdout=subprocess.PIPE, text=True, bufsize=1
        )
        self.calls = 0
        self.ops = {}

    def call(self, mode, op, *args):
        toks = enc(list(args))
        self.p.stdin.write(mode + " " + op + " " + " ".join(toks) + "\n")
        self.p.stdin.flush()
        line = self.p.stdout.readline()
        if not line:
            raise InfraError("driver died on op " + op)
        self.calls += 1
        self.ops[op] = self.ops.get(op, 0) + 1
        return parse_reply(line)

    def F(self, op, *args):
        return self.call("F", op, *args)

    def Q(self, op, *args):
        return self.call("Q", op, *args)

    def close(self):
        try:
            self.p.stdin.close()
            self.p.wait(timeout=10)
        except Exception:
            self.p.kill()


# --------------------------------------------------------------------------- Lean side


def _lake_lock():
    os.makedirs(os.path.join(LEAN, ".lake"), exist_ok=True)
    f = open(os.path.join(LEAN, ".lake", "verif.lock"), "w")
    fcntl.flock(f, fcntl.LOCK_EX)
    return f


def lean_env():
    env = dict(os.environ)
    env.pop("LEAN_PATH", None)
    return env


def lake_build(targets, timeout=3000):
    lock = _lake_lock()
    try:
        t0 = time.time()
        r = subprocess.run(
            ["lake", "build"] + list(targets),
            cwd=LEAN, env=lean_env(), capture_output=True, text=True, timeout=timeout,
        )
        return r.returncode == 0, (r.stdout + r.stderr), time.time() - t0
    finally:
        lock.close()


def strip_lean_comments(src):
    # remove nested block comments and line comments
    out = []
    i, depth = 0, 0
    n = len(src)
    while i < n:
        if src.startswith("/-", i):
            depth += 1
            i += 2
        elif depth and src.startswith("-/", i):
            depth -= 1
            i += 2
        elif depth:
            i += 1
        elif src.startswith("--", i):
            while i < n and src[i] != "\n":
                i += 1
        else:
            out.append(src[i])
            i += 1
    return "".join(out)


def forbidden_tokens():
    hits = []
    for root, _, files in os.walk(LEAN):
        if ".lake" in root:
            continue
        for fn in files:
            if fn.endswith(".lean"):
                p = os.path.join(root, fn)
                s = strip_lean_comments(open(p).read())
                for m in FORBIDDEN.finditer(s):
                    hits.append("%s: %s" % (os.path.relpath(p, LEAN), m.group(0).strip()))
    return hits


def theorems_of(pid):
    p = os.path.join(LEAN, "CoxeterVerif", "Props", pid + ".lean")
    if not os.path.exists(p):
        return []
    s = strip_lean_comments(open(p).read())
    return re.findall(r"^\s*theorem\s+([A-Za-z0-9_.'!?]+)", s, re.M)


def audit_axioms(pid, names):
    """#print axioms for every property theorem; returns {name: [axioms]}."""
    if not names:
        return {}
    src = "import CoxeterVerif.Props.%s\n" % pid + "".join(
        "#print axioms %s\n" % n for n in names
    )
    lock = _lake_lock()
    try:
        path = os.path.join(LEAN, ".lake", "audit_%s_%d.lean" % (pid, os.getpid()))
        with open(path, "w") as f:
            f.write(src)
        r = subprocess.run(
            ["lake", "env", "lean", path], cwd=LEAN, env=lean_env(),
            capture_output=True, text=True, timeout=1800,
        )
        os.unlink(path)
    finally:
        lock.close()
    out = r.stdout + r.stderr
    res = {}
    for n in names:
        m = re.search(
            r"'%s' depends on axioms: \[([^\]]*)\]" % re.escape(n), out, re.S
        )
        if m:
            res[n] = [a.strip() for a in m.group(1).replace("\n", " ").split(",") if a.strip()]
        elif re.search(r"'%s' does not depend on any axioms" % re.escape(n), out):
            res[n] = []
        else:
            res[n] = None
    return res, out


# --------------------------------------------------------------------------- findings


def load_known():
    """known_findings.json (authoritative) plus per-property proposals in known_findings.d/."""
    out = []
    p = os.path.join(VERIF, "known_findings.json")
    if os.path.exists(p):
        out += json.load(open(p)).get("findings", [])
    d = os.path.join(VERIF, "known_findings.d")
    if os.path.isdir(d):
        for fn in sorted(os.listdir(d)):
            if fn.endswith(".json"):
                out += json.load(open(os.path.join(d, fn))).get("findings", [])
    return out


def jsonable(o):
    if isinstance(o, np.ndarray):
        return o.tolist()
    if isinstance(o, (np.floating,)):
        return float(o)
    if isinstance(o, (np.integer,)):
        return int(o)
    if isinstance(o, (np.bool_,)):
        return bool(o)
    if isinstance(o, Fraction):
        return "%d/%d" % (o.numerator, o.denominator)
    if isinstance(o, complex):
        return [o.real, o.imag]
    if isinstance(o, (set, frozenset)):
        return sorted(o)
    if isinstance(o, bytes):
        return o.hex()
    return repr(o)


class Ctx:
    """What a property module sees."""

    def __init__(self, pid, tier, seed, replay=None):
        self.pid = pid
        self.tier = tier
        self.seed = seed
        self.rng = np.random.default_rng([seed, int(pid[1:])])
        self.replay_case = replay
        self.widen = 1
        self.driver = None
        self.t0 = time.time()
        self.evaluations = 0
        self.nontrivial = set()
        self.samples = []
        self.dist = {}
        self.disagreements = []   # model vs impl
        self.failures = []        # impl vs spec  (dict: sig, what, case, detail)
        self.contract_failures = []
        self.skipped_near_boundary = 0
        self.assumptions = []
        self.extra = {}
        self.obligation_breaks = []  # named theorem / generated-table obligations that fail

    # --- bookkeeping used by property modules
    def count(self, key, n=1):
        self.dist[key] = self.dist.get(key, 0) + n

    def case(self, case, nontrivial=True):
        """Register one evaluated case (JSON-able dict)."""
        self.evaluations += 1
        self.last_case = case
        if nontrivial:
            h = hashlib.sha1(json.dumps(case, sort_keys=True, default=jsonable).encode()).hexdigest()
            self.nontrivial.add(h)
        if len(self.samples) < 3:
            self.samples.append(json.loads(json.dumps(case, default=jsonable)))

    def disagree(self, op, case, detail):
        self.disagreements.append({"op": op, "case": case, "detail": detail})

    def fail(self, sig, what, case, detail):
        self.failures.append({"sig": sig, "what": what, "case": case, "detail": detail})

    def budget(self, quick, thorough):
        n = quick if self.tier == "quick" else thorough
        return int(n * self.widen)

    def close_enough(self, a, b, scale, tol=1e-9):
        a = np.asarray(a, dtype=float)
        b = np.asarray(b, dtype=float)
        if a.shape != b.shape:
            return False
        if not (np.all(np.isfinite(a)) and np.all(np.isfinite(b))):
            return bool(np.array_equal(np.isnan(a), np.isnan(b)) and
                        np.array_equal(a[np.isfinite(a)], b[np.isfinite(b)]))
        return bool(np.all(np.abs(a - b) <= tol * scale))


def read_shuffled(getters, key):
    """Evaluate the thunks of `getters` (dict name -> callable) in an order drawn from a generator seeded by `key`
    (any JSON-able value, e.g. the case's vertices): an answer must not depend on what was asked before, and a cache
    filled in some temporary frame by one query only shows when another query is read AFTER it.  Deterministic per
    case, so a replay asks in the same order.  Returns (values dict, order list)."""
    h = hashlib.sha1(json.dumps(key, sort_keys=True, default=jsonable).encode()).digest()
    rng = np.random.default_rng(int.from_bytes(h[:8], "little"))
    names = list(getters)
    order = [names[i] for i in rng.permutation(len(names))]
    out = {}
    for n in order:
        out[n] = getters[n]()
    return out, order


def exc_kind(e):
    for k in ("ValueError", "RuntimeError", "KeyError", "AttributeError", "NotImplementedError",
              "IndexError", "TypeError", "AssertionError", "ZeroDivisionError"):
        if type(e).__name__ == k:
            return k
    return "other:" + type(e).__name__
