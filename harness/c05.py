"""C05 — 3-D point containment equals exact membership.

Shapes: ConvexPolyhedron, Polyhedron (on convex meshes and on non-convex voxel solids / extruded
polygons), Sphere, Ellipsoid, ConvexSpheropolyhedron, all in rigid placement.

B (correspondence): the Lean model (Float) is fed with the implementation's own plane equations /
surface triangles / extruded-prism equations and must return the implementation's booleans.
C (oracle): constructive certificates, independent of coxeter:
  * hull membership  : explicit convex weights (barycentric coordinates in a star triangulation of an
                       independently computed hull), verified exactly over Q by the driver;
  * hull exclusion   : a separating plane, verified exactly over Q;
  * non-convex solids: membership decided in model coordinates (closed filled voxels / prisms over a
                       known triangulation) with the exact distance to the boundary as margin, and
                       cross-checked exactly over Q against the union of the solid's tetrahedra;
  * ball / ellipsoid : the defining inequality evaluated exactly over Q;
  * spheropolyhedron : the exact point-polytope distance (closest point on the hull's triangles)
                       with a near certificate (explicit weights) or a far certificate (variational
                       inequality of the projection), both verified exactly over Q.
T (theorem hypotheses, evaluated exactly over Q by the driver on the implementation's own data):
  * facet certificate (`spec.in3.facets`, Props `cp_mem_hull_of_inside_cert` + `cp_planeDist_le_of_mem_hull`):
    ConvexPolyhedron's `_equations`, `vertices`, `faces` (fan-triangulated) form a closed surface whose facet
    planes fit its vertices => {all plane distances < -m} is inside conv(vertices) is inside {all <= eta};
  * signed ray-crossing number (`spec.in3.ray`, Props `poly_inside_iff_ray_checked`): the polytri triangles of a
    Polyhedron form a closed surface => the real-arithmetic winding test accepts p iff the signed number of
    triangles crossed by a ray from p is non-zero (counted exactly, any mesh, no knowledge of the solid needed);
  * cone tetrahedralisation (`spec.in3.tetcount`, Props `poly_inside_iff_checked`) on convex meshes.
"""
import itertools
import warnings

import numpy as np
from scipy.spatial import ConvexHull

import gen
import history
from common import L, I, ModelRaise, exc_kind

MARGIN = 1e-7

RULE = ("shapes: gen.convex_solid (all kinds, random rigid motion/offset/scale) and tabulated solids as "
        "ConvexPolyhedron, as Polyhedron (winding code on the convex mesh) and as ConvexSpheropolyhedron "
        "(radius 0 and 1e-3..1e2 core sizes); gen.c05_voxel_solid (L,U,C,T,plus,frames with a through-hole, "
        "blocks, stairs, cup, cage, random) and gen.c05_extruded_polygon (rectilinear, star, zigzag) as Polyhedron "
        "in exact (axis-permuting, dyadic) and general rigid placements; Sphere, Ellipsoid. points: uniform in the "
        "enlarged box, at controlled signed distance from faces/edges/vertices, lattice points sharing coordinates "
        "with vertices; knife-edged cores (wedges with slanted ends, flat bipyramids, needle hulls, sliver tetrahedra) with "
        "points targeted at the rounding shell r(1 +- 1e-4..0.25) of every edge near its ends (fan swept by angle) and of "
        "every vertex; a third of the objects of every class reached through a history (harness/history.py: scaled copy, "
        "all members and queries read, size/centroid/radius setters); batches of 1..2000, shapes (3,) and (N,3). "
        "exactly certified spheropolyhedra: dyadic axis-aligned boxes with dyadic radius (spheroExactCheck on the "
        "implementation's own planes/faces/prisms) and dyadic probes exactly at distance r, r/2, 2r, r +- 2^-10 from faces, "
        "edges ((3,4)/5 offsets) and vertices ((2,3,6)/7 offsets), judged without margin; "
        "distinct = distinct (shape, batch); "
        "non-trivial = batch containing certified inside and outside points")
ASSUMPTIONS = [
    "membership in conv(V) means: explicit convex weights exist (Spec/Inside3D.lean MemHull); non-convex solids are the "
    "union of the closed tetrahedra of the generator's decomposition",
    "query points closer than 1e-7*size to the boundary (or to the decision threshold |d-r|) are not judged (counted in "
    "skipped_near_boundary)",
    "Qhull (plane equations of ConvexPolyhedron and of the extruded prisms) and polytri (surface triangles) are inputs of "
    "the model; contract 'every vertex on the inner side of every plane within 1e-9*size' is checked per case",
    "certificates are verified exactly over Q on the double coordinates actually passed to coxeter",
]


def _f(a):
    return np.asarray(a, dtype=float)


# --------------------------------------------------------------------------- implementation access


def call_is_inside(shape, pts):
    """returns (result array | None, exception kind | None)"""
    with warnings.catch_warnings():
        warnings.simplefilter("ignore")
        try:
            r = shape.is_inside(pts)
            return np.asarray(r), None
        except Exception as e:  # noqa: BLE001
            return None, exc_kind(e) + ":" + str(e)[:120].replace("\n", " ")


def check_batching(ctx, cls, shape, P, full, case, rng, judged=None):
    """shapes (3,) and (N,3), list input, sub-batches: element by element and in input order.
    Only points that are not within the margin of a decision boundary are compared (a batch goes through a
    different BLAS kernel than a single row, so an on-boundary point may legitimately flip)."""
    n = len(P)
    if full.shape != (n,) or full.dtype != np.bool_:
        ctx.fail(cls + ".is_inside:result-shape", "result is not a boolean array of shape (N,)",
                 slim(case, []), [list(full.shape), str(full.dtype)])
        return
    judged = np.ones(n, dtype=bool) if judged is None else np.asarray(judged, dtype=bool)
    cand = np.nonzero(judged)[0]
    if len(cand) == 0:
        cand = np.arange(n)
        judged = np.zeros(n, dtype=bool)
    idx = rng.choice(cand, size=min(len(cand), 6), replace=False)
    for i in idx:
        r1, err = call_is_inside(shape, P[i])  # shape (3,)
        if err is not None or r1.shape != (1,) or (judged[i] and bool(r1[0]) != bool(full[i])):
            ctx.fail(cls + ".is_inside:batch-vs-single", "single-point call (shape (3,)) differs from the batch entry",
                     slim(case, [int(i)], batch=True), [int(i), err, None if r1 is None else r1.tolist(), bool(full[i])])
            return
    # a permuted sub-batch, as a list of lists
    k = int(rng.integers(1, n + 1))
    sub = rng.permutation(n)[:k]
    r2, err = call_is_inside(shape, P[sub].tolist())
    if err is not None or r2.shape != (k,) or not np.array_equal(r2[judged[sub]], full[sub][judged[sub]]):
        bad = None if r2 is None or r2.shape != (k,) else [int(sub[j]) for j in np.nonzero((r2 != full[sub]) & judged[sub])[0][:5]]
        ctx.fail(cls + ".is_inside:batch-vs-single", "a permuted sub-batch differs from the full batch (input order)",
                 slim(case, sub.tolist()[:50], batch=True), [err, bad])


def slim(case, idx, batch=False):
    """case reduced to the points `idx` (for replay files)."""
    c = {k: v for k, v in case.items() if k not in ("points", "mpoints", "labels")}
    for key in ("points", "mpoints", "labels"):
        if key in case:
            c[key] = [case[key][i] for i in idx]
    if batch:
        c["batch_context"] = True
    return c


# --------------------------------------------------------------------------- oracles


def star_tets(v, hull):
    """star triangulation of conv(v) from one vertex: (apex index, list of simplex index triples, inverse matrices)."""
    size = gen.diameter(v)
    apex = int(hull.simplices[0][0])
    tris, invs = [], []
    for s in hull.simplices:
        if apex in s:
            continue
        m = (v[s] - v[apex]).T
        if abs(np.linalg.det(m)) < 1e-10 * size ** 3:
            continue
        tris.append([int(x) for x in s])
        invs.append(np.linalg.inv(m))
    return apex, np.array(tris), np.array(invs)


def hull_oracle(ctx, v, P, size):
    """expect[i] in {1 inside, 0 outside, -1 not judged}; certificates verified exactly over Q.
    returns expect, smax (signed plane distance of the independent hull)"""
    hull = ConvexHull(v)
    E = hull.equations
    s = P @ E[:, :3].T + E[:, 3]
    smax = s.max(axis=1)
    kmax = s.argmax(axis=1)
    n = len(P)
    expect = np.full(n, -1)
    tol = MARGIN * size
    Ls = size + float(np.max(np.abs(v)))
    inside = np.nonzero(smax <= -tol)[0]
    outside = np.nonzero(smax >= tol)[0]
    # ---- outside: separating plane, shifted outwards so that the exact check can succeed
    if len(outside):
        cases = []
        for i in outside:
            nrm = E[kmax[i], :3]
            d = -float(np.max(v @ nrm)) - 1e-11 * Ls
            cases.append([nrm, d, P[i]])
        r = ctx.driver.Q("spec.in3.plane", L(list(v)), L(cases))
        for j, i in enumerate(outside):
            maxv, val = r[2 * j], r[2 * j + 1]
            if maxv <= 0 and val > 0:
                expect[i] = 0
            else:
                ctx.count("cert:plane-rejected")
    # ---- inside: explicit weights in the star triangulation
    if len(inside):
        apex, tris, invs = star_tets(v, hull)
        rel = P[inside] - v[apex]
        lam = np.einsum("tij,nj->nti", invs, rel)  # (n, T, 3)
        lam0 = 1.0 - lam.sum(axis=2)
        allw = np.concatenate([lam0[..., None], lam], axis=2)  # (n,T,4)
        best = allw.min(axis=2).argmax(axis=1)
        cases = []
        for j, i in enumerate(inside):
            w = np.clip(allw[j, best[j]], 0.0, None)
            ids = [apex] + list(tris[best[j]])
            cases.append([L([[I(a), float(x)] for a, x in zip(ids, w)]), P[i]])
        r = ctx.driver.Q("spec.in3.hull", L(list(v)), L(cases))
        for j, i in enumerate(inside):
            minw, sumw = r[5 * j], r[5 * j + 1]
            diff = np.array([float(x) for x in r[5 * j + 2:5 * j + 5]])
            if minw >= 0 and sumw > 0 and np.max(np.abs(diff)) / float(sumw) <= 1e-9 * size:
                expect[i] = 1
            else:
                ctx.count("cert:weights-rejected")
    ctx.skipped_near_boundary += int(np.sum(expect < 0))
    return expect, smax, hull


def sphero_oracle(ctx, v, hull, smax, P, size, r):
    """expect in {1,0,-1} for 'distance to conv(v) <= r'."""
    n = len(P)
    expect = np.full(n, -1)
    m = MARGIN * (size + r)
    tri = v[hull.simplices]
    dist, w = gen.c05_point_triangle(P, tri)
    k = dist.argmin(axis=1)
    dmin = dist[np.arange(n), k]
    wk = w[np.arange(n), k]
    d = np.where(smax <= 0, 0.0, dmin)
    # the closest boundary point is a point of the hull: dmin bounds the distance from above for every point
    near = np.nonzero((smax > -MARGIN * size) & (dmin <= r - m))[0]
    far = np.nonzero((smax > 0) & (d >= r + m))[0]
    core = np.nonzero(smax <= -MARGIN * size)[0]
    if len(near):
        cases = [[L([[I(int(a)), float(x)] for a, x in zip(hull.simplices[k[i]], wk[i])]), P[i]] for i in near]
        res = ctx.driver.Q("spec.in3.near", L(list(v)), L(cases))
        for j, i in enumerate(near):
            minw, sumw, dsq = res[3 * j], res[3 * j + 1], res[3 * j + 2]
            if minw >= 0 and sumw > 0 and abs(float(sumw) - 1) < 1e-9 and float(dsq) <= r * r:
                expect[i] = 1
            else:
                ctx.count("cert:near-rejected")
    if len(far):
        q = np.einsum("ni,nij->nj", wk[far], tri[k[far]])
        cases = [[q[j], P[i]] for j, i in enumerate(far)]
        res = ctx.driver.Q("spec.in3.far", L(list(v)), L(cases))
        for j, i in enumerate(far):
            kkt, dsq = float(res[2 * j]), float(res[2 * j + 1])
            if dsq - 2 * max(kkt, 0.0) > r * r and kkt <= 1e-9 * size * (size + np.sqrt(dsq)):
                expect[i] = 0
            else:
                ctx.count("cert:far-rejected")
    return expect, core, d


# --------------------------------------------------------------------------- point generators


def convex_points(rng, v, n):
    """query points around conv(v) with labels (class names)."""
    size = gen.diameter(v)
    hull = ConvexHull(v)
    lo, hi = v.min(axis=0), v.max(axis=0)
    ext = hi - lo
    cen = v.mean(axis=0)
    pts, lab = [], []
    for _ in range(n):
        c = rng.random()
        if c < 0.25:
            pts.append(rng.uniform(lo - 0.3 * ext - 0.05 * size, hi + 0.3 * ext + 0.05 * size))
            lab.append("uniform")
        elif c < 0.6:
            k = int(rng.integers(len(hull.simplices)))
            tri = v[hull.simplices[k]]
            w = rng.dirichlet(np.ones(3) * float(rng.choice([0.05, 0.3, 1.0])))
            q = w @ tri
            nrm = hull.equations[k, :3]
            t = size * 10 ** rng.uniform(-6.5, -0.3)
            if rng.random() < 0.5:
                u = rng.normal(size=3)
                u -= nrm * (u @ nrm)
                shift = u * (0.0 if rng.random() < 0.5 else float(rng.uniform(0, 0.5)) * size / (np.linalg.norm(u) + 1e-300))
                pts.append(q + t * nrm + shift)
                lab.append("face+t")
            else:
                pts.append(q - t * nrm)
                lab.append("face-t")
        elif c < 0.75:
            i = int(rng.integers(len(v)))
            t = 10 ** rng.uniform(-6.5, -0.3)
            sgn = 1.0 if rng.random() < 0.5 else -1.0
            if rng.random() < 0.5:
                pts.append(v[i] + sgn * t * (v[i] - cen))
                lab.append("vertex" + ("+t" if sgn > 0 else "-t"))
            else:
                j = int(rng.integers(len(v)))
                mid = 0.5 * (v[i] + v[j])
                pts.append(mid + sgn * t * (mid - cen))
                lab.append("chord" + ("+t" if sgn > 0 else "-t"))
        else:
            i, j, k = rng.integers(len(v), size=3)
            m = rng.random()
            if m < 0.4:
                pts.append(np.array([v[i, 0], v[j, 1], v[k, 2]]))
            elif m < 0.7:
                p = v[i].copy()
                a = int(rng.integers(3))
                p[a] = rng.uniform(lo[a] - 0.2 * ext[a] - 0.05 * size, hi[a] + 0.2 * ext[a] + 0.05 * size)
                pts.append(p)
            else:
                p = 0.5 * (v[i] + v[j])
                a = int(rng.integers(3))
                p[a] = v[k, a]
                pts.append(p)
            lab.append("shared-coordinate")
    return np.array(pts), lab


def sharp_core(rng):
    """convex cores with knife edges (small dihedral angles) whose end vertices are shared with faces leaning over or
    away from the edge: wedges with slanted end faces, flat (irregular) bipyramids, needle hulls, sliver tetrahedra."""
    for _ in range(50):
        kind = str(rng.choice(["wedge", "flat-bipyramid", "needle-hull", "sliver-tet"]))
        alpha = np.deg2rad(10 ** rng.uniform(np.log10(3.0), np.log10(55.0)))   # dihedral angle of the knife edge
        if kind == "wedge":
            Ln, depth = float(rng.uniform(1, 5)), float(rng.uniform(1, 4))
            h = depth * np.tan(alpha / 2)
            s1, s2 = rng.uniform(-0.8, 0.9, size=2) * depth     # > 0: the end face leans over the sharp edge
            s1, s2 = max(s1, -0.45 * Ln), max(s2, -0.45 * Ln)
            v = np.array([[0, 0, 0], [Ln, 0, 0], [-s1, depth, h], [Ln + s2, depth, h], [-s1, depth, -h], [Ln + s2, depth, -h]],
                         dtype=float)
        elif kind == "flat-bipyramid":
            n = int(rng.integers(3, 8))
            ang = np.sort(rng.uniform(0, 2 * np.pi, size=n)) if rng.random() < 0.5 else 2 * np.pi * np.arange(n) / n
            rad = rng.uniform(0.6, 1.4, size=n) if rng.random() < 0.5 else np.ones(n)
            ring = np.c_[rad * np.cos(ang), rad * np.sin(ang), np.zeros(n)]
            h = float(np.tan(alpha / 2)) * 0.5
            off = rng.uniform(-0.25, 0.25, size=2)
            v = np.vstack([ring, [off[0], off[1], h], [off[0] * float(rng.uniform(-1, 1)), off[1], -h * float(rng.uniform(0.5, 1.5))]])
        elif kind == "needle-hull":
            k = int(rng.integers(6, 13))
            v = rng.normal(size=(k, 3)) * np.array([1.0, float(rng.uniform(0.08, 0.3)), float(rng.uniform(0.03, 0.3))])
            v = gen.hull_vertices_only(v)
        else:
            Ln, depth = float(rng.uniform(1, 4)), float(rng.uniform(0.5, 3))
            h = depth * np.tan(alpha / 2)
            a, b = rng.uniform(-0.5, 1.5, size=2) * Ln
            v = np.array([[0, 0, 0], [Ln, 0, 0], [a, depth, h], [b, depth, -h]], dtype=float)
        try:
            if len(v) < 4:
                continue
            v, info = gen.place(rng, v)
            if gen.in_convex_position(v):
                info["kind"] = "sharp:" + kind
                info["n"] = len(v)
                return v, info
        except Exception:  # noqa: BLE001
            continue
    raise RuntimeError("could not generate a sharp core")


def hull_edges(v, hull):
    """true edges of conv(v): (a, b, n1, n2, cos of the angle between the two facet normals)."""
    adj = {}
    for k, sidx in enumerate(hull.simplices):
        for a, b in ((sidx[0], sidx[1]), (sidx[1], sidx[2]), (sidx[2], sidx[0])):
            adj.setdefault((int(min(a, b)), int(max(a, b))), []).append(k)
    out = []
    for (a, b), ks in adj.items():
        if len(ks) != 2:
            continue
        n1, n2 = hull.equations[ks[0], :3], hull.equations[ks[1], :3]
        c = float(n1 @ n2)
        if c > 1 - 1e-9:
            continue   # diagonal of a flat face
        out.append((a, b, n1, n2, c))
    return out


def sphero_shell_points(rng, v, hull, r, n):
    """points TARGETED at the outer shell of the rounding of every edge and vertex: signed distance r(1 +- small) from an
    edge, at positions near the edge ends measured in units of r, in directions sweeping the edge's normal fan
    (incl. both extremes); and around vertices in directions of their normal cones."""
    size = gen.diameter(v)
    edges = hull_edges(v, hull)
    if not edges:
        return np.zeros((0, 3)), []
    wts = np.array([1.0 + 3.0 * (c < 0.0) + 3.0 * (c < -0.7) for (_, _, _, _, c) in edges])
    wts /= wts.sum()
    vnorm = {}
    for k, sidx in enumerate(hull.simplices):
        for a in sidx:
            vnorm.setdefault(int(a), []).append(hull.equations[k, :3])
    pts, lab = [], []
    rr = r if r > 0 else size * 1e-3
    for _ in range(n):
        delta = float(rng.choice([3e-4, 3e-3, 0.02, 0.05, 0.1, 0.2, 0.35])) if rng.random() < 0.3 \
            else float(10 ** rng.uniform(-4, -0.6))
        t = rr * (1 + delta if rng.random() < 0.4 else 1 - delta)
        a, b, n1, n2, c = edges[int(rng.choice(len(edges), p=wts))]
        if rng.random() < 0.5:
            a, b = b, a
        E = v[b] - v[a]
        Ln = float(np.linalg.norm(E))
        if rng.random() < 0.8:
            # edge shell, close to the end `a`: offset along the edge in units of the radius
            u = rng.random()
            if u < 0.6:
                sl = min(rr * float(rng.uniform(0.05, 1.0)), 0.5 * Ln)
            elif u < 0.8:
                sl = min(rr * float(rng.choice([0.05, 0.15, 0.3, 0.5, 0.8, 1.2, 2.0])), 0.5 * Ln)
            else:
                sl = float(rng.uniform(0, 1)) * Ln
            u = rng.random()
            if u < 0.5:
                th = float(np.clip(rng.normal(0.5, 0.12), 0.0, 1.0))      # around the bisector of the fan
            elif u < 0.8:
                th = float(rng.choice([0.0, 0.1, 0.3, 0.5, 0.7, 0.9, 1.0]))
            else:
                th = float(rng.random())
            # sweep the normal fan of the edge by ANGLE (the fan of a knife edge is almost a half turn)
            phi = float(np.arccos(np.clip(c, -1.0, 1.0)))
            d = np.sin((1 - th) * phi) * n1 + np.sin(th * phi) * n2
            nd = np.linalg.norm(d)
            if nd < 1e-12:
                continue
            pts.append(v[a] + E * (sl / Ln) + t * d / nd)
            lab.append("shell-edge-end" if c < 0 else "shell-edge-end-blunt")
        else:
            ns = np.array(vnorm[int(a)])
            w = rng.dirichlet(np.ones(len(ns)) * float(rng.choice([0.2, 1.0])))
            d = w @ ns
            nd = np.linalg.norm(d)
            if nd < 1e-12:
                continue
            pts.append(v[a] + t * d / nd)
            lab.append("shell-vertex")
    return np.array(pts).reshape(-1, 3), lab


def sphero_points(rng, v, hull, r, n):
    """points around the offset surface at distance r from conv(v): face, edge and vertex regions."""
    size = gen.diameter(v)
    pts, lab = [], []
    E = hull.equations
    # edge -> adjacent facet normals
    edges = {}
    for k, s in enumerate(hull.simplices):
        for a, b in ((s[0], s[1]), (s[1], s[2]), (s[2], s[0])):
            edges.setdefault((min(a, b), max(a, b)), []).append(k)
    ekeys = list(edges)
    vfac = {}
    for k, s in enumerate(hull.simplices):
        for a in s:
            vfac.setdefault(int(a), []).append(k)
    # points ON the core's surface (up to rounding): a full r inside the rounded surface when r > 0
    for _ in range(100 if r > 0 else 0):
        k = int(rng.integers(len(hull.simplices)))
        w = rng.dirichlet(np.ones(3) * float(rng.choice([0.3, 1.0, 3.0])))
        pts.append(w @ v[hull.simplices[k]])
        lab.append("sphero-core-surface")
    for _ in range(n):
        rel = float(rng.choice([1e-5, 1e-3, 3e-2, 0.3]))
        fac = (1 + rel) if rng.random() < 0.5 else max(1 - rel, 0.0)
        t = r * fac if r > 0 else size * 10 ** rng.uniform(-6, -1)
        c = rng.random()
        if c < 0.35:
            k = int(rng.integers(len(hull.simplices)))
            w = rng.dirichlet(np.ones(3) * float(rng.choice([0.1, 1.0])))
            pts.append(w @ v[hull.simplices[k]] + t * E[k, :3])
            lab.append("sphero-face")
        elif c < 0.7:
            a, b = ekeys[int(rng.integers(len(ekeys)))]
            ks = edges[(a, b)]
            wn = rng.dirichlet(np.ones(len(ks)))
            d = wn @ E[ks, :3]
            d /= np.linalg.norm(d) + 1e-300
            lam = float(rng.choice([0.0, 1.0, rng.random(), rng.random()]))
            pts.append((1 - lam) * v[a] + lam * v[b] + t * d)
            lab.append("sphero-edge")
        else:
            a = int(rng.integers(len(v)))
            ks = vfac.get(a, [0])
            wn = rng.dirichlet(np.ones(len(ks)) * 0.5)
            d = wn @ E[ks, :3]
            d /= np.linalg.norm(d) + 1e-300
            pts.append(v[a] + t * d)
            lab.append("sphero-vertex")
    return np.array(pts), lab


def solid_points(rng, solid, n):
    """model-coordinate query points for a voxel solid / extruded polygon."""
    W = _f(solid["vertices"])
    lo, hi = W.min(axis=0), W.max(axis=0)
    ext = hi - lo
    size = gen.diameter(W)
    faces = solid["faces"]
    pts, lab = [], []
    grid = None
    if "spacing" in solid:
        sp = _f(solid["spacing"])
        cells = np.array(solid["cells"])
        gmax = cells.max(axis=0) + 1
        grid = sp
    for _ in range(n):
        c = rng.random()
        if c < 0.2:
            pts.append(rng.uniform(lo - 0.3 * ext, hi + 0.3 * ext))
            lab.append("uniform")
        elif c < 0.5 and grid is not None:
            # lattice points: integer, half-integer and quarter positions, many on vertex coordinates
            u = np.array([rng.integers(-1, gmax[a] + 2) + float(rng.choice([0.0, 0.0, 0.5, 0.5, 0.25])) for a in range(3)])
            pts.append(u * grid)
            lab.append("lattice")
        elif c < 0.5:
            i, j, k = rng.integers(len(W), size=3)
            z = float(rng.choice([W[k, 2], 0.5 * (lo[2] + hi[2]), lo[2] - 0.25 * ext[2], hi[2] + 0.25 * ext[2],
                                  lo[2] + 0.25 * ext[2]]))
            m = rng.random()
            if m < 0.5:
                pts.append(np.array([W[i, 0], W[j, 1], z]))
            else:
                mid = 0.5 * (W[i] + W[j])
                pts.append(np.array([mid[0], mid[1], z]))
            lab.append("shared-coordinate")
        elif c < 0.85:
            f = faces[int(rng.integers(len(faces)))]
            fv = W[f]
            nrm = np.zeros(3)
            for a, b in zip(fv, np.roll(fv, -1, axis=0)):  # Newell
                nrm += np.cross(a, b)
            nrm /= np.linalg.norm(nrm)
            w = rng.dirichlet(np.ones(len(f)) * float(rng.choice([0.05, 0.5, 2.0])))
            q = w @ fv  # may leave a non-convex cap; the oracle decides anyway
            t = size * 10 ** rng.uniform(-6.5, -0.5) * (1 if rng.random() < 0.5 else -1)
            pts.append(q + t * nrm)
            lab.append("face+t" if t > 0 else "face-t")
        else:
            i = int(rng.integers(len(W)))
            d = rng.normal(size=3)
            d /= np.linalg.norm(d)
            pts.append(W[i] + size * 10 ** rng.uniform(-6.5, -1) * d)
            lab.append("vertex+t")
    return np.array(pts), lab


def solid_oracle(solid, M):
    """membership of model-coordinate points M in the solid and their distance to its boundary."""
    W = _f(solid["vertices"])
    if "boxes" in solid:
        boxes = _f(solid["boxes"])
        inside = np.any(np.all((M[:, None, :] >= boxes[None, :, 0, :]) & (M[:, None, :] <= boxes[None, :, 1, :]), axis=2),
                        axis=1)
        flo = np.array([W[f].min(axis=0) for f in solid["faces"]])
        fhi = np.array([W[f].max(axis=0) for f in solid["faces"]])
        bdist = gen.c05_rect_distance(M, flo, fhi).min(axis=1)
        return inside, bdist
    poly = _f(solid["poly"])
    tris = _f(solid["tris2"])
    z0, z1 = float(solid["z0"]), float(solid["z1"])
    p2 = M[:, :2]
    a, b, c = tris[None, :, 0, :], tris[None, :, 1, :], tris[None, :, 2, :]

    def cr(o, x, y):
        return (x[..., 0] - o[..., 0]) * (y[..., 1] - o[..., 1]) - (x[..., 1] - o[..., 1]) * (y[..., 0] - o[..., 0])
    q = p2[:, None, :]
    area = cr(a, b, c)
    l1, l2, l3 = cr(q, b, c) / area, cr(a, q, c) / area, cr(a, b, q) / area
    in2 = np.any((l1 >= -1e-9) & (l2 >= -1e-9) & (l3 >= -1e-9), axis=1)
    d2 = gen.c05_segment_distance2(p2, poly, np.roll(poly, -1, axis=0)).min(axis=1)
    z = M[:, 2]
    inz = (z >= z0) & (z <= z1)
    inside = in2 & inz
    dz_out = np.maximum(np.maximum(z0 - z, z - z1), 0.0)
    dz_in = np.minimum(z - z0, z1 - z)
    bdist = np.where(inside, np.minimum(d2, dz_in), np.hypot(np.where(in2, 0.0, d2), dz_out))
    # a point outside in z but above the polygon: distance dz_out; outside in 2D but within z: d2  (hypot covers both)
    return inside, bdist



# --------------------------------------------------------------------------- theorem-hypothesis certificates


def dyadic_weights(n):
    """n non-negative doubles that sum to 1 exactly (over Q)."""
    k = int(np.ceil(np.log2(max(n, 1)))) + 1
    w = np.full(n, 2.0 ** -k)
    w[0] += 1.0 - n * 2.0 ** -k
    return w


def facet_certificate(ctx, cp, P, size, case):
    """Run `facetCert` (hypothesis of cp_mem_hull_of_inside_cert) exactly over Q on the implementation's own
    equations / vertices / faces.  Returns (ok, eta, R, o) ; eta = exact max plane value over all vertices."""
    v = _f(cp.vertices)
    eqs = _f(cp._equations)
    ws = dyadic_weights(len(v))
    o = ws @ v
    R = float(max(np.max(np.abs(P - o)) if len(P) else 0.0, size) * 1.001)
    F = []
    for k, f in enumerate(cp.faces):
        f = [int(i) for i in f]
        for i in range(1, len(f) - 1):
            F.append([v[f[0]], v[f[i]], v[f[i + 1]], I(k)])
    m = MARGIN * size
    r = ctx.driver.Q("spec.in3.facets", L(list(v)), L([e for e in eqs]), L([float(x) for x in ws]), L(F), float(m), R)
    ok, wok, closed, bad = bool(r[0]), bool(r[1]), bool(r[2]), int(r[3])
    eta = float(r[7])
    ctx.count("cert:facets:" + ("ok" if ok else "failed"))
    if not ok:
        ctx.contract_failures.append({"contract": "facet-completeness certificate (closed face structure, planes fit vertices)",
                                      "got": {"weights": wok, "closed": closed, "bad_triangles": bad,
                                              "kind": case.get("info", {}).get("kind")}})
    return ok, eta, R, np.array([float(x) for x in r[4:7]])


def interior_apex(rng, o, eqs):
    """a generic point strictly inside all planes: o moved by less than a third of its smallest slack"""
    slack = float(np.min(-(eqs[:, :3] @ o + eqs[:, 3])))
    u = rng.normal(size=3)
    return o + u / np.linalg.norm(u) * 0.3 * max(slack, 0.0)


def tie_or_near(tris, p, size, bd):
    d = np.abs(tris.reshape(-1, 3) - p)
    return bool(np.any((d > 0) & (d < MARGIN * size))) or abs(bd) < MARGIN * size


def ray_certificate(ctx, cls_sig, tris, P, res, expect, bdist, size, case, labels, rng, convex_apex=None):
    """Signed ray-crossing number of the implementation's own polytri triangles, counted exactly over Q
    (Props poly_inside_iff_ray_checked / poly_inside_iff_checked).  Compared with the implementation's verdict and
    with the generator-side oracle."""
    n = len(P)
    cand = np.nonzero(expect >= 0)[0]
    if len(cand) == 0 or rng.random() * 100 >= ctx.budget(100, 45):
        return
    nq = ctx.budget(16, 20)
    pri = sorted(cand, key=lambda i: (labels[i] not in ("lattice", "shared-coordinate"), rng.random()))[:nq]
    verts = tris.reshape(-1, 3)
    if convex_apex is not None:
        # convex mesh: cone tetrahedra from an interior apex, all positively oriented: inTets == membership
        tets = [[convex_apex, t[0], t[1], t[2]] for t in tris]
        r = ctx.driver.Q("spec.in3.tetcount", L(list(tris)), L(tets), L([P[i] for i in pri]))
        closed, orient_ok = bool(r[0]), bool(r[1])
        off = [bool(x) for x in r[2::3]]
        cnt = [int(x) for x in r[3::3]]
        intets = [bool(x) for x in r[4::3]]
        ctx.count("cert:tetcount:" + ("ok" if closed and orient_ok else "failed"))
        if not (closed and orient_ok):
            ctx.contract_failures.append({"contract": "convex mesh: polytri surface = boundary of the cone from an interior point, "
                                          "all cones positively oriented", "got": [closed, orient_ok]})
            return
        verdict = intets
    else:
        o = verts.mean(axis=0) + rng.normal(size=3) * 0.37 * size
        r = ctx.driver.Q("spec.in3.ray", L(list(tris)), o, L([P[i] for i in pri]))
        closed = bool(r[0])
        off = [bool(x) for x in r[1::2]]
        cnt = [int(x) for x in r[2::2]]
        ctx.count("cert:ray:" + ("closed" if closed else "not-closed"))
        if not closed:
            ctx.contract_failures.append({"contract": "polytri surface triangulation is a closed oriented surface",
                                          "got": case.get("solid", {}).get("kind")})
            return
        verdict = [c != 0 for c in cnt]
    for j, i in enumerate(pri):
        if not off[j]:
            ctx.count("cert:ray:point-not-generic")
            continue
        ctx.count("cert:ray:points")
        if abs(cnt[j]) > 1:
            ctx.count("cert:ray:|winding|>1")
        if verdict[j] != bool(expect[i]):
            # exact theorem-side count vs generator-side oracle: do not judge, record
            ctx.count("oracle:ray-vs-generator-disagree")
            ctx.contract_failures.append({"contract": "generator-side membership == exact signed ray-crossing number != 0",
                                          "got": [P[i].tolist(), cnt[j], int(expect[i])]})
            continue
        if verdict[j] != bool(res[i]) and not tie_or_near(tris, P[i], size, bdist[i]):
            # the theorem is about real arithmetic: if the Float model (= the code, line by line) reproduces the
            # implementation's verdict, the difference is a rounding effect at a near-tie, not judged here
            fm = ctx.driver.F("in3.poly", L(list(tris)), L([P[i]]))
            if bool(fm[0]) == bool(res[i]):
                ctx.count("cert:ray:float-vs-real-tie")
                ctx.skipped_near_boundary += 1
                continue
            ctx.fail(cls_sig + ":ray-crossing-number",
                     "verdict differs from the exact signed ray-crossing number of the surface triangulation (theorem "
                     "poly_inside_iff_ray: the real-arithmetic winding test accepts p iff that number is non-zero)",
                     slim(case, [int(i)]), [int(i), labels[i], cnt[j], bool(res[i])])
            return


def arg_correspondence(ctx, op_args, shape, P, expect, case, rng, skip=None):
    """the full call with its glue (np.atleast_2d, vertex-index round trip): a (3,) argument and a small (N,3)
    argument, model (`in3.arg`) vs implementation, on judged points."""
    cand = [int(i) for i in np.nonzero(expect >= 0)[0] if skip is None or not skip(int(i))]
    if not cand:
        return
    i = int(rng.choice(cand))
    sub = [int(x) for x in rng.choice(cand, size=min(len(cand), 5), replace=False)]
    for flag, pts, arg in ((0, [i], P[i]), (1, sub, P[sub])):
        r, err = call_is_inside(shape, arg)
        try:
            m = ctx.driver.F("in3.arg", *op_args, I(flag), (P[i] if flag == 0 else L(list(P[sub]))))
            mk = None
        except ModelRaise as e:
            m, mk = None, e.kind
        ctx.count("arg:" + ("row" if flag == 0 else "rows"))
        if (mk is None) != (err is None):
            ctx.disagree("in3.arg:raise", slim(case, pts), [mk, err])
        elif m is not None and (len(m) != len(r) or [bool(x) for x in m] != [bool(x) for x in r]):
            ctx.disagree("in3.arg", slim(case, pts), [flag, [bool(x) for x in m], r.tolist()])

# --------------------------------------------------------------------------- evaluation: convex family


def contract_planes(ctx, name, eqs, v, size):
    worst = float(np.max(v @ eqs[:, :3].T + eqs[:, 3]))
    if worst > 1e-9 * size:
        ctx.contract_failures.append({"contract": name + ": every vertex on the inner side of every plane", "got": worst})


def compare_expect(ctx, cls, res, expect, case, labels, what_in, what_out, suffix=""):
    bad_in = np.nonzero((expect == 1) & ~res)[0]
    bad_out = np.nonzero((expect == 0) & res)[0]
    if len(bad_in):
        i = int(bad_in[0])
        ctx.fail("%s.is_inside:inside-point-rejected%s" % (cls, suffix), what_in, slim(case, [i]), [i, labels[i], len(bad_in)])
    if len(bad_out):
        i = int(bad_out[0])
        ctx.fail("%s.is_inside:outside-point-accepted%s" % (cls, suffix), what_out, slim(case, [i]), [i, labels[i], len(bad_out)])


def eval_convex(ctx, case):
    import coxeter
    rng = np.random.default_rng(case.get("subseed", 0))
    v = _f(case["vertices"])
    P = _f(case["points"]).reshape(-1, 3)
    labels = case.get("labels") or ["?"] * len(P)
    r = float(case["radius"])
    size = gen.diameter(v)
    try:
        cp = coxeter.shapes.ConvexPolyhedron(v)
        ph = coxeter.shapes.Polyhedron(cp.vertices, cp.faces)
        sp = coxeter.shapes.ConvexSpheropolyhedron(v, r)
    except Exception as e:  # noqa: BLE001
        ctx.fail("ConvexPolyhedron.__init__:raises", "constructor raised on a set in convex position", slim(case, []), repr(e))
        return
    # a third of the objects of every class: the same geometry REACHED THROUGH A HISTORY (scaled/shifted copy, every
    # member and query incl. is_inside read once, size / centroid / radius setters) - harness/history.py
    hr = history.rng_for(np.r_[v.ravel(), r, len(P)])
    cp, how_cp = history.maybe_via_history(cp, hr, 0.33, ctx)
    ph, how_ph = history.maybe_via_history(ph, hr, 0.33, ctx)
    sp, how_sp = history.maybe_via_history(sp, hr, 0.33, ctx)
    case = dict(case, reached={"cp": how_cp, "ph": how_ph, "sp": how_sp})
    expect, smax, hull = hull_oracle(ctx, v, P, size)
    for lb, e in zip(labels, expect):
        ctx.count("points:" + lb)
        ctx.count("expect:" + {1: "inside", 0: "outside", -1: "not-judged"}[int(e)])
    eqs = _f(cp._equations)
    contract_planes(ctx, "Qhull(ConvexPolyhedron)", eqs, v, size)
    # ---------------- theorem hypotheses on the implementation's own data (exact, Q)
    if how_cp == "direct" and sorted(map(tuple, _f(cp.vertices).tolist())) != sorted(map(tuple, v.tolist())):
        ctx.fail("ConvexPolyhedron.vertices:changed", "the stored vertices are not the input vertices (as a set)",
                 slim(case, []), None)
    cert_ok, eta, Rbox, o_cert = facet_certificate(ctx, cp, P, size, case)
    if eta > 1e-9 * size:
        ctx.contract_failures.append({"contract": "exact eta (max plane value over vertices) <= 1e-9 size", "got": eta})
    if cert_ok:
        # theorem: {max dist < -m} (in the box) is inside conv(vertices) is inside {max dist <= eta}
        dist_impl = (P @ eqs[:, :3].T + eqs[:, 3]).max(axis=1)
        mm = MARGIN * size
        thm_in = (dist_impl < -1.001 * mm) & (np.max(np.abs(P - o_cert), axis=1) <= Rbox)
        thm_out = dist_impl > eta + 1e-3 * mm
        bad = np.nonzero((thm_in & (expect == 0)) | (thm_out & (expect == 1)))[0]
        ctx.count("cert:facets:points-decided", int(np.sum(thm_in | thm_out)))
        if len(bad):
            i = int(bad[0])
            ctx.fail("ConvexPolyhedron.is_inside:facet-theorem-vs-independent-hull",
                     "the solid certified from the implementation's own planes/faces (facetCert theorem) differs from the "
                     "independently computed hull of the input vertices", slim(case, [i]), [i, labels[i], float(dist_impl[i])])

    # ---------------- ConvexPolyhedron
    res, err = call_is_inside(cp, P)
    if err is not None:
        ctx.fail("ConvexPolyhedron.is_inside:raises", "is_inside raised", slim(case, []), err)
    else:
        compare_expect(ctx, "ConvexPolyhedron", res, expect, case, labels,
                       "a point with explicit convex weights (inside the hull by >= 1e-7 size) is reported outside",
                       "a point separated from all vertices by a plane (by >= 1e-7 size) is reported inside")
        check_batching(ctx, "ConvexPolyhedron", cp, P, res, case, rng, expect >= 0)
        m = ctx.driver.F("in3.cp", L([e for e in eqs]), L(list(P)))
        dist = (P @ eqs[:, :3].T + eqs[:, 3]).max(axis=1)
        nearb = np.abs(dist) < MARGIN * size
        mism = np.nonzero((np.array(m) != res) & ~nearb)[0]
        if len(mism):
            ctx.disagree("in3.cp", slim(case, [int(mism[0])]), [int(mism[0]), bool(res[mism[0]])])
        arg_correspondence(ctx, [I(0), L([e for e in eqs])], cp, P, expect, case, rng)

    # ---------------- Polyhedron (winding number) on the same mesh
    res, err = call_is_inside(ph, P)
    if err is not None:
        poly_raise(ctx, case, err, "convex-mesh")
    else:
        compare_expect(ctx, "Polyhedron", res, expect, case, labels,
                       "winding test rejects a point of the solid (convex mesh)",
                       "winding test accepts a point outside the solid (convex mesh)")
        check_batching(ctx, "Polyhedron", ph, P, res, case, rng, expect >= 0)
        tris = np.array(list(ph._surface_triangulation()), dtype=float)
        poly_correspondence(ctx, tris, P, res, case, size, smax)
        arg_correspondence(ctx, [I(1), L(list(_f(ph.vertices))), L(list(tris))], ph, P, expect, case, rng,
                           skip=lambda i: tie_or_near(tris, P[i], size, smax[i]))
        if len(tris) <= 400:
            ray_certificate(ctx, "Polyhedron.is_inside", tris, P, res, expect, smax, size, case, labels, rng,
                            convex_apex=interior_apex(rng, o_cert, eqs) if rng.random() < 0.5 else None)

    # ---------------- ConvexSpheropolyhedron
    eval_sphero(ctx, case, sp, cp, v, hull, smax, P, labels, size, r, rng)


def poly_raise(ctx, case, err, kind):
    """Polyhedron.is_inside raised on a valid mesh: stable signatures for the two polytri failure modes."""
    if "Triangulation failed" in err:
        ctx.fail("Polyhedron.is_inside:raises:polytri-triangulation-failed",
                 "is_inside raised 'Triangulation failed' (polytri) on a valid mesh (faces with non-adjacent collinear edges, rotated)",
                 slim(case, [0]), err)
    elif "No normal found" in err:
        ctx.fail("Polyhedron.is_inside:raises:polytri-no-normal",
                 "is_inside raised 'No normal found' (polytri absolute near_zero test) on a valid mesh with small faces",
                 slim(case, [0]), err)
    else:
        ctx.fail("Polyhedron.is_inside:raises:" + kind, "is_inside raised on a valid mesh", slim(case, [0]), err)


def poly_correspondence(ctx, tris, P, res, case, size, bdist):
    out = ctx.driver.F("in3.poly", L(list(tris)), L(list(P)))
    n = len(P)
    m = np.array(out[:n], dtype=bool)
    mism = np.nonzero(m != res)[0]
    for i in mism:
        # a decision boundary of the winding code: a coordinate difference that is tiny but not zero,
        # or a point next to the surface
        d = np.abs(tris.reshape(-1, 3) - P[i])
        tie = np.any((d > 0) & (d < MARGIN * size))
        if tie or abs(bdist[i]) < MARGIN * size:
            ctx.skipped_near_boundary += 1
            continue
        ctx.disagree("in3.poly", slim(case, [int(i)]), [int(i), bool(res[i]), bool(m[i]), out[n + int(i)]])
        break


def prism_equations(cp, r):
    """the extruded-face polyhedra exactly as is_inside builds them; returns list of equation arrays or the exception."""
    import coxeter
    out = []
    try:
        for face, normal in zip(cp.faces, cp.normals):
            base = cp.vertices[face]
            inner = base - r * normal
            ext = base + r * normal
            with warnings.catch_warnings():
                warnings.simplefilter("ignore")
                out.append(_f(coxeter.shapes.ConvexPolyhedron([*inner, *ext])._equations))
        return out, None
    except Exception as e:  # noqa: BLE001
        return None, exc_kind(e)


def eval_sphero(ctx, case, sp, cp, v, hull, smax, P0, labels0, size, r, rng):
    # extra points around the rounded surface
    if "sphero_points" in case:
        P1 = _f(case["sphero_points"]).reshape(-1, 3)
        lab1 = case.get("sphero_labels") or ["?"] * len(P1)
        P = np.vstack([P0, P1]) if len(P1) else P0
        labels = list(labels0) + list(lab1)
        E = hull.equations
        smax = (P @ E[:, :3].T + E[:, 3]).max(axis=1)
    else:
        P, labels = P0, list(labels0)
    scase = dict(case, points=P.tolist(), labels=labels)
    scase.pop("sphero_points", None)
    scase.pop("sphero_labels", None)
    scase["class"] = "sphero"
    expect, core, d = sphero_oracle(ctx, v, hull, smax, P, size, r)
    # points deep inside the core are inside for every r (their hull certificate was checked in hull_oracle
    # for the first len(P0) points; the extra ones are on the outer side)
    expect[core] = 1
    ctx.skipped_near_boundary += int(np.sum(expect < 0))
    for e in expect:
        ctx.count("sphero-expect:" + {1: "inside", 0: "outside", -1: "not-judged"}[int(e)])
    ctx.count("sphero-radius:" + ("0" if r == 0 else "1e%d" % int(np.floor(np.log10(r / size)))))
    res, err = call_is_inside(sp, P)
    cls = "ConvexSpheropolyhedron"
    cp = sp.polyhedron          # the object's OWN core (it may have been reached through setters)
    prisms, perr = prism_equations(cp, r)
    eqs = _f(cp._equations)
    faces = [cp.vertices[f] for f in cp.faces]
    if err is not None:
        ctx.fail(cls + ".is_inside:raises" + (":radius=0" if r == 0 else ""),
                 "is_inside raised (%s)" % err.split(":")[0] + (" for rounding radius 0 and a point outside the core" if r == 0 else ""),
                 slim(scase, [int(np.argmax(smax))]), err)
    else:
        onsurf = np.abs(smax) < MARGIN * size
        e1 = np.where(onsurf, -1, expect)
        compare_expect(ctx, cls, res, e1, scase, labels,
                       "a point within r (by >= 1e-7 size) of an explicit point of the core is reported outside",
                       "a point whose distance to the core exceeds r (by >= 1e-7 size, KKT-certified) is reported inside")
        e2 = np.where(onsurf, expect, -1)
        compare_expect(ctx, cls, res, e2, scase, labels,
                       "a point ON the core's surface (|signed distance| < 1e-7 size, so r inside the rounded surface) is "
                       "reported outside: seam between the core test and the extruded prism's base plane",
                       "a point on the core's surface is reported inside although r < 0 margin", suffix=":core-surface")
        check_batching(ctx, cls, sp, P, res, scase, rng, expect >= 0)
    # ---- B
    args = [float(r), L([e for e in eqs]), L([L(list(f)) for f in faces])]
    if prisms is None:
        args += [I(1)]
    else:
        args += [I(0), L([L([e for e in pe]) for pe in prisms])]
        for pe, f, nrm in zip(prisms, faces, cp.normals):
            contract_planes(ctx, "Qhull(extruded face)", pe, np.vstack([f - r * nrm, f + r * nrm]), size + r)
    args.append(L(list(P)))
    try:
        out = ctx.driver.F("in3.sphero", *args)
        mraise = None
    except ModelRaise as e:
        out, mraise = None, e.kind
    if (mraise is None) != (err is None):
        ctx.disagree("in3.sphero:raise", slim(scase, []), [mraise, err])
    elif out is not None:
        n = len(P)
        m = np.array(out[:n], dtype=bool)
        singles = np.array(out[n:], dtype=bool)
        nearb = (np.abs(d - r) < MARGIN * (size + r)) | (np.abs(smax) < MARGIN * size)
        mism = np.nonzero((m != res) & ~nearb)[0]
        if len(mism):
            ctx.disagree("in3.sphero", slim(scase, [int(mism[0])]), [int(mism[0]), bool(res[mism[0]]), bool(m[mism[0]])])
        if len(singles) == n and not np.array_equal(singles, m):
            ctx.disagree("in3.sphero:batch-eq-map-single", slim(scase, []), "model batch differs from model single")


# --------------------------------------------------------------------------- evaluation: non-convex Polyhedron


def eval_solid(ctx, case):
    import coxeter
    rng = np.random.default_rng(case.get("subseed", 0))
    solid = case["solid"]
    pl = {"R": _f(case["placement"]["R"]), "s": float(case["placement"]["s"]), "t": _f(case["placement"]["t"])}
    W = _f(solid["vertices"])
    M = _f(case["mpoints"]).reshape(-1, 3)
    labels = case.get("labels") or ["?"] * len(M)
    msize = gen.diameter(W)
    V = gen.c05_apply(pl, W)
    P = gen.c05_apply(pl, M)
    size = msize * pl["s"]
    inside, bdist = solid_oracle(solid, M)
    expect = np.where(bdist >= MARGIN * msize, inside.astype(int), -1)
    ctx.skipped_near_boundary += int(np.sum(expect < 0))
    for lb, e in zip(labels, expect):
        ctx.count("points:" + lb)
        ctx.count("expect:" + {1: "inside", 0: "outside", -1: "not-judged"}[int(e)])
    # exact cross-check of the oracle over Q: union of the closed tetrahedra in world coordinates
    tets = gen.c05_apply(pl, _f(solid["tets"]).reshape(-1, 3)).reshape(-1, 4, 3)
    judged = np.nonzero(expect >= 0)[0]
    nq = ctx.budget(40, 200) if len(judged) > 40 else len(judged)
    # prefer points sharing coordinates with vertices
    pri = sorted(judged, key=lambda i: (labels[i] not in ("lattice", "shared-coordinate"), rng.random()))[:nq]
    tlo, thi = tets.min(axis=1) - 1e-9 * size, tets.max(axis=1) + 1e-9 * size
    cases = []
    for i in pri:
        cand = np.nonzero(np.all((P[i] >= tlo) & (P[i] <= thi), axis=1))[0]
        cases.append([L([I(int(k)) for k in cand]), P[i]])
    if cases:
        cnt = ctx.driver.Q("spec.in3.tets", L(list(tets)), L(cases))
        for i, c in zip(pri, cnt):
            if (c > 0) != bool(expect[i]):
                # the two independent descriptions of the solid disagree: do not judge this point
                ctx.count("oracle:voxel-vs-tets-disagree")
                ctx.contract_failures.append({"contract": "model-coordinate membership == exact union of tetrahedra",
                                              "got": [P[i].tolist(), int(c), int(expect[i])]})
                expect[i] = -1
        ctx.count("oracle:exact-Q-checked", len(pri))
    try:
        ph = coxeter.shapes.Polyhedron(V, [list(f) for f in solid["faces"]])
    except Exception as e:  # noqa: BLE001
        ctx.fail("Polyhedron.__init__:raises", "constructor raised on a valid non-convex mesh", slim(case, []), repr(e))
        return
    ph, how_ph = history.maybe_via_history(ph, history.rng_for(np.r_[V.ravel(), len(P)]), 0.33, ctx)
    case = dict(case, reached={"ph": how_ph})
    res, err = call_is_inside(ph, P)
    kind = solid["kind"].split(":")[0]
    if err is not None:
        poly_raise(ctx, case, err, kind)
        return
    compare_expect(ctx, "Polyhedron", res, expect, case, labels,
                   "winding test rejects a point of the solid (non-convex mesh, point in a closed cell/prism of the decomposition)",
                   "winding test accepts a point outside the solid (non-convex mesh)")
    check_batching(ctx, "Polyhedron", ph, P, res, case, rng, expect >= 0)
    tris = np.array(list(ph._surface_triangulation()), dtype=float)
    poly_correspondence(ctx, tris, P, res, case, size, bdist * pl["s"])
    arg_correspondence(ctx, [I(1), L(list(_f(ph.vertices))), L(list(tris))], ph, P, expect, case, rng,
                       skip=lambda i: tie_or_near(tris, P[i], size, bdist[i] * pl["s"]))
    ray_certificate(ctx, "Polyhedron.is_inside", tris, P, res, expect, bdist * pl["s"], size, case, labels, rng)


# --------------------------------------------------------------------------- exactly certified spheropolyhedra (boxes)


def make_exactbox_case(ctx, rng):
    """axis-aligned dyadic box as the core, dyadic radius r = 35 * 2^-j (so that r*(3,4)/5 and r*(2,3,6)/7 are dyadic):
    everything the implementation computes on the probes below is exact in binary floating point."""
    sc = float(2.0 ** int(rng.integers(-2, 3)))
    ext = rng.integers(1, 7, size=3).astype(float) * sc
    lo = rng.integers(-8, 9, size=3).astype(float) * sc
    hi = lo + ext
    r = 0.0 if rng.random() < 0.1 else 35.0 * float(2.0 ** -int(rng.integers(3, 9))) * sc
    rr = r if r > 0 else 35.0 / 64 * sc
    eps = sc * 2.0 ** -10
    pts, lab = [], []

    def frac():
        return float(rng.choice([0.0, 0.25, 0.5, 0.75, 1.0]))
    for _ in range(ctx.budget(160, 400)):
        c = rng.random()
        sgn = rng.choice([-1.0, 1.0], size=3)
        corner = np.where(sgn > 0, hi, lo)
        scale = float(rng.choice([1.0, 1.0, 1.0, 0.5, 2.0]))
        bump = float(rng.choice([0.0, 0.0, eps, -eps]))
        if c < 0.3:      # above a face, exactly at distance scale*r (+ bump)
            a = int(rng.integers(3))
            q = lo + np.array([frac(), frac(), frac()]) * ext
            q[a] = corner[a] + sgn[a] * (scale * rr + bump)
            pts.append(q); lab.append("exact-face" + ("" if bump else ":on-boundary" if scale == 1.0 else ""))
        elif c < 0.6:    # next to an edge, offset (3,4)/5 of scale*r in the two transverse directions
            a = int(rng.integers(3))
            b, d = [x for x in range(3) if x != a]
            if rng.random() < 0.5:
                b, d = d, b
            q = lo + np.array([frac(), frac(), frac()]) * ext
            q[b] = corner[b] + sgn[b] * (0.6 * scale * rr + bump)
            q[d] = corner[d] + sgn[d] * 0.8 * scale * rr
            pts.append(q); lab.append("exact-edge" + ("" if bump else ":on-boundary" if scale == 1.0 else ""))
        elif c < 0.85:   # next to a vertex, offset (2,3,6)/7 of scale*r, permuted
            off = np.array([2.0, 3.0, 6.0])[rng.permutation(3)] / 7.0 * scale * rr
            off[0] += bump
            pts.append(corner + sgn * off); lab.append("exact-vertex" + ("" if bump else ":on-boundary" if scale == 1.0 else ""))
        else:            # dyadic lattice point of the enlarged box
            q = lo - 2 * rr + rng.integers(0, 33, size=3) / 32.0 * (ext + 4 * rr)
            pts.append(np.round(q / eps) * eps); lab.append("exact-lattice")
    return {"class": "exactbox", "lo": lo.tolist(), "hi": hi.tolist(), "radius": r, "points": np.array(pts).tolist(),
            "labels": lab}


def box_exact_inside(lo, hi, r, P):
    """the exact criterion dist(p, box)^2 <= r^2 over the rationals"""
    from fractions import Fraction as Fr
    lo = [Fr(float(x)) for x in lo]
    hi = [Fr(float(x)) for x in hi]
    r2 = Fr(float(r)) ** 2
    out = []
    for p in P:
        d2 = Fr(0)
        for a in range(3):
            x = Fr(float(p[a]))
            if x < lo[a]:
                d2 += (lo[a] - x) ** 2
            elif x > hi[a]:
                d2 += (x - hi[a]) ** 2
        out.append(d2 <= r2)
    return np.array(out, dtype=bool)


def fan_with_index(v, faces):
    F = []
    for k, f in enumerate(faces):
        f = [int(i) for i in f]
        for i in range(1, len(f) - 1):
            F.append([v[f[0]], v[f[i]], v[f[i + 1]], I(k)])
    return F


def sphero_exact_certificate(ctx, sp, r):
    """`spheroExactCheck` (hypothesis of sphero_inside_iff_checked) evaluated exactly over Q on the IMPLEMENTATION'S OWN
    data: the core's vertices / faces / _equations, and the extruded prisms built exactly as is_inside builds them."""
    import coxeter
    cp = sp.polyhedron
    v = _f(cp.vertices)
    eqs = _f(cp._equations)
    faces = []
    for face, normal, e in zip(cp.faces, cp.normals, eqs):
        base = v[face]
        if r > 0:
            with warnings.catch_warnings():
                warnings.simplefilter("ignore")
                pr = coxeter.shapes.ConvexPolyhedron([*(base - r * normal), *(base + r * normal)])
            pv = _f(pr.vertices)
            faces.append([e[:3], float(e[3]), L(list(base)), L([q for q in _f(pr._equations)]),
                          L([float(x) for x in dyadic_weights(len(pv))]), L(fan_with_index(pv, pr.faces))])
        else:
            faces.append([e[:3], float(e[3]), L(list(base)), L([]), L([]), L([])])
    out = ctx.driver.Q("spec.in3.spheroexact", L(list(v)), float(r), L([float(x) for x in dyadic_weights(len(v))]),
                       L(fan_with_index(v, cp.faces)), L(faces))
    return bool(out[0]), bool(out[1]), int(out[2]), int(out[3])


def eval_exactbox(ctx, case):
    import coxeter
    lo, hi, r = _f(case["lo"]), _f(case["hi"]), float(case["radius"])
    P = _f(case["points"]).reshape(-1, 3)
    labels = case["labels"]
    v = np.array(list(itertools.product(*zip(lo, hi))), dtype=float)
    try:
        sp = coxeter.shapes.ConvexSpheropolyhedron(v, r)
    except Exception as e:  # noqa: BLE001
        ctx.fail("ConvexSpheropolyhedron.__init__:raises", "constructor raised on a box", slim(case, []), repr(e))
        return
    ok, core_ok, bad_faces, bad_pairs = sphero_exact_certificate(ctx, sp, r)
    ctx.count("cert:spheroexact:" + ("ok" if ok else "failed"))
    ctx.count("sphero-radius:" + ("0:exactbox" if r == 0 else "exactbox"))
    if not ok:
        ctx.contract_failures.append({"contract": "spheroExactCheck on a dyadic axis-aligned box (implementation's own planes, faces, prisms)",
                                      "got": {"core": core_ok, "bad_faces": bad_faces, "bad_pairs": bad_pairs,
                                              "lo": lo.tolist(), "hi": hi.tolist(), "r": r}})
    expect = box_exact_inside(lo, hi, r, P)
    res, err = call_is_inside(sp, P)
    if err is not None:
        ctx.fail("ConvexSpheropolyhedron.is_inside:raises" + (":radius=0" if r == 0 else ""), "is_inside raised on a box",
                 slim(case, [0]), err)
        return
    onb = np.array([lb.endswith(":on-boundary") for lb in labels])
    for lb in labels:
        ctx.count("points:" + lb)
    # certified: sphero_inside_iff holds for every real point, boundary included, and all probes are exact in floating
    # point: every probe is judged.  Not certified: boundary probes are left out.
    judged = np.ones(len(P), dtype=bool) if ok else ~onb
    ctx.count("cert:spheroexact:probes-judged", int(judged.sum()))
    ctx.count("cert:spheroexact:boundary-probes-judged", int((judged & onb).sum()))
    bad = np.nonzero(judged & (res != expect))[0]
    if len(bad):
        i = int(bad[0])
        ctx.fail("ConvexSpheropolyhedron.is_inside:exact-box-criterion" + (":on-boundary" if onb[i] else ""),
                 "on an exactly certified box (spheroExactCheck holds, so sphero_inside_iff applies: accepted <=> distance to the "
                 "core <= r, boundary included) the verdict differs from the exact rational criterion",
                 slim(case, [i]), [i, labels[i], bool(res[i]), bool(expect[i]), len(bad)])
    check_batching(ctx, "ConvexSpheropolyhedron", sp, P, res, case, np.random.default_rng(len(P)), judged)


# --------------------------------------------------------------------------- evaluation: sphere / ellipsoid


def eval_curved(ctx, case):
    import coxeter
    rng = np.random.default_rng(case.get("subseed", 0))
    cen = _f(case["center"])
    P = _f(case["points"]).reshape(-1, 3)
    labels = case.get("labels") or ["?"] * len(P)
    if case["class"] == "sphere":
        r = float(case["radius"])
        shape = coxeter.shapes.Sphere(r, cen)
        cls = "Sphere"
        exact = ctx.driver.Q("spec.in3.ball", r, cen, L(list(P)))
        rho = np.linalg.norm(P - cen, axis=1)
        nearb = np.abs(rho - r) < MARGIN * r
        model = ctx.driver.F("in3.sphere", r, cen, L(list(P)))
        what = "|p-c| <= r"
    else:
        ax = _f([case["a"], case["b"], case["c"]])
        shape = coxeter.shapes.Ellipsoid(ax[0], ax[1], ax[2], cen)
        cls = "Ellipsoid"
        exact = ctx.driver.Q("spec.in3.ellipsoid", ax[0], ax[1], ax[2], cen, L(list(P)))
        rho = np.linalg.norm((P - cen) / ax, axis=1)
        nearb = np.abs(rho - 1) * ax.min() < MARGIN * ax.max()
        model = ctx.driver.F("in3.ellipsoid", ax[0], ax[1], ax[2], cen, L(list(P)))
        what = "sum(((p-c)_i/a_i)^2) <= 1"
    shape, how = history.maybe_via_history(shape, history.rng_for(np.r_[cen, P.ravel()[:30], len(P)]), 0.33, ctx)
    case = dict(case, reached={"shape": how})
    expect = np.where(nearb, -1, np.array(exact, dtype=int))
    ctx.skipped_near_boundary += int(np.sum(nearb))
    for lb, e in zip(labels, expect):
        ctx.count("points:" + cls.lower() + ":" + lb)
        ctx.count("expect:" + {1: "inside", 0: "outside", -1: "not-judged"}[int(e)])
    res, err = call_is_inside(shape, P)
    if err is not None:
        ctx.fail(cls + ".is_inside:raises", "is_inside raised", slim(case, []), err)
        return
    compare_expect(ctx, cls, res, expect, case, labels, "a point with " + what + " (exactly) is reported outside",
                   "a point violating " + what + " (exactly) is reported inside")
    check_batching(ctx, cls, shape, P, res, case, rng, expect >= 0)
    mism = np.nonzero((np.array(model) != res) & ~nearb)[0]
    if len(mism):
        ctx.disagree("in3." + cls.lower(), slim(case, [int(mism[0])]), [int(mism[0]), bool(res[mism[0]])])
    if cls == "Sphere":
        arg_correspondence(ctx, [I(2), r, cen], shape, P, expect, case, rng)
    else:
        arg_correspondence(ctx, [I(3), ax[0], ax[1], ax[2], cen], shape, P, expect, case, rng)


def curved_points(rng, cen, ax, n):
    pts, lab = [], []
    for _ in range(n):
        c = rng.random()
        u = rng.normal(size=3)
        u /= np.linalg.norm(u)
        if c < 0.25:
            pts.append(cen + rng.uniform(-1.6, 1.6, size=3) * ax)
            lab.append("uniform")
        elif c < 0.7:
            rho = 1 + float(rng.choice([-1, 1])) * 10 ** rng.uniform(-6.5, -0.3)
            pts.append(cen + rho * u * ax)
            lab.append("radial+-t")
        elif c < 0.85:
            # inside the bounding box but possibly outside the body; all sign patterns
            pts.append(cen + rng.choice([-1, 1], size=3) * rng.uniform(0.5, 1.0, size=3) * ax)
            lab.append("box-corner")
        else:
            p = cen + rng.uniform(-1.5, 1.5, size=3) * ax
            a = int(rng.integers(3))
            p[a] = cen[a]
            pts.append(p)
            lab.append("shared-coordinate")
    return np.array(pts), lab


# --------------------------------------------------------------------------- drivers


def eval_case(ctx, case):
    cls = case["class"]
    if cls == "exactbox":
        eval_exactbox(ctx, case)
    elif cls in ("convex", "sphero"):
        eval_convex(ctx, case)
    elif cls == "solid":
        eval_solid(ctx, case)
    else:
        eval_curved(ctx, case)


def pick_n(ctx, rng, big):
    if big:
        return 2000
    return int(rng.choice([1, 2, 7, 40, 150, 300, 400], p=[0.03, 0.03, 0.04, 0.15, 0.3, 0.3, 0.15]))


def make_convex_case(ctx, rng, v, info, big=False):
    size = gen.diameter(v)
    n = pick_n(ctx, rng, big)
    P, lab = convex_points(rng, v, n)
    c = rng.random()
    if c < 0.12:
        r = 0.0
    elif str(info.get("kind", "")).startswith("sharp:") and c < 0.8:
        r = size * 10 ** float(rng.uniform(-2, -0.3))     # rounding comparable to / smaller than the knife edges
    else:
        r = size * 10 ** float(rng.uniform(-3, 2))
    hull = ConvexHull(v)
    SP, slab = sphero_points(rng, v, hull, r, max(4, n // 3))
    sharp = str(info.get("kind", "")).startswith("sharp:")
    SH, shlab = sphero_shell_points(rng, v, hull, r, (min(ctx.budget(200, 110), 600) if sharp else max(20, n // (5 if getattr(ctx, 'tier', 'quick') == 'quick' else 9))) if not big else 300)
    if len(SH):
        SP = np.vstack([SP, SH])
        slab = list(slab) + shlab
    return {"class": "convex", "vertices": v.tolist(), "radius": r, "points": P.tolist(), "labels": lab,
            "sphero_points": SP.tolist(), "sphero_labels": slab, "info": info,
            "subseed": int(rng.integers(2 ** 31))}


def make_solid_case(ctx, rng, big=False):
    for _ in range(20):
        try:
            solid = gen.c05_voxel_solid(rng) if rng.random() < 0.6 else gen.c05_extruded_polygon(rng)
            break
        except RuntimeError:      # the star generator gave up after its rejection budget: draw again
            continue
    pl = gen.c05_placement(rng)
    n = pick_n(ctx, rng, big)
    M, lab = solid_points(rng, solid, n)
    js = {k: (v.tolist() if isinstance(v, np.ndarray) else v) for k, v in solid.items()}
    return {"class": "solid", "solid": js, "placement": {"R": pl["R"].tolist(), "s": pl["s"], "t": pl["t"].tolist(),
                                                         "exact": pl["exact"]},
            "mpoints": M.tolist(), "labels": lab, "subseed": int(rng.integers(2 ** 31))}


def make_curved_case(ctx, rng, big=False):
    n = pick_n(ctx, rng, big)
    scale = 1.0 if rng.random() < 0.5 else float(10 ** rng.uniform(-3, 3))
    cen = np.zeros(3) if rng.random() < 0.3 else rng.normal(size=3) * scale * float(rng.uniform(0, 10))
    if rng.random() < 0.4:
        r = scale * float(np.exp(rng.uniform(-1, 1)))
        P, lab = curved_points(rng, cen, np.array([r, r, r]), n)
        return {"class": "sphere", "radius": r, "center": cen.tolist(), "points": P.tolist(), "labels": lab,
                "subseed": int(rng.integers(2 ** 31))}
    ax = scale * np.exp(rng.uniform(-1.5, 1.5, size=3))
    P, lab = curved_points(rng, cen, ax, n)
    return {"class": "ellipsoid", "a": float(ax[0]), "b": float(ax[1]), "c": float(ax[2]), "center": cen.tolist(),
            "points": P.tolist(), "labels": lab, "subseed": int(rng.integers(2 ** 31))}


def run(ctx):
    rng = ctx.rng
    n_convex = ctx.budget(40, 500)
    n_solid = ctx.budget(45, 600)
    n_curved = ctx.budget(25, 300)
    n_tab = ctx.budget(6, 60)
    n_big = ctx.budget(1, 12)
    for k in range(n_convex):
        v, info = sharp_core(rng) if (k % 3 == 2) else gen.convex_solid(rng)
        ctx.count("kind:" + info["kind"])
        ctx.count("placement:" + ("rotated" if info["rotated"] else "axis-aligned"))
        case = make_convex_case(ctx, rng, v, info, big=(k < n_big))
        ctx.case(case)
        eval_case(ctx, case)
    tabs = gen.tabulated_solids()
    for i in rng.choice(len(tabs), size=min(n_tab, len(tabs)), replace=False):
        fam, name, v = tabs[int(i)]
        v2, info = gen.place(rng, v, scale=1.0)
        ctx.count("kind:tabulated")
        case = make_convex_case(ctx, rng, v2, dict(info, kind="tabulated:" + fam, name=name))
        ctx.case(case)
        eval_case(ctx, case)
    for k in range(n_solid):
        case = make_solid_case(ctx, rng, big=(k < n_big))
        ctx.count("kind:" + case["solid"]["kind"])
        ctx.count("placement:" + ("exact" if case["placement"]["exact"] else "general"))
        ctx.case(case)
        eval_case(ctx, case)
    for k in range(n_curved):
        case = make_curved_case(ctx, rng, big=(k < n_big))
        ctx.count("kind:" + case["class"])
        ctx.case(case)
        eval_case(ctx, case)
    # exactly certified spheropolyhedra (drawn last: the cases above keep their random stream)
    for k in range(ctx.budget(8, 60)):
        case = make_exactbox_case(ctx, rng)
        ctx.count("kind:exactbox")
        ctx.case(case)
        eval_case(ctx, case)


def replay(ctx, payload):
    case = payload.get("case", payload)
    ctx.case(case)
    eval_case(ctx, case)
