"""Markdown table of the seeded changes under /verif/seeded (for DESIGN.md §17):  python3 harness/seedreport.py"""
import json
import os

VERIF = os.path.dirname(os.path.dirname(os.path.abspath(__file__)))


def main():
    rows = []
    root = os.path.join(VERIF, "seeded")
    for sid in sorted(os.listdir(root)):
        d = os.path.join(root, sid)
        if not os.path.isdir(d):
            continue
        meta = json.load(open(os.path.join(d, "meta.json")))
        res = json.load(open(os.path.join(d, "result.json"))) if os.path.exists(os.path.join(d, "result.json")) else {}
        summ = " ".join(str(meta.get("summary", "")).split())
        if len(summ) > 170:
            summ = summ[:167] + "..."
        needs = " ".join(str(meta.get("needs", "")).split())
        if len(needs) > 150:
            needs = needs[:147] + "..."
        caught = res.get("caught")
        also = res.get("also_caught_by", [])
        verdict = "caught" if caught else ("MISSED" if caught is False else "not run")
        if res.get("violation_lines"):
            nfi = any("no-failing-input-found" in v for v in res["violation_lines"])
            verdict += " (%d VIOLATION line%s%s)" % (len(res["violation_lines"]), "s" if len(res["violation_lines"]) != 1 else "",
                                                    ", no failing input" if nfi else "")
        if also:
            verdict += "; also: " + ", ".join(also)
        rows.append("| %s | %s | %s | %s | %s |" % (sid, meta.get("property"), summ.replace("|", "/"),
                                                  needs.replace("|", "/"), verdict))
    print("| id | property | change | needs | `./check <property>` (quick) |")
    print("|---|---|---|---|---|")
    print("\n".join(rows))


if __name__ == "__main__":
    main()
