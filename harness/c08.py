"""C08 — size setters hit their target by pure similarity; bad targets are refused."""
import numpy as np

import gen
import shapes_common as sc
from common import L, ModelRaise, exc_kind

RULE = ("every settable property (found by reflection) of every shape class x positive targets current*f with f "
        "log-uniform in 1e-3..1e3 x base shapes in general position ('regular' and 'generic'), plus targets 0, negative, "
        "nan; distinct = distinct (class, flavour, property, target)")
ASSUMPTIONS = [
    "similarity is judged on the vertex arrays (all inter-vertex distances scale by one factor k > 0, chirality kept, "
    "scaling about the origin as the code does) and on radii/semi-axes; centroid/center assignment must be a pure translation",
    "a setter whose getter raises on this shape (e.g. no insphere) is expected to raise without changing the shape",
]

DIMLESS = ["iq", "tau", "asphericity", "eccentricity", "num_vertices", "num_faces", "num_edges"]


def dims(obj):
    out = {}
    for n in DIMLESS:
        if hasattr(type(obj), n):
            try:
                out[n] = float(getattr(obj, n))
            except Exception as e:
                out[n] = exc_kind(e)
    return out


def geometry(obj):
    g = {}
    if hasattr(obj, "vertices"):
        g["vertices"] = np.array(obj.vertices, dtype=float)
    for n in ("radius", "a", "b", "c"):
        if hasattr(obj, n) and not callable(getattr(type(obj), n, None)):
            try:
                g[n] = float(getattr(obj, n))
            except Exception:
                pass
    try:
        g["centroid"] = np.array(obj.centroid, dtype=float)
    except Exception:
        pass
    return g


def same_geometry(g0, g1, size):
    for k in g0:
        if k not in g1:
            return False
        if not sc.num_close(g0[k], g1[k], size, 1e-12):
            return False
    return True


def eval_case(ctx, case):
    cls, flavour, prop, mode, val = case["cls"], case["flavour"], case["prop"], case["mode"], case["value"]
    rng = np.random.default_rng(case["base_seed"])
    obj = sc.curved_shape(rng, cls) if cls in sc.CURVED_CLASSES else sc.base_shape(rng, cls, flavour)
    size = sc.size_of(obj)
    g0 = geometry(obj)
    d0 = dims(obj)
    sig = "%s.%s=" % (cls, prop)
    try:
        cur = getattr(obj, prop)
        getter_raised = None
    except Exception as e:
        cur, getter_raised = None, e
    if mode == "bad":
        try:
            setattr(obj, prop, val)
            raised = None
        except Exception as e:
            raised = e
        g1 = geometry(obj)
        if raised is None:
            ctx.fail(sig + ":bad-target-accepted", "assigning %r to %s.%s did not raise" % (val, cls, prop), case,
                     {k: np.asarray(v).tolist() for k, v in g1.items()})
            return
        if not isinstance(raised, ValueError) and getter_raised is None:
            ctx.fail(sig + ":bad-target-wrong-exception", "assigning %r raised %s, not ValueError" % (val, exc_kind(raised)),
                     case, repr(raised))
        if not same_geometry(g0, g1, size):
            ctx.fail(sig + ":bad-target-changes-shape", "a refused assignment changed the shape", case, "")
        return
    if mode == "vec" and getter_raised is not None:
        # no centroid is defined for this class (getter raises): the assignment must be refused cleanly
        try:
            setattr(obj, prop, np.array(val, dtype=float))
            ctx.fail(sig + ":unreadable-but-settable", "getter raises but the setter succeeded", case, repr(getter_raised))
        except Exception:
            if not same_geometry(g0, geometry(obj), size):
                ctx.fail(sig + ":raises-but-changes-shape", "setter raised but changed the shape", case, "")
        ctx.count("getter-raises")
        return
    if mode == "vec":
        target = np.array(val, dtype=float)
        try:
            setattr(obj, prop, target)
        except Exception as e:
            ctx.fail(sig + ":raises", "assigning a centre raised %s" % exc_kind(e), case, repr(e))
            return
        g1 = geometry(obj)
        back = np.array(getattr(obj, prop), dtype=float)
        size1 = max(size, sc.size_of(obj))
        if not sc.num_close(back, target, size1, 1e-9):
            ctx.fail(sig + ":reads-back", "centre does not read back as assigned", case, [back, target])
        if "vertices" in g0:
            delta = g1["vertices"] - g0["vertices"]
            if not sc.num_close(delta, np.broadcast_to(delta[0], delta.shape), size1, 1e-9):
                ctx.fail(sig + ":not-a-translation", "assigning the centre moved vertices differently", case, "")
        for n in ("radius", "a", "b", "c"):
            if n in g0 and not sc.num_close(g0[n], g1[n], size1, 1e-12):
                ctx.fail(sig + ":not-a-translation", "assigning the centre changed %s" % n, case, "")
        d1 = dims(obj)
        if any(isinstance(d0[k], float) and not sc.num_close(d0[k], d1.get(k, np.nan), 1.0, 1e-7) for k in d0):
            ctx.fail(sig + ":descriptor-changed", "a dimensionless descriptor changed under translation", case, [d0, d1])
        return
    # positive target
    if getter_raised is not None:
        try:
            setattr(obj, prop, 1.0)
            ctx.fail(sig + ":unreadable-but-settable", "getter raises but the setter succeeded", case, repr(getter_raised))
        except Exception:
            if not same_geometry(g0, geometry(obj), size):
                ctx.fail(sig + ":raises-but-changes-shape", "setter raised but changed the shape", case, "")
        ctx.count("getter-raises")
        return
    target = float(cur) * val
    try:
        setattr(obj, prop, target)
    except Exception as e:
        ctx.fail(sig + ":raises", "assigning a positive target raised %s" % exc_kind(e), case, repr(e))
        return
    back = float(getattr(obj, prop))
    if not abs(back - target) <= 1e-9 * abs(target):
        ctx.fail(sig + ":reads-back", "property does not read back as assigned", case, [back, target])
    g1 = geometry(obj)
    if is_shape_parameter(cls, prop):
        # a semi-axis of an ellipse/ellipsoid or the rounding radius of a spheropolytope is a shape parameter:
        # it reads back and nothing else changes (a uniform scaling is impossible by construction)
        for kx in g0:
            if kx != prop and not sc.num_close(g0[kx], g1[kx], size, 1e-12):
                ctx.fail(sig + ":changes-other-parameters", "setting %s changed %s" % (prop, kx), case, "")
        return
    # ---- similarity: one factor k for everything with a length dimension
    k = None
    if "vertices" in g0:
        v0, v1 = g0["vertices"], g1["vertices"]
        n0 = np.linalg.norm(v0, axis=1)
        i = int(np.argmax(n0))
        k = float(np.linalg.norm(v1[i]) / n0[i])
        if not (k > 0 and sc.num_close(v1, k * v0, k * size, 1e-9)):
            ctx.fail(sig + ":not-a-similarity", "vertices are not the old ones times one positive factor", case, [k])
            return
    for n in ("radius", "a", "b", "c"):
        if n in g0 and g0[n] > 0:
            kk = g1[n] / g0[n]
            if k is None:
                k = kk
            elif abs(kk - k) > 1e-9 * k:
                ctx.fail(sig + ":not-a-similarity", "%s scaled by a different factor" % n, case, [k, kk])
                return
    if k is None or not np.isfinite(k) or k <= 0:
        ctx.fail(sig + ":not-a-similarity", "no positive scale factor", case, [k])
        return
    if cls in sc.CURVED_CLASSES and "centroid" in g0 and not sc.num_close(g0["centroid"], g1["centroid"], size, 1e-12):
        ctx.fail(sig + ":moves-centre", "a size setter moved the centre of a curved shape", case, "")
    d1 = dims(obj)
    if any(isinstance(d0[kx], float) and not sc.num_close(d0[kx], d1.get(kx, np.nan), 1.0, 1e-7) for kx in d0):
        ctx.fail(sig + ":descriptor-changed", "a dimensionless descriptor changed under a size setter", case, [d0, d1])
    # ---- B: the model's scale factor and guard for this setter
    try:
        r = ctx.driver.F("setter.factor", prop_code(prop), float(cur), target)
        if not abs(r[0] - k) <= 1e-9 * k:
            ctx.disagree("setter.factor", case, [r[0], k])
    except ModelRaise as e:
        ctx.disagree("setter.factor", case, "model raised " + e.kind)


def is_shape_parameter(cls, prop):
    return (cls in ("Ellipse", "Ellipsoid") and prop in ("a", "b", "c")) or \
           (cls.startswith("ConvexSphero") and prop == "radius")


def prop_code(prop):
    """length-degree of the property: the model's scale factor is (target/current)^(1/degree)."""
    if "volume" in prop:
        return 3
    if "area" in prop:
        return 2
    return 1


def all_cases(ctx):
    rng = ctx.rng
    S = sc.shapes_mod()
    cases = []
    for cls in sc.VERTEX_CLASSES + sc.CURVED_CLASSES:
        flavours = ["regular", "generic"] if cls in sc.VERTEX_CLASSES else ["any"]
        for flavour in flavours:
            base_seed = int(rng.integers(1 << 30))
            for prop in sc.settable_properties(getattr(S, cls)):
                if prop in ("centroid", "center"):
                    cases.append({"cls": cls, "flavour": flavour, "base_seed": base_seed, "prop": prop, "mode": "vec",
                                  "value": rng.uniform(-5, 5, size=3).tolist()})
                    continue
                nt = 2 if ctx.tier == "quick" else 8
                for _ in range(int(nt * ctx.widen)):
                    f = float(10 ** rng.uniform(-3, 3))
                    cases.append({"cls": cls, "flavour": flavour, "base_seed": base_seed, "prop": prop, "mode": "pos",
                                  "value": f})
                zero_ok = prop == "radius" and cls.startswith("ConvexSphero")
                for bad in ([-1.0, float("nan")] if zero_ok else [0.0, -1.0, float("nan")]):
                    cases.append({"cls": cls, "flavour": flavour, "base_seed": base_seed, "prop": prop, "mode": "bad",
                                  "value": bad})
    return cases


def model_case(ctx, case):
    """B (state machines of Model/Mutable.lean, Model/Mutable2.lean): the same single assignment on the Lean
    driver; the full private state and the model's closed-form getters afterwards must equal the live object's
    (so the read-back theorems of Props/C08.lean speak about what the implementation computes)."""
    import c03
    cls, prop, mode, val = case["cls"], case["prop"], case["mode"], case["value"]
    if cls not in sc.VERTEX_CLASSES:
        return
    if is_shape_parameter(cls, prop):
        if mode == "pos":
            rng = np.random.default_rng(case["base_seed"])
            val = float(getattr(sc.base_shape(rng, cls, case["flavour"]), prop)) * val
        op = ["setabs", prop, float(val)]
    else:
        op = [{"pos": "setfac", "bad": "setbad", "vec": "setvec"}[mode], prop, val]
    c03.model_history(ctx, case["base_seed"], case["flavour"], [op], cls)


def run(ctx):
    for case in all_cases(ctx):
        ctx.case(case)
        ctx.count("cls:" + case["cls"])
        ctx.count("mode:" + case["mode"])
        eval_case(ctx, case)
        model_case(ctx, case)


def replay(ctx, payload):
    case = payload.get("case", payload)
    ctx.case(case)
    if "ops" in case:       # a state-machine disagreement recorded by model_case
        import c03
        c03.model_history(ctx, case["base_seed"], case["flavour"], case["ops"], case["cls"])
        return
    eval_case(ctx, case)
    model_case(ctx, case)
