"""C08 — size setters hit their target by pure similarity; bad targets are refused."""
import itertools

import numpy as np

import gen
import shapes_common as sc
from common import L, ModelRaise, exc_kind

RULE = ("every settable property (found by reflection, and compared with the Lean table of model steps) of every shape "
        "class x positive targets current*f with f log-uniform in 1e-3..1e3 x base shapes in general position: for every "
        "class off-origin, for the 2-D classes tilted planes, clockwise and counter-clockwise vertex order (explicit "
        "normal), non-convex polygons incl. a reflex first corner (flipped default normal), non-convex and non-star-shaped "
        "polyhedra (voxel solids), a tetrahedron, rounding radius 0 / moderate / large, ellipse and ellipsoid semi-axes in "
        "every ordering, tied and nearly tied; plus targets 0, negative, nan; distinct = distinct (class, flavour, "
        "property, target)")
ASSUMPTIONS = [
    "similarity is judged on the vertex arrays (all inter-vertex distances scale by one factor k > 0, chirality kept, "
    "scaling about the origin as the code does) and on radii/semi-axes; every other size-like getter must scale by "
    "k^degree; centroid/center assignment must be a pure translation",
    "a setter whose getter raises on this shape (e.g. no insphere) is expected to raise without changing the shape",
]

DIMLESS = ["iq", "tau", "asphericity", "eccentricity", "num_vertices", "num_faces", "num_edges"]
CLASSES = sc.VERTEX_CLASSES + sc.CURVED_CLASSES        # the order of `Setters.Cls.all` in Model/Setters.lean

# ------------------------------------------------------------------ base shapes (always all of them, every seed)

FLAVOURS = {
    "ConvexPolyhedron": ["regular", "generic", "tetrahedron", "generic-far", "octahedron"],
    "Polyhedron": ["regular", "generic", "nonconvex", "nonstar"],
    "ConvexSpheropolyhedron": ["regular", "generic", "r0", "rbig", "tetrahedron", "octahedron"],
    "Polygon": ["regular", "generic", "cw-normal", "cw-normal-xy", "reflex-first", "reflex-first-xy", "nonconvex-tilted"],
    "ConvexPolygon": ["regular", "generic", "cw-normal", "tilted-far"],
    "ConvexSpheropolygon": ["regular", "generic", "r0", "rbig", "tilted-cw"],
    "Circle": ["any", "small-far"],
    "Sphere": ["any", "small-far"],
    "Ellipse": ["a<b", "a>b", "tie", "near-tie"],
    "Ellipsoid": ["abc", "acb", "bac", "bca", "cab", "cba", "tie-ab", "tie-bc", "tie-ac", "tie-all", "near-tie"],
}


def build(rng, cls, flavour):
    """the base shape of a case (deterministic in rng)."""
    S = sc.shapes_mod()
    if cls in sc.VERTEX_CLASSES and flavour in ("regular", "generic"):
        return sc.base_shape(rng, cls, flavour)
    if cls in ("ConvexPolyhedron", "ConvexSpheropolyhedron") and flavour in ("tetrahedron", "octahedron"):
        # all-triangle solids: no simplices are merged into faces (one face per simplex)
        if flavour == "tetrahedron":
            v = rng.normal(size=(4, 3)) + rng.uniform(-3, 3, size=3)
        else:
            v = np.r_[np.eye(3), -np.eye(3)] * rng.uniform(0.6, 1.6, size=3)
            v = v @ gen.random_rotation(rng).T + rng.uniform(-3, 3, size=3)
        if cls == "ConvexPolyhedron":
            return S.ConvexPolyhedron(v)
        return S.ConvexSpheropolyhedron(v, float(rng.uniform(0.1, 0.5)))
    if cls == "ConvexPolyhedron":
        o = sc.base_shape(rng, cls, "generic")
        sc_ = float(10 ** rng.uniform(-1.5, 1.5))
        return S.ConvexPolyhedron((np.array(o.vertices) + rng.uniform(-5, 5, size=3)) * sc_)
    if cls == "Polyhedron":
        kinds = ["L", "T", "stairs", "L3d", "plus"] if flavour == "nonconvex" else ["U", "C"]
        vs = gen.c05_voxel_solid(rng, kinds[int(rng.integers(len(kinds)))])
        v = np.asarray(vs["vertices"], dtype=float) @ gen.random_rotation(rng).T * float(rng.uniform(0.3, 3))
        v = v + rng.uniform(-4, 4, size=3)
        return S.Polyhedron(v, [np.array(f) for f in vs["faces"]], faces_are_convex=True)
    if cls == "ConvexSpheropolyhedron":
        o = sc.base_shape(rng, cls, "generic" if rng.random() < 0.5 else "regular")
        d = gen.diameter(np.array(o.vertices))
        return S.ConvexSpheropolyhedron(np.array(o.vertices), 0.0 if flavour == "r0" else float(d * rng.uniform(3, 8)))
    if cls == "Polygon":
        if flavour.startswith("cw-normal"):
            _, p2 = gen.polygon2d(rng, ["star", "comb", "convex", "spiral"][int(rng.integers(4))])
            v, fr = gen.embed_polygon(rng, p2, plane="xy" if flavour.endswith("xy") else "random",
                                      offset_diams=float(rng.uniform(0.5, 4)))
            return S.Polygon(v[::-1].copy(), normal=np.array(fr["n"], dtype=float))     # clockwise about the stored normal
        if flavour.startswith("reflex-first"):
            _, p2 = gen.polygon2d(rng, "reflex_first")
            v, fr = gen.embed_polygon(rng, p2, plane="xy" if flavour.endswith("xy") else "random",
                                      offset_diams=float(rng.uniform(0.5, 4)))
            return S.Polygon(v)         # the default normal comes from the first (reflex) corner: flipped
        _, p2 = gen.polygon2d(rng, ["star", "comb", "spiral"][int(rng.integers(3))])
        v, fr = gen.embed_polygon(rng, p2, plane="random", offset_diams=float(rng.uniform(2, 8)))
        return S.Polygon(v)
    if cls == "ConvexPolygon":
        _, p2 = gen.polygon2d(rng, "convex")
        v, fr = gen.embed_polygon(rng, p2, plane="random", offset_diams=float(rng.uniform(2, 8)))
        if flavour == "cw-normal":
            return S.ConvexPolygon(v[::-1].copy(), normal=np.array(fr["n"], dtype=float))
        return S.ConvexPolygon(v)
    if cls == "ConvexSpheropolygon":
        _, p2 = gen.polygon2d(rng, "convex")
        if flavour == "tilted-cw":
            v, fr = gen.embed_polygon(rng, p2, plane="random", offset_diams=float(rng.uniform(0.5, 4)))
            return S.ConvexSpheropolygon(v[::-1].copy(), float(rng.uniform(0.1, 0.5)), normal=np.array(fr["n"], dtype=float))
        v, fr = gen.embed_polygon(rng, p2, plane="xy", offset_diams=float(rng.uniform(0.5, 3)))
        d = gen.diameter(v)
        return S.ConvexSpheropolygon(v, 0.0 if flavour == "r0" else float(d * rng.uniform(3, 8)))
    c = rng.uniform(-3, 3, size=3)
    if cls in ("Circle", "Ellipse"):
        c[2] = 0.0
    if cls in ("Circle", "Sphere"):
        if flavour == "small-far":
            return getattr(S, cls)(float(10 ** rng.uniform(-3, -1)), c * 5)
        return getattr(S, cls)(float(np.exp(rng.uniform(-1, 1))), c)
    ax = np.sort(np.exp(rng.uniform(-1, 1, size=3)) * np.array([1.0, 1.6, 2.7]))     # distinct, increasing
    if cls == "Ellipse":
        a, b = {"a<b": (ax[0], ax[1]), "a>b": (ax[1], ax[0]), "tie": (ax[0], ax[0]),
                "near-tie": (ax[0], ax[0] * (1 + float(rng.choice([-1, 1])) * 10 ** rng.uniform(-12, -6)))}[flavour]
        return S.Ellipse(float(a), float(b), c)
    named = dict(zip("abc", ax))
    if flavour in ("abc", "acb", "bac", "bca", "cab", "cba"):
        a, b, cc = (named[ch] for ch in flavour)
    elif flavour == "tie-ab":
        a, b, cc = ax[1], ax[1], ax[int(rng.choice([0, 2]))]
    elif flavour == "tie-bc":
        a, b, cc = ax[int(rng.choice([0, 2]))], ax[1], ax[1]
    elif flavour == "tie-ac":
        a, b, cc = ax[1], ax[int(rng.choice([0, 2]))], ax[1]
    elif flavour == "tie-all":
        a, b, cc = ax[1], ax[1], ax[1]
    else:
        e = 1 + rng.choice([-1, 1], size=3) * 10 ** rng.uniform(-12, -6, size=3)
        a, b, cc = ax[1] * e
    return S.Ellipsoid(float(a), float(b), float(cc), c)


def scaled_copy(obj, s):
    """the same shape CONSTRUCTED at another absolute scale (vertices, radii, centre times s)."""
    S = sc.shapes_mod()
    name = type(obj).__name__
    if name == "ConvexPolyhedron":
        return S.ConvexPolyhedron(np.array(obj.vertices) * s)
    if name == "Polyhedron":
        return S.Polyhedron(np.array(obj.vertices) * s, [np.array(f) for f in obj.faces], faces_are_convex=obj._faces_are_convex)
    if name == "ConvexSpheropolyhedron":
        return S.ConvexSpheropolyhedron(np.array(obj.vertices) * s, obj.radius * s)
    if name == "Polygon":
        return S.Polygon(np.array(obj.vertices) * s, normal=np.array(obj.normal))
    if name == "ConvexPolygon":
        return S.ConvexPolygon(np.array(obj.vertices) * s, normal=np.array(obj.normal))
    if name == "ConvexSpheropolygon":
        return S.ConvexSpheropolygon(np.array(obj.vertices) * s, obj.radius * s, normal=np.array(obj.normal))
    if name in ("Circle", "Sphere"):
        return getattr(S, name)(obj.radius * s, np.array(obj.centroid) * s)
    if name == "Ellipse":
        return S.Ellipse(obj.a * s, obj.b * s, np.array(obj.centroid) * s)
    return S.Ellipsoid(obj.a * s, obj.b * s, obj.c * s, np.array(obj.centroid) * s)


_PRESCALE_PROPS = ["volume", "area", "surface_area", "perimeter"]


def rescale_by_setter(obj, s):
    """bring the shape to another absolute scale through a PUBLIC size setter (volume if there is one, else area)."""
    for q in _PRESCALE_PROPS:
        if hasattr(type(obj), q):
            setattr(obj, q, float(getattr(obj, q)) * s ** prop_code(q))
            return q
    raise ValueError("no size setter")


def apply_pre(obj, pre):
    if not pre:
        return obj
    how, s = pre
    if how == "construct":
        return scaled_copy(obj, float(s))
    rescale_by_setter(obj, float(s))
    return obj


def private_arrays(obj, prefix=""):
    """name -> ndarray for every array the object (and the core of a spheropolytope) keeps."""
    out = {}
    for name, val in vars(obj).items():
        if isinstance(val, np.ndarray):
            out[prefix + name] = val
        elif name in ("_polygon", "_polyhedron"):
            out.update(private_arrays(val, prefix + name + "."))
        elif isinstance(val, list) and val and all(isinstance(x, np.ndarray) for x in val):
            for i, x in enumerate(val):
                out["%s%s[%d]" % (prefix, name, i)] = x
    return out


def shared_with(obj, arrays):
    """names of private arrays of obj that share memory with one of the given arrays."""
    hits = []
    for name, a in private_arrays(obj).items():
        for other_name, b in arrays.items():
            if a is b or np.shares_memory(a, b):
                hits.append((name, other_name))
    return hits


def dims(obj):
    out = {}
    for n in DIMLESS:
        if hasattr(type(obj), n):
            try:
                out[n] = float(getattr(obj, n))
            except Exception as e:
                out[n] = exc_kind(e)
    return out


def geometry(obj):
    g = {}
    if hasattr(obj, "vertices"):
        g["vertices"] = np.array(obj.vertices, dtype=float)
    if hasattr(obj, "normal"):
        g["normal"] = np.array(obj.normal, dtype=float)
    for n in ("radius", "a", "b", "c"):
        if hasattr(obj, n) and not callable(getattr(type(obj), n, None)):
            try:
                g[n] = float(getattr(obj, n))
            except Exception:
                pass
    try:
        g["centroid"] = np.array(obj.centroid, dtype=float)
    except Exception:
        pass
    return g


def same_geometry(g0, g1, size):
    for k in g0:
        if k not in g1:
            return False
        if not sc.num_close(g0[k], g1[k], size, 1e-12):
            return False
    return True


def size_getters(obj, skip=()):
    """every scalar settable property that can be read now: name -> value (the 'other observables' of a similarity)."""
    out = {}
    for q in sc.settable_properties(type(obj)):
        if q in ("centroid", "center") or q in skip:
            continue
        if q in sc.LOOSE:
            import random
            random.seed(20240917)
        try:
            out[q] = float(getattr(obj, q))
        except Exception:
            pass
    return out


def full_compare(ctx, sig, case, obj, what):
    """'nothing else changed': ALL public observables of the live object (plane equations by face, is_inside on probes,
    every ball, inertia, ...) against a shape freshly constructed from its current vertices."""
    try:
        fresh = sc.fresh_of(obj)
    except Exception as e:
        ctx.fail(sig + ":fresh-construction-fails", "after %s the current vertices no longer construct the shape (%s)"
                 % (what, exc_kind(e)), case, repr(e))
        return False
    size = sc.size_of(obj)
    diffs = sc.compare(sc.observe(obj), sc.observe(fresh), size)
    ctx.count("full-compares")
    if diffs:
        ctx.fail(sig + ":stale:" + diffs[0][0], "after %s the observable %s differs from a freshly constructed shape"
                 % (what, diffs[0][0]), case, [str(x)[:300] for x in diffs[0]])
        return False
    return True


def eval_case(ctx, case):
    cls, flavour, prop, mode, val = case["cls"], case["flavour"], case["prop"], case["mode"], case["value"]
    rng = np.random.default_rng(case["base_seed"])
    obj = apply_pre(build(rng, cls, flavour), case.get("pre"))
    size = sc.size_of(obj)
    g0 = geometry(obj)
    d0 = dims(obj)
    sig = "%s.%s=" % (cls, prop)
    try:
        cur = getattr(obj, prop)
        getter_raised = None
    except Exception as e:
        cur, getter_raised = None, e
    if mode == "bad":
        pre = model_pre(obj, cls, prop, cur, getter_raised)
        try:
            setattr(obj, prop, val)
            raised = None
        except Exception as e:
            raised = e
        g1 = geometry(obj)
        if raised is None:
            ctx.fail(sig + ":bad-target-accepted", "assigning %r to %s.%s did not raise" % (val, cls, prop), case,
                     {k: np.asarray(v).tolist() for k, v in g1.items()})
            return
        if not isinstance(raised, ValueError):
            # every size setter checks its target BEFORE reading the getter (so also when the getter would raise)
            ctx.fail(sig + ":bad-target-wrong-exception", "assigning %r raised %s, not ValueError" % (val, exc_kind(raised)),
                     case, repr(raised))
        if not same_geometry(g0, g1, size):
            ctx.fail(sig + ":bad-target-changes-shape", "a refused assignment changed the shape", case, "")
        model_post(ctx, case, pre, obj, raised, val)
        return
    if mode == "vec" and getter_raised is not None:
        # no centroid is defined for this class (getter raises): the assignment must be refused cleanly
        try:
            setattr(obj, prop, np.array(val, dtype=float))
            ctx.fail(sig + ":unreadable-but-settable", "getter raises but the setter succeeded", case, repr(getter_raised))
        except Exception:
            if not same_geometry(g0, geometry(obj), size):
                ctx.fail(sig + ":raises-but-changes-shape", "setter raised but changed the shape", case, "")
        ctx.count("getter-raises")
        return
    if mode == "vec":
        target = np.array(val, dtype=float)
        others0 = size_getters(obj)
        watch = HeapWatch(ctx, obj, cls, 1, {"caller's target": target})
        try:
            setattr(obj, prop, target)
        except Exception as e:
            ctx.fail(sig + ":raises", "assigning a centre raised %s" % exc_kind(e), case, repr(e))
            return
        watch.check(ctx, case, "%s = target" % prop)
        g1 = geometry(obj)
        back = np.array(getattr(obj, prop), dtype=float)
        size1 = max(size, sc.size_of(obj))
        if not sc.num_close(back, target, size1, 1e-9):
            ctx.fail(sig + ":reads-back", "centre does not read back as assigned", case, [back, target])
        if "vertices" in g0:
            delta = g1["vertices"] - g0["vertices"]
            if not sc.num_close(delta, np.broadcast_to(delta[0], delta.shape), size1, 1e-9):
                ctx.fail(sig + ":not-a-translation", "assigning the centre moved vertices differently", case, "")
        for n in ("radius", "a", "b", "c", "normal"):
            if n in g0 and not sc.num_close(g0[n], g1[n], size1 if n != "normal" else 1.0, 1e-12):
                ctx.fail(sig + ":not-a-translation", "assigning the centre changed %s" % n, case, "")
        d1 = dims(obj)
        if any(isinstance(d0[k], float) and not sc.num_close(d0[k], d1.get(k, np.nan), 1.0, 1e-7) for k in d0):
            ctx.fail(sig + ":descriptor-changed", "a dimensionless descriptor changed under translation", case, [d0, d1])
        others1 = size_getters(obj)
        for q, v0 in others0.items():
            tol = 1e-6 if q in sc.LOOSE else 1e-8      # 1e-8: cancellation when a far shape is moved next to the origin
            if q not in others1 or not abs(others1[q] - v0) <= tol * max(abs(v0), size1 ** prop_code(q) * 1e-3):
                ctx.fail(sig + ":size-changed", "a translation changed %s" % q, case, [v0, others1.get(q)])
                break
        if cls in sc.CURVED_CLASSES:
            curved_centre_model(ctx, case, g0, target, obj)
        # ---- the caller keeps its float64 target array: no later setter may touch it, nothing may alias it
        snap = target.tobytes()
        hits = shared_with(obj, {"target": target})
        if hits:
            ctx.fail(sig + ":aliases-caller-array", "the shape keeps the caller's target array (%s)" % hits[0][0], case, hits)
            return
        try:
            q = rescale_by_setter(obj, 2.0)
        except Exception as e:
            ctx.fail(sig + ":then-size-setter-raises", "a size setter after the centre assignment raised %s" % exc_kind(e),
                     case, repr(e))
            return
        if target.tobytes() != snap:
            ctx.fail(sig + ":mutates-caller-array", "%s after the centre assignment changed the caller's target array" % q,
                     case, [np.frombuffer(snap).tolist(), target.tolist()])
            return
        # vertex classes scale about the origin (centre doubles), curved ones about their own centre (centre stays)
        back2 = np.array(getattr(obj, prop), dtype=float)
        want2 = (1.0 if cls in sc.CURVED_CLASSES else 2.0) * np.frombuffer(snap)
        if not sc.num_close(back2, want2, 2 * size1, 1e-9):
            ctx.fail(sig + ":centre-after-size-setter", "after doubling the size the centre is not where a similarity puts it",
                     case, [back2.tolist(), want2.tolist()])
        if not case.get("pre"):
            full_compare(ctx, sig, case, obj, "%s = c; %s *= %d" % (prop, q, 2 ** prop_code(q)))
        return
    # positive target
    if getter_raised is not None:
        pre = model_pre(obj, cls, prop, cur, getter_raised)
        try:
            setattr(obj, prop, 1.0)
            ctx.fail(sig + ":unreadable-but-settable", "getter raises but the setter succeeded", case, repr(getter_raised))
        except Exception as e:
            if not same_geometry(g0, geometry(obj), size):
                ctx.fail(sig + ":raises-but-changes-shape", "setter raised but changed the shape", case, "")
            model_post(ctx, case, pre, obj, e, 1.0)
        ctx.count("getter-raises")
        return
    target = float(cur) * val
    others0 = size_getters(obj, skip=(prop,))
    pre = model_pre(obj, cls, prop, cur, None)
    watch = None if is_shape_parameter(cls, prop) else HeapWatch(ctx, obj, cls, 0, {})
    try:
        setattr(obj, prop, target)
    except Exception as e:
        ctx.fail(sig + ":raises", "assigning a positive target raised %s" % exc_kind(e), case, repr(e))
        return
    if watch is not None:
        watch.check(ctx, case, "%s = target" % prop)
    back = float(getattr(obj, prop))
    # relative to the target, never absolute. The lstsq-based circum-/in-ball getters mix rows of the shape's length
    # scale with a unit normal row: at extreme absolute scales they are themselves only ~1e-8 accurate (C09/C13's
    # business); there the exactness of the assignment is judged by the scale factor below (1e-12)
    rb_tol = 1e-6 if (case.get("pre") and prop.startswith(("circum", "in"))) else 1e-9
    if prop == "circumcircle_radius" and small_scale(case) and 1e-9 * abs(target) < abs(back - target) <= 1e-4 * abs(target):
        circumcircle_finding(ctx, cls, case, [back, target])        # known finding (see notes/C08.md)
    elif not abs(back - target) <= rb_tol * abs(target):
        ctx.fail(sig + ":reads-back", "property does not read back as assigned", case, [back, target])
    g1 = geometry(obj)
    model_post(ctx, case, pre, obj, None, target)
    if is_shape_parameter(cls, prop):
        # a semi-axis of an ellipse/ellipsoid or the rounding radius of a spheropolytope is a shape parameter:
        # it reads back and nothing else changes (a uniform scaling is impossible by construction)
        for kx in g0:
            if kx != prop and not sc.num_close(g0[kx], g1[kx], size, 1e-12):
                ctx.fail(sig + ":changes-other-parameters", "setting %s changed %s" % (prop, kx), case, "")
        return
    # ---- similarity: one factor k for everything with a length dimension
    k = None
    if "vertices" in g0:
        v0, v1 = g0["vertices"], g1["vertices"]
        n0 = np.linalg.norm(v0, axis=1)
        i = int(np.argmax(n0))
        k = float(np.linalg.norm(v1[i]) / n0[i])
        if not (k > 0 and sc.num_close(v1, k * v0, k * size, 1e-9)):
            ctx.fail(sig + ":not-a-similarity", "vertices are not the old ones times one positive factor", case, [k])
            return
    if "normal" in g0 and not sc.num_close(g0["normal"], g1["normal"], 1.0, 1e-12):
        ctx.fail(sig + ":not-a-similarity", "a size setter changed the normal", case, [g0["normal"], g1["normal"]])
        return
    for n in ("radius", "a", "b", "c"):
        if n in g0 and g0[n] > 0:
            kk = g1[n] / g0[n]
            if k is None:
                k = kk
            elif abs(kk - k) > 1e-9 * k:
                ctx.fail(sig + ":not-a-similarity", "%s scaled by a different factor" % n, case, [k, kk])
                return
        elif n in g0 and g1[n] != 0:
            ctx.fail(sig + ":not-a-similarity", "a zero %s became non-zero" % n, case, [g1[n]])
            return
    if k is None or not np.isfinite(k) or k <= 0:
        ctx.fail(sig + ":not-a-similarity", "no positive scale factor", case, [k])
        return
    if cls in sc.CURVED_CLASSES and "centroid" in g0 and not sc.num_close(g0["centroid"], g1["centroid"], size, 1e-12):
        ctx.fail(sig + ":moves-centre", "a size setter moved the centre of a curved shape", case, "")
    # ---- the factor is EXACTLY (target/current)^(1/degree): a setter that ignores / rounds a near-identity target, or a
    # target close to the current value in absolute terms at a tiny scale, fails here (relative, never absolute)
    kwant = (target / float(cur)) ** (1.0 / prop_code(prop))
    ktol = 1e-6 if prop in sc.LOOSE else 1e-12
    if not abs(k - kwant) <= ktol * kwant:
        ctx.fail(sig + ":wrong-factor", "the shape was scaled by %r, not by (target/current)^(1/%d) = %r"
                 % (k, prop_code(prop), kwant), case, [k, kwant, (k - kwant) / kwant])
        return
    d1 = dims(obj)
    if any(isinstance(d0[kx], float) and not sc.num_close(d0[kx], d1.get(kx, np.nan), 1.0, 1e-7) for kx in d0):
        ctx.fail(sig + ":descriptor-changed", "a dimensionless descriptor changed under a size setter", case, [d0, d1])
    # ---- every other size-like getter scales by k^degree (a setter that rescales only part of the state fails here)
    others1 = size_getters(obj, skip=(prop,))
    for q, v0 in others0.items():
        want = v0 * k ** prop_code(q)
        # miniball and the lstsq-based circum-/in-balls are themselves only ~1e-8 accurate at extreme absolute scales
        tol = 1e-6 if (q in sc.LOOSE or q.startswith(("circum", "in"))) else 1e-9
        if q == "circumcircle_radius" and small_scale(case) and q in others1 and \
                tol * abs(want) < abs(others1[q] - want) <= 1e-4 * abs(want):
            circumcircle_finding(ctx, cls, case, [v0, others1[q], k])
            continue
        if q not in others1 or not abs(others1[q] - want) <= tol * abs(want):
            ctx.fail(sig + ":other-measure:" + q, "after the assignment %s is not k^%d times its old value" % (q, prop_code(q)),
                     case, [v0, others1.get(q), k])
            break
    # ---- B: the model's scale factor and guard for this setter
    try:
        r = ctx.driver.F("setter.factor", prop_code(prop), float(cur), target)
        if not abs(r[0] - k) <= ktol * k:
            ctx.disagree("setter.factor", case, [r[0], k])
    except ModelRaise as e:
        ctx.disagree("setter.factor", case, "model raised " + e.kind)


def is_shape_parameter(cls, prop):
    return (cls in ("Ellipse", "Ellipsoid") and prop in ("a", "b", "c")) or \
           (cls.startswith("ConvexSphero") and prop == "radius")


def prop_code(prop):
    """length-degree of the property: the model's scale factor is (target/current)^(1/degree)."""
    if "volume" in prop:
        return 3
    if "area" in prop:
        return 2
    return 1


# ------------------------------------------------------------------ B: the per-class setter tables of Model/Setters.lean

_TABLE = {}


def _strs(r, pos):
    n = r[pos]
    pos += 1
    out = []
    for _ in range(n):
        ln = r[pos]
        out.append("".join(chr(c) for c in r[pos + 1:pos + 1 + ln]))
        pos += 1 + ln
    return out, pos


def lean_table(ctx):
    """class -> (scalar property names in the order of the Lean enumeration, vector property names)."""
    if not _TABLE:
        for i, cls in enumerate(CLASSES):
            r = ctx.driver.F("setter.props", i)
            ln = r[0]
            name = "".join(chr(c) for c in r[1:1 + ln])
            sp, pos = _strs(r, 1 + ln)
            vp, pos = _strs(r, pos)
            if name != cls:
                ctx.disagree("setter.props", {"cls": cls}, "class order differs: " + name)
            _TABLE[cls] = (sp, vp)
    return _TABLE


def check_table(ctx):
    """every settable property found by reflection has a model step, and the model has no step for a property that
    does not exist."""
    S = sc.shapes_mod()
    tab = lean_table(ctx)
    for cls in CLASSES:
        refl = set(sc.settable_properties(getattr(S, cls)))
        sp, vp = tab[cls]
        ctx.count("table-props", len(refl))
        if set(sp) | set(vp) != refl or len(set(sp)) != len(sp):
            ctx.disagree("setter.props", {"cls": cls, "table": True},
                         {"only-in-implementation": sorted(refl - set(sp) - set(vp)),
                          "only-in-model": sorted((set(sp) | set(vp)) - refl)})


_EXT_CODE = {"NotImplementedError": 1, "RuntimeError": 2, "ValueError": 3}


def _ext(cur, getter_raised):
    if getter_raised is None:
        return [0, float(cur)]
    return [_EXT_CODE.get(exc_kind(getter_raised), 4)]


def _cp_tokens(o):
    heads = [[int(f[0]), int(f[1]), int(f[2])] for f in o.faces]
    simp = [[int(a), int(b), int(c)] for a, b, c in np.asarray(o.simplices)]
    return [L(list(np.array(o.vertices))), L(simp), L(heads), L(list(o._equations[:, :3])),
            L([float(x) for x in o._equations[:, 3]]), L(list(o._simplex_equations[:, :3])),
            L([float(x) for x in o._simplex_equations[:, 3]]), float(o._volume), float(o._area),
            np.array(o._centroid)]


def _cp_live(o):
    return {"vertices": np.array(o.vertices), "eqN": o._equations[:, :3], "eqD": o._equations[:, 3],
            "seqN": o._simplex_equations[:, :3], "seqD": o._simplex_equations[:, 3],
            "volume": o._volume, "area": o._area, "centroid": np.array(o._centroid)}


_CP_DEG = {"vertices": 1, "eqN": 0, "eqD": 1, "seqN": 0, "seqD": 1, "volume": 3, "area": 2, "centroid": 1}


class _Take:
    def __init__(self, rest):
        self.rest, self.pos = rest, 0

    def __call__(self, k):
        out = np.array(self.rest[self.pos:self.pos + k], dtype=float)
        self.pos += k
        return out

    def raw(self):
        v = self.rest[self.pos]
        self.pos += 1
        return v

    def getter(self):
        """`i0 value` -> value, `i1` -> None (the model's getter is external / raises)."""
        if self.raw() == 0:
            return float(self(1)[0])
        return None

    def cp(self, nv, nf, ns):
        return {"vertices": self(3 * nv).reshape(nv, 3), "eqN": self(3 * nf).reshape(nf, 3), "eqD": self(nf),
                "seqN": self(3 * ns).reshape(ns, 3), "seqD": self(ns), "volume": self(1)[0], "area": self(1)[0],
                "centroid": self(3)}


def _ellipe_value(obj):
    from scipy.special import ellipe
    return float(ellipe(obj.eccentricity ** 2))


def _ellint_values(obj):
    """the two incomplete elliptic integrals `Ellipsoid.surface_area` evaluates on the current axes (0, 0 when the
    sphere branch is taken)."""
    from scipy.special import ellipeinc, ellipkinc
    c, b, a = sorted([obj.a, obj.b, obj.c])
    if a > c:
        phi = np.arccos(c / a)
        m = min((a ** 2 * (b ** 2 - c ** 2)) / (b ** 2 * (a ** 2 - c ** 2)), 1.0)
        return float(ellipeinc(phi, m)), float(ellipkinc(phi, m))
    return 0.0, 0.0


def model_pre(obj, cls, prop, cur, getter_raised):
    """tokens of the pre-state and of the external inputs, taken BEFORE the assignment."""
    pre = {"ext": _ext(cur, getter_raised)}
    if cls == "ConvexPolyhedron":
        pre["state"] = _cp_tokens(obj)
    elif cls == "Polyhedron":
        pre["state"] = [L(list(np.array(obj.vertices))), L([L([int(i) for i in f]) for f in obj.faces]),
                        L(list(obj._equations[:, :3])), L([float(x) for x in obj._equations[:, 3]])]
    elif cls in ("Polygon", "ConvexPolygon"):
        pre["state"] = [L(list(np.array(obj._vertices))), np.array(obj._normal, dtype=float)]
    elif cls == "ConvexSpheropolygon":
        pre["state"] = [L(list(np.array(obj.polygon._vertices))), np.array(obj.polygon._normal, dtype=float),
                        float(obj.radius)]
    elif cls == "ConvexSpheropolyhedron":
        p = obj.polyhedron
        fi = [[int(i), int(j), int(e[0]), int(e[1])] for i, j, e in p._get_face_intersections()]
        pre["state"] = _cp_tokens(p) + [float(obj.radius), L(fi)]
    elif cls in ("Circle", "Sphere"):
        pre["state"] = [float(obj.radius), np.array(obj.centroid, dtype=float)]
    elif cls == "Ellipse":
        pre["state"] = [float(obj.a), float(obj.b), np.array(obj.centroid, dtype=float)]
        pre["e0"] = _ellipe_value(obj)
    elif cls == "Ellipsoid":
        pre["state"] = [float(obj.a), float(obj.b), float(obj.c), np.array(obj.centroid, dtype=float)]
        pre["e0"] = _ellint_values(obj)
    return pre


_OP = {"ConvexPolyhedron": "setter.cp", "Polyhedron": "setter.ph", "Polygon": "setter.pg", "ConvexPolygon": "setter.pg",
       "ConvexSpheropolygon": "setter.spg", "ConvexSpheropolyhedron": "setter.sph", "Circle": "setter.circle",
       "Sphere": "setter.sphere", "Ellipse": "setter.ellipse", "Ellipsoid": "setter.ellipsoid"}


def _cmp(ctx, op, case, got, live, deg, size):
    for k in got:
        if got[k] is None:
            continue
        if not sc.num_close(got[k], live[k], size ** deg[k] if deg[k] else 1.0, 1e-9):
            ctx.disagree(op + ":" + k, case, [np.asarray(got[k]).tolist(), np.asarray(live[k]).tolist()])
            return False
    return True


def model_post(ctx, case, pre, obj, raised, target):
    """B: the model step `Setters.<Class>.set prop state target` (Model/Setters.lean) on the pre-state: same raise
    (kind), same full post-state, same read-back (where the getter is a closed form of the model) as the live object."""
    cls, prop = case["cls"], case["prop"]
    sp, _ = lean_table(ctx)[cls]
    if prop not in sp:
        return          # reported by check_table
    op = _OP[cls]
    args = [sp.index(prop)] + pre["state"]
    if cls == "Ellipse":
        args += [pre["e0"], _ellipe_value(obj)]
    elif cls == "Ellipsoid":
        args += list(pre["e0"]) + list(_ellint_values(obj))
    elif cls not in ("Circle", "Sphere"):
        args += pre["ext"]
    args.append(float(target))
    ctx.count("model-step:" + cls)
    try:
        r = ctx.driver.F(op, *args)
        mkind = None
    except ModelRaise as e:
        r, mkind = None, e.kind
    ikind = None if raised is None else exc_kind(raised)
    if (mkind is None) != (ikind is None) or (mkind is not None and mkind != ikind and
                                             not (mkind == "Exception" and ikind not in _EXT_CODE)):
        ctx.disagree(op + ":raise", case, {"model": mkind, "implementation": ikind})
        return
    if mkind is not None:
        return
    take = _Take(r)
    size = sc.size_of(obj)
    try:
        if prop in sc.LOOSE:
            import random
            random.seed(20240917)
        back = float(getattr(obj, prop))
    except Exception:
        back = None
    if cls in ("ConvexPolyhedron", "ConvexSpheropolyhedron"):
        core = obj.polyhedron if cls == "ConvexSpheropolyhedron" else obj
        got = take.cp(len(core.vertices), len(core.faces), len(core.simplices))
        if not _cmp(ctx, op, case, got, _cp_live(core), _CP_DEG, size):
            return
        if cls == "ConvexSpheropolyhedron":
            size = size + float(obj.radius)
            got2 = {"radius": take(1)[0], "volume": take.getter(), "surface_area": take.getter(),
                    "mean_curvature": take.getter()}
            live2 = {"radius": obj.radius, "volume": obj.volume, "surface_area": obj.surface_area,
                     "mean_curvature": obj.mean_curvature}
            if not _cmp(ctx, op, case, got2, live2, {"radius": 1, "volume": 3, "surface_area": 2, "mean_curvature": 1}, size):
                return
    elif cls == "Polyhedron":
        nv, nf = len(obj.vertices), len(obj.faces)
        got = {"vertices": take(3 * nv).reshape(nv, 3), "eqN": take(3 * nf).reshape(nf, 3), "eqD": take(nf),
               "volume": take(1)[0], "surface_area": take(1)[0]}
        live = {"vertices": np.array(obj.vertices), "eqN": obj._equations[:, :3], "eqD": obj._equations[:, 3],
                "volume": obj.volume, "surface_area": obj.surface_area}
        if not _cmp(ctx, op, case, got, live, {"vertices": 1, "eqN": 0, "eqD": 1, "volume": 3, "surface_area": 2}, size):
            return
    elif cls in ("Polygon", "ConvexPolygon", "ConvexSpheropolygon"):
        poly = obj.polygon if cls == "ConvexSpheropolygon" else obj
        nv = len(poly._vertices)
        got = {"vertices": take(3 * nv).reshape(nv, 3), "normal": take(3)}
        live = {"vertices": np.array(poly._vertices), "normal": np.array(poly._normal, dtype=float)}
        if cls == "ConvexSpheropolygon":
            got["radius"] = take(1)[0]
            live["radius"] = obj.radius
            size = size + float(obj.radius)
        got.update({"area": take(1)[0], "perimeter": take(1)[0]})
        live.update({"area": obj.area, "perimeter": obj.perimeter})
        if not _cmp(ctx, op, case, got, live, {"vertices": 1, "normal": 0, "radius": 1, "area": 2, "perimeter": 1}, size):
            return
    elif cls in ("Circle", "Sphere"):
        got = {"radius": take(1)[0], "centroid": take(3)}
        live = {"radius": obj.radius, "centroid": np.array(obj.centroid, dtype=float)}
        if not _cmp(ctx, op, case, got, live, {"radius": 1, "centroid": 1}, size):
            return
    elif cls == "Ellipse":
        got = {"a": take(1)[0], "b": take(1)[0], "centroid": take(3)}
        live = {"a": obj.a, "b": obj.b, "centroid": np.array(obj.centroid, dtype=float)}
        if not _cmp(ctx, op, case, got, live, {"a": 1, "b": 1, "centroid": 1}, size):
            return
    else:
        got = {"a": take(1)[0], "b": take(1)[0], "c": take(1)[0], "centroid": take(3)}
        live = {"a": obj.a, "b": obj.b, "c": obj.c, "centroid": np.array(obj.centroid, dtype=float)}
        if not _cmp(ctx, op, case, got, live, {"a": 1, "b": 1, "c": 1, "centroid": 1}, size):
            return
    mback = take.getter()
    if mback is not None:
        ctx.count("model-readback-closed-form")
        if back is None or not abs(mback - back) <= 1e-9 * max(abs(back), 1e-300):
            ctx.disagree(op + ":read-back", case, [mback, back])


def curved_centre_model(ctx, case, g0, target, obj):
    cls = case["cls"]
    radii = [g0[n] for n in ("radius", "a", "b", "c") if n in g0]
    r = ctx.driver.F("setter.curved.centre", CLASSES.index(cls), *radii, g0["centroid"], np.array(target, dtype=float))
    got = np.array(r, dtype=float)
    live = np.r_[[float(getattr(obj, n)) for n in ("radius", "a", "b", "c") if n in g0], np.array(obj.centroid, dtype=float)]
    if not sc.num_close(got, live, sc.size_of(obj), 1e-12):
        ctx.disagree("setter.curved.centre", case, [got.tolist(), live.tolist()])


def closed_form_getters(ctx, cls, flavour, base_seed):
    """B: the closed-form getters of the model on the UNCHANGED base shape (ConvexPolyhedron centred balls; the
    spheropolyhedron's edge sums) equal the implementation's getters."""
    rng = np.random.default_rng(base_seed)
    obj = build(rng, cls, flavour)
    case = {"cls": cls, "flavour": flavour, "base_seed": base_seed, "getters": True}
    sp, _ = lean_table(ctx)[cls]
    size = sc.size_of(obj)
    if cls == "ConvexPolyhedron":
        # certificate: the hypothesis `s.centroid = CP.centroid s.tris s.volume` of cp_set_closed_reads_back
        r = ctx.driver.F("setter.cp.centroid", *_cp_tokens(obj))
        ctx.count("certificate:centroid-coherent")
        if not sc.num_close(np.array(r, dtype=float), np.array(obj._centroid, dtype=float), size, 1e-9):
            ctx.disagree("setter.cp.centroid", case, [list(r), np.array(obj._centroid).tolist()])
        for prop in ("volume", "surface_area", "minimal_centered_bounding_sphere_radius",
                     "maximal_centered_bounded_sphere_radius"):
            try:
                live = float(getattr(obj, prop))
            except Exception:
                continue
            try:
                r = ctx.driver.F("setter.cp.get", sp.index(prop), *_cp_tokens(obj), 4)
            except ModelRaise as e:
                ctx.disagree("setter.cp.get:" + prop, case, "model raised " + e.kind)
                continue
            if not abs(r[0] - live) <= 1e-9 * size ** prop_code(prop):
                ctx.disagree("setter.cp.get:" + prop, case, [r[0], live])
    else:
        p = obj.polyhedron
        fi = [[int(i), int(j), int(e[0]), int(e[1])] for i, j, e in p._get_face_intersections()]
        for prop in ("radius", "volume", "surface_area", "mean_curvature"):
            live = float(getattr(obj, prop))
            try:
                r = ctx.driver.F("setter.sph.get", sp.index(prop), *_cp_tokens(p), float(obj.radius), L(fi))
            except ModelRaise as e:
                ctx.disagree("setter.sph.get:" + prop, case, "model raised " + e.kind)
                continue
            if not abs(r[0] - live) <= 1e-9 * (size + obj.radius) ** prop_code(prop):
                ctx.disagree("setter.sph.get:" + prop, case, [r[0], live])


# ------------------------------------------------------------------ known finding: Polygon.circumcircle at small scales

_THIN_TRIANGLE = np.array([[-0.04181063, 1.23054366, 0.87019993], [0.29206614, 1.46955829, 0.90975153],
                           [0.36682145, 1.5067784, 0.89943723]])


def circumcircle_finding(ctx, cls, case, detail):
    """`Polygon.circumcircle` stacks the vertex-difference rows (length scale s) with the UNIT normal row in one lstsq:
    its relative accuracy degrades like eps/s (1e-9 at s = 1e-6, 1e-7 at s = 3e-9). The setter itself scales the
    vertices by exactly target/current; what fails is 'reads back as assigned' at 1e-9 relative on tiny shapes."""
    ctx.fail("%s.circumcircle_radius:accuracy-degrades-at-small-scale" % cls,
             "circumcircle_radius is only ~eps/scale accurate on small shapes, so it does not read back at 1e-9 there",
             case, detail)


def small_scale(case):
    return bool(case.get("pre")) and float(case["pre"][1]) < 1e-3


def circumcircle_probe(ctx):
    """deterministic witness of the finding (a thin triangle at scale 3e-9), for Polygon and ConvexPolygon."""
    S = sc.shapes_mod()
    for cls in ("Polygon", "ConvexPolygon"):
        s = 3e-9
        p = getattr(S, cls)(_THIN_TRIANGLE * s)
        r0 = float(p.circumcircle_radius)
        v0 = np.array(p.vertices)
        p.circumcircle_radius = 1.2 * r0
        k = float(np.linalg.norm(np.array(p.vertices)[0]) / np.linalg.norm(v0[0]))
        case = {"probe": "circumcircle", "cls": cls, "scale": s}
        ctx.case(case)
        if not abs(k - 1.2) <= 1e-12:
            ctx.fail("%s.circumcircle_radius=:wrong-factor" % cls, "the thin triangle was not scaled by 1.2", case, [k])
        err = abs(float(p.circumcircle_radius) - 1.2 * r0) / (1.2 * r0)
        if err > 1e-9:
            circumcircle_finding(ctx, cls, case, [err])


# ------------------------------------------------------------------ B: which arrays a setter writes (Model/SettersHeap.lean)

_HEAP = {}


def heap_pattern(ctx, cls, mut):
    """(attribute paths, kinds) of `SettersHeap.pattern cls mut`; kinds: 0 keep, 1 written in place, 2 re-bound to a
    fresh array. mut: 0 = `_rescale` (every size setter), 1 = the centre setter."""
    key = (cls, mut)
    if key not in _HEAP:
        r = ctx.driver.F("setter.heap", CLASSES.index(cls), mut)
        names, pos = _strs(r, 0)
        _HEAP[key] = (names, [int(x) for x in r[pos:]])
    return _HEAP[key]


def _resolve(obj, path):
    for part in path.split("."):
        obj = getattr(obj, part)
    return obj


class HeapWatch:
    """records the array objects of a shape (and every array that exists besides: the caller's, another shape's)
    before a setter; afterwards the live object must have done to each attribute what the model's pattern says."""

    def __init__(self, ctx, obj, cls, mut, others):
        self.cls, self.mut, self.obj = cls, mut, obj
        self.names, self.kinds = heap_pattern(ctx, cls, mut)
        self.before = [_resolve(obj, n) for n in self.names]
        self.bytes = [a.tobytes() for a in self.before]
        self.existing = dict(private_arrays(obj))
        self.existing.update(others)

    def check(self, ctx, case, what):
        ctx.count("heap-pattern-checks")
        # every array attribute of a shape is its own block (SettersHeap.Distinct, preserved by every setter)
        arrs = list(private_arrays(self.obj).items())
        for i in range(len(arrs)):
            for j in range(i + 1, len(arrs)):
                if arrs[i][1] is arrs[j][1] or np.shares_memory(arrs[i][1], arrs[j][1]):
                    ctx.disagree("setter.heap:distinct-blocks", case,
                                 {"step": what, "model": "every array attribute is its own block",
                                  "implementation": "%s and %s share memory" % (arrs[i][0], arrs[j][0])})
                    return False
        for name, kind, old, old_bytes in zip(self.names, self.kinds, self.before, self.bytes):
            new = _resolve(self.obj, name)
            if kind in (0, 1):
                ok = new is old and (kind == 1 or new.tobytes() == old_bytes)
                seen = "same array" if new is old else "another array"
            else:
                shared = [n for n, a in self.existing.items() if a is new or np.shares_memory(a, new)]
                ok = new is not old and not shared
                seen = "same array (in place)" if new is old else ("an existing array: %s" % shared if shared else "fresh")
            if not ok:
                ctx.disagree("setter.heap:%s" % name, case,
                             {"step": what, "model": ["keep", "in place", "re-bound to a fresh array"][kind],
                              "implementation": seen})
                return False
        return True


# ------------------------------------------------------------------ histories on PAIRS of shapes that share targets

PAIR_CLASSES = ["ConvexPolyhedron", "Polyhedron", "Polygon", "ConvexPolygon", "Circle", "Ellipse", "Sphere", "Ellipsoid"]


def snapshot(obj):
    """everything a caller can see of a shape that nobody touched: must stay bit-identical."""
    snap = {k: np.array(v, copy=True) for k, v in private_arrays(obj).items()}
    for k, v in geometry(obj).items():
        snap["geometry." + k] = np.array(v, copy=True)
    for k, v in size_getters(obj, skip=tuple(sc.LOOSE)).items():      # miniball is randomised: not a bit-stable observable
        snap["getter." + k] = np.float64(v)
    return snap


def snapshot_diff(s0, s1):
    for k in s0:
        if k not in s1 or not np.array_equal(np.asarray(s0[k]), np.asarray(s1[k]), equal_nan=True):
            return k
    return None


def pair_history(ctx, case):
    """two shapes of one class; the centre of the first is assigned from a float64 array the caller keeps, the second
    is co-located with it (`b.centroid = a.centroid`, or the same target array again); then size setters on either
    shape. After EVERY step: the caller's array is byte-identical, the shape that was not addressed is bit-identical,
    no two private arrays of different shapes (or of a shape and the caller) share memory, and each shape's centre
    equals the centre of a freshly constructed shape with its current vertices."""
    cls, share = case["cls"], case["share"]
    a = build(np.random.default_rng(case["base_seeds"][0]), cls, case["flavours"][0])
    b = build(np.random.default_rng(case["base_seeds"][1]), cls, case["flavours"][1])
    shapes = {"a": a, "b": b}
    prop = case["prop"]
    sig = "%s.%s=" % (cls, prop)
    t = np.array(case["target"], dtype=np.float64)
    t_bytes = t.tobytes()
    handed = {"target": t}

    def check(step, who):
        """who = the shape addressed by this step (None: both may have changed)."""
        if t.tobytes() != t_bytes:
            ctx.fail(sig + ":mutates-caller-array", "step %s changed the caller's target array" % step, case,
                     [np.frombuffer(t_bytes).tolist(), t.tolist()])
            return False
        for n, o in shapes.items():
            hits = shared_with(o, handed)
            if hits:
                ctx.fail(sig + ":aliases-caller-array", "after %s shape %s keeps an array of the caller (%s ~ %s)"
                         % (step, n, hits[0][0], hits[0][1]), case, hits)
                return False
        hits = shared_with(a, private_arrays(b))
        if hits:
            ctx.fail(sig + ":aliases-another-shape", "after %s the two shapes share an array (%s ~ %s)"
                     % (step, hits[0][0], hits[0][1]), case, hits)
            return False
        for n, o in shapes.items():
            if who is not None and n != who:
                d = snapshot_diff(snaps[n], snapshot(o))
                if d is not None:
                    ctx.fail(sig + ":changes-another-shape", "%s (addressed to shape %s) changed %s of shape %s"
                             % (step, who, d, n), case, "")
                    return False
            try:
                c_live = np.array(o.centroid, dtype=float)
                c_true = np.array(sc.fresh_of(o).centroid, dtype=float)
            except Exception as e:
                ctx.fail(sig + ":centroid-unavailable", "after %s the centre of shape %s cannot be computed (%s)"
                         % (step, n, exc_kind(e)), case, repr(e))
                return False
            if not sc.num_close(c_live, c_true, sc.size_of(o), 1e-9):
                ctx.fail(sig + ":centroid-stale", "after %s the centre of shape %s is not the centre of its geometry" % (step, n),
                         case, [c_live.tolist(), c_true.tolist()])
                return False
        return True

    snaps = {}
    try:
        setattr(a, prop, t)
        if share == "getter":
            got = getattr(a, prop)          # whatever the getter hands out (possibly the live array) ...
            handed["a." + prop] = got if isinstance(got, np.ndarray) else np.array(got)
            setattr(b, prop, got)           # ... co-locates the second shape
        else:
            setattr(b, prop, t)             # the same target array for both
    except Exception as e:
        ctx.fail(sig + ":raises", "co-locating two shapes raised %s" % exc_kind(e), case, repr(e))
        return
    # the array the getter handed out may legitimately be the live array of `a` (C15/C16 judge that); it must not
    # become part of `b`
    if share == "getter":
        hits = shared_with(b, {"a." + prop: handed.pop("a." + prop)})
        if hits:
            ctx.fail(sig + ":aliases-another-shape", "b.%s = a.%s made b keep a's array (%s)" % (prop, prop, hits[0][0]),
                     case, hits)
            return
    if not check("the centre assignments", None):
        return
    for who, q, f in case["ops"]:
        o = shapes[who]
        snaps = {n: snapshot(x) for n, x in shapes.items()}
        try:
            if q in sc.LOOSE:
                import random
                random.seed(20240917)
            cur = float(getattr(o, q))
        except Exception:
            continue
        other = shapes["b" if who == "a" else "a"]
        watch = None if is_shape_parameter(cls, q) else \
            HeapWatch(ctx, o, cls, 0, dict({"other." + k: v for k, v in private_arrays(other).items()}, target=t))
        try:
            setattr(o, q, cur * f)
        except Exception as e:
            ctx.fail("%s.%s=:raises" % (cls, q), "a positive target raised %s in a pair history" % exc_kind(e), case, repr(e))
            return
        ctx.count("pair-steps")
        if watch is not None:
            watch.check(ctx, case, "%s.%s = %g * current" % (who, q, f))
        if not check("%s.%s = %g * current" % (who, q, f), who):
            return


def pair_cases(ctx):
    rng = ctx.rng
    S = sc.shapes_mod()
    cases = []
    n = 1 if ctx.tier == "quick" else 6
    for cls in PAIR_CLASSES:
        props = [q for q in sc.settable_properties(getattr(S, cls)) if q not in ("centroid", "center")]
        fl = FLAVOURS[cls]
        for share in ("getter", "same-array"):
            for prop in ("centroid", "center"):
                for _ in range(int(n * ctx.widen)):
                    ops = [[["a", "b"][int(rng.integers(2))], props[int(rng.integers(len(props)))],
                            float(rng.choice([0.5, 2.0, 1.7, 1 / 3.0, 8.0]))] for _ in range(4)]
                    ops[0][0] = "a"
                    ops[1][0] = "b"
                    # the first steps go through a setter every class has a getter for
                    ops[0][1] = [q for q in _PRESCALE_PROPS if q in props][0]
                    cases.append({"pair": True, "cls": cls, "share": share, "prop": prop,
                                  "flavours": [fl[int(rng.integers(len(fl)))], fl[int(rng.integers(len(fl)))]],
                                  "base_seeds": [int(rng.integers(1 << 30)), int(rng.integers(1 << 30))],
                                  "target": rng.uniform(-4, 4, size=3).tolist(), "ops": ops})
    return cases


# ------------------------------------------------------------------ histories: centre assignment, THEN every size setter

HIST_FLAVOURS = {"ConvexPolyhedron": ["tetrahedron", "octahedron", "generic", "regular"],
                 "ConvexSpheropolyhedron": ["tetrahedron", "octahedron", "generic"]}


def hist_case(ctx, case):
    """centroid/center = c (a spheropolyhedron: on its core, `shape.polyhedron.centroid = c`), then ONE size setter;
    after the last step the whole observable set must equal a freshly constructed shape's, the vertices must be the
    translated ones times one positive factor, and no two array attributes may share a block."""
    cls, prop, q, f = case["cls"], case["prop"], case["then"], case["factor"]
    obj = build(np.random.default_rng(case["base_seed"]), cls, case["flavour"])
    holder = obj.polyhedron if cls == "ConvexSpheropolyhedron" else obj
    sig = "%s.%s=" % (cls, q)
    target = np.array(case["value"], dtype=np.float64)
    try:
        setattr(holder, prop, target)
    except Exception as e:
        ctx.fail("%s.%s=:raises" % (type(holder).__name__, prop), "assigning a centre raised %s" % exc_kind(e), case, repr(e))
        return
    v_mid = np.array(obj.vertices, dtype=float)
    try:
        if q in sc.LOOSE:
            import random
            random.seed(20240917)
        cur = float(getattr(obj, q))
    except Exception:
        ctx.count("getter-raises")
        return
    if is_shape_parameter(cls, q):
        return
    watch = HeapWatch(ctx, obj, cls, 0, {"caller's target": target})
    try:
        setattr(obj, q, cur * f)
    except Exception as e:
        ctx.fail(sig + ":raises", "a positive target after a centre assignment raised %s" % exc_kind(e), case, repr(e))
        return
    ctx.count("hist:%s" % cls)
    watch.check(ctx, case, "%s = c; %s = %g * current" % (prop, q, f))
    k = f ** (1.0 / prop_code(q))
    v1 = np.array(obj.vertices, dtype=float)
    if not sc.num_close(v1, k * v_mid, k * sc.size_of(obj), 1e-9):
        ctx.fail(sig + ":not-a-similarity", "after a centre assignment the size setter is not a uniform scaling", case, [k])
        return
    full_compare(ctx, sig + ":after-centre-assignment", case, obj, "%s = c; %s = %g * current" % (prop, q, f))


def hist_cases(ctx):
    rng = ctx.rng
    S = sc.shapes_mod()
    cases = []
    for cls, flavours in HIST_FLAVOURS.items():
        props = [q for q in sc.settable_properties(getattr(S, cls)) if q not in ("centroid", "center")]
        reps = 1 if ctx.tier == "quick" else 3
        for flavour in flavours:
            for _ in range(int(reps * ctx.widen)):
                base_seed = int(rng.integers(1 << 30))
                for q in props:
                    cprops = ["centroid"] if cls == "ConvexSpheropolyhedron" else ["centroid", "center"]
                    if ctx.tier == "quick" and len(cprops) > 1:
                        cprops = [cprops[int(rng.integers(2))]]
                    for prop in cprops:
                        cases.append({"hist": True, "cls": cls, "flavour": flavour, "base_seed": base_seed, "prop": prop,
                                      "value": rng.uniform(-4, 4, size=3).tolist(), "then": q,
                                      "factor": float(rng.choice([0.3, 0.5, 1.7, 2.0, 6.0]))})
    return cases


def all_cases(ctx):
    rng = ctx.rng
    S = sc.shapes_mod()
    cases = []
    for cls in CLASSES:
        reps = 1 if ctx.tier == "quick" else 4          # thorough: four different base shapes of every flavour
        for fi, flavour in [(i, f) for i, f in enumerate(FLAVOURS[cls]) for _ in range(reps)]:
            base_seed = int(rng.integers(1 << 30))
            primary = fi < 2 or cls in sc.CURVED_CLASSES
            for prop in sc.settable_properties(getattr(S, cls)):
                if prop in ("centroid", "center"):
                    cases.append({"cls": cls, "flavour": flavour, "base_seed": base_seed, "prop": prop, "mode": "vec",
                                  "value": rng.uniform(-5, 5, size=3).tolist()})
                    if fi < 2:
                        sc_ = float(10 ** rng.uniform(-9, 9))
                        cases.append({"cls": cls, "flavour": flavour, "base_seed": base_seed, "prop": prop, "mode": "vec",
                                      "value": (rng.uniform(-5, 5, size=3) * sc_).tolist(),
                                      "pre": [["construct", "setter"][int(rng.integers(2))], sc_]})
                    continue
                nt = (2 if primary else 1) if ctx.tier == "quick" else (8 if primary else 4)
                for _ in range(int(nt * ctx.widen)):
                    f = float(10 ** rng.uniform(-3, 3))
                    cases.append({"cls": cls, "flavour": flavour, "base_seed": base_seed, "prop": prop, "mode": "pos",
                                  "value": f})
                if fi < 2:
                    # near-identity targets (a setter that short-cuts "already the requested size" is wrong)
                    mags = [1e-3, 1e-6, 1e-9] if ctx.tier == "quick" else [1e-2, 1e-3, 1e-4, 1e-5, 1e-6, 1e-7, 1e-9, 1e-12]
                    if ctx.tier == "quick" and fi == 1:
                        mags = [mags[int(rng.integers(3))]]
                    for mag in mags:
                        signs = [float(rng.choice([-1, 1]))] if ctx.tier == "quick" else [-1.0, 1.0]
                        for sg in signs:
                            cases.append({"cls": cls, "flavour": flavour, "base_seed": base_seed, "prop": prop,
                                          "mode": "pos", "value": 1.0 + sg * mag})
                    # extreme absolute scales, reached by construction and through a previous (public) size setter
                    bands = [(-9, -6), (-6, -3), (3, 6), (6, 9)]
                    if ctx.tier == "quick":
                        # always one tiny and one huge scale on the first flavour, one of the four on the second
                        bands = [bands[int(rng.integers(2))], bands[2 + int(rng.integers(2))]] if fi == 0 else \
                            [bands[int(rng.integers(4))]]
                    for lo, hi in bands:
                        hows = [["construct", "setter"][int(rng.integers(2))]] if ctx.tier == "quick" else ["construct", "setter"]
                        for how in hows:
                            f = float(rng.choice([1.2, 1 / 1.15, 1 + 1e-6, 1 - 1e-4, float(10 ** rng.uniform(-1, 1))]))
                            cases.append({"cls": cls, "flavour": flavour, "base_seed": base_seed, "prop": prop,
                                          "mode": "pos", "value": f, "pre": [how, float(10 ** rng.uniform(lo, hi))]})
                zero_ok = prop == "radius" and cls.startswith("ConvexSphero")
                bads = [-1.0, float("nan")] if zero_ok else [0.0, -1.0, float("nan")]
                if not primary and ctx.tier == "quick":
                    bads = [bads[int(rng.integers(len(bads)))], float("nan")]
                for bad in bads:
                    cases.append({"cls": cls, "flavour": flavour, "base_seed": base_seed, "prop": prop, "mode": "bad",
                                  "value": bad})
                if zero_ok:
                    # the rounding radius may be set to zero (and then every size setter still works)
                    cases.append({"cls": cls, "flavour": flavour, "base_seed": base_seed, "prop": prop, "mode": "pos",
                                  "value": 0.0})
    return cases


def model_case(ctx, case):
    """B (state machines of Model/Mutable.lean, Model/Mutable2.lean): the same single assignment on the Lean
    driver; the full private state and the model's closed-form getters afterwards must equal the live object's
    (so the read-back theorems of Props/C08.lean speak about what the implementation computes)."""
    import c03
    cls, prop, mode, val = case["cls"], case["prop"], case["mode"], case["value"]
    if cls not in sc.VERTEX_CLASSES or case["flavour"] not in ("regular", "generic") or case.get("pre"):
        return
    if is_shape_parameter(cls, prop):
        if mode == "pos":
            rng = np.random.default_rng(case["base_seed"])
            val = float(getattr(sc.base_shape(rng, cls, case["flavour"]), prop)) * val
        op = ["setabs", prop, float(val)]
    else:
        op = [{"pos": "setfac", "bad": "setbad", "vec": "setvec"}[mode], prop, val]
    c03.model_history(ctx, case["base_seed"], case["flavour"], [op], cls)


def run(ctx):
    check_table(ctx)
    circumcircle_probe(ctx)
    for case in hist_cases(ctx):
        ctx.case(case)
        hist_case(ctx, case)
    for case in pair_cases(ctx):
        ctx.case(case)
        ctx.count("pair:%s:%s" % (case["cls"], case["share"]))
        pair_history(ctx, case)
    seen = set()
    for case in all_cases(ctx):
        ctx.case(case)
        ctx.count("cls:" + case["cls"])
        ctx.count("mode:" + case["mode"])
        ctx.count("flavour:%s:%s" % (case["cls"], case["flavour"]))
        eval_case(ctx, case)
        model_case(ctx, case)
        key = (case["cls"], case["flavour"])
        if key not in seen and case["cls"] in ("ConvexPolyhedron", "ConvexSpheropolyhedron"):
            seen.add(key)
            closed_form_getters(ctx, case["cls"], case["flavour"], case["base_seed"])


def replay(ctx, payload):
    case = payload.get("case", payload)
    ctx.case(case)
    if case.get("table"):
        check_table(ctx)
        return
    if case.get("probe") == "circumcircle":
        circumcircle_probe(ctx)
        return
    if case.get("hist"):
        hist_case(ctx, case)
        return
    if case.get("pair"):
        pair_history(ctx, case)
        return
    if case.get("getters"):
        closed_form_getters(ctx, case["cls"], case["flavour"], case["base_seed"])
        return
    if "ops" in case:       # a state-machine disagreement recorded by model_case
        import c03
        c03.model_history(ctx, case["base_seed"], case["flavour"], case["ops"], case["cls"])
        return
    eval_case(ctx, case)
    model_case(ctx, case)
