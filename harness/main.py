"""./check <id> [--tier quick|thorough] [--replay path]   (cwd = /verif)"""
import argparse
import hashlib
import importlib
import json
import os
import sys
import time
import traceback

sys.path.insert(0, os.path.dirname(os.path.abspath(__file__)))
import common  # noqa: E402
from common import Ctx, Driver, InfraError, VERIF, jsonable  # noqa: E402

TRUSTED_BASE = [
    "Lean 4.33.0 kernel",
    "Mathlib v4.33.0 (library of proved facts)",
    "axioms allowed: propext, Classical.choice, Quot.sound (no others; audited by #print axioms on every run)",
    "specification layer lean/CoxeterVerif/Spec/*.lean (closed forms / definitions taken as the meaning of 'exact')",
    "correspondence check (harness/*.py, driver parser, tolerances 1e-9*scale) tying the hand-written model to /repo",
    "external libraries as parameters with per-run contract checks: Qhull, LAPACK, rowan.kabsch, miniball, scipy.special",
    "IEEE-754 rounding is outside the theorems (they are over the reals)",
]


SOURCE_DRIFT_WIDEN = 3


def write_replay(pid, payload):
    os.makedirs(os.path.join(VERIF, "replays"), exist_ok=True)
    blob = json.dumps(payload, sort_keys=True, default=jsonable, indent=1)
    h = hashlib.sha1(blob.encode()).hexdigest()[:12]
    rel = os.path.join("replays", "%s-%s.json" % (pid, h))
    with open(os.path.join(VERIF, rel), "w") as f:
        f.write(blob)
    return rel


def match_known(fail, known):
    for k in known:
        if k.get("status") == "known" and k.get("property") == fail.get("pid") and k.get("signature") == fail["sig"]:
            return k
    return None


def stage_a(pid, ctx, mod):
    """regenerate tables (if the module has a translator), build, audit."""
    info = {"build_ok": True, "audit": {}, "forbidden": [], "build_s": 0.0}
    if hasattr(mod, "translate"):
        mod.translate(ctx)
    targets = ["driver"]
    if os.path.exists(os.path.join(common.LEAN, "CoxeterVerif", "Props", pid + ".lean")):
        targets.append("CoxeterVerif.Props." + pid)
    ok, out, secs = common.lake_build(targets)
    info["build_s"] = round(secs, 2)
    info["build_ok"] = ok
    if not ok:
        info["build_log"] = out[-4000:]
        return info
    info["forbidden"] = common.forbidden_tokens()
    names = common.theorems_of(pid)
    if names:
        res, raw = common.audit_axioms(pid, names)
        info["audit"] = res
        if any(v is None for v in res.values()):
            info["audit_raw"] = raw[-3000:]
    return info


def main():
    ap = argparse.ArgumentParser()
    ap.add_argument("pid")
    ap.add_argument("--tier", default=os.environ.get("VERIF_TIER", "quick"))
    ap.add_argument("--replay", default=None)
    args = ap.parse_args()
    pid = args.pid
    tier = args.tier if args.tier in ("quick", "thorough") else "quick"
    seed = int(os.environ.get("VERIF_SEED", "0") or 0)
    t0 = time.time()
    mod = importlib.import_module(pid.lower())
    replay_case = None
    if args.replay:
        replay_case = json.load(open(args.replay))
    ctx = Ctx(pid, tier, seed, replay_case)

    # ---- A: build + audit
    a = stage_a(pid, ctx, mod)
    generated_break = False
    if not a["build_ok"]:
        if hasattr(mod, "translate") and getattr(ctx, "generated_changed", True):
            # a proof obligation over regenerated tables broke: go search for a failing input
            generated_break = True
            ctx.obligation_breaks.append({"kind": "lake build failed over regenerated tables",
                                          "log": a.get("build_log", "")[-1500:]})
            # need a driver anyway: build it alone
            ok, out, _ = common.lake_build(["driver"])
            if not ok:
                raise InfraError("driver build failed:\n" + out[-3000:])
        else:
            raise InfraError("lake build failed (hand-written Lean sources):\n" + a.get("build_log", ""))
    if a["forbidden"]:
        raise InfraError("forbidden tokens in Lean sources: %s" % a["forbidden"])
    names = list(a["audit"].keys())
    bad_axioms = {n: v for n, v in a["audit"].items()
                  if v is None or not set(v) <= common.ALLOWED_AXIOMS}
    if bad_axioms and not generated_break:
        raise InfraError("axiom audit failed: %s\n%s" % (bad_axioms, a.get("audit_raw", "")))

    # ---- source drift: the files this property is anchored in differ from the ones the model was last validated
    # against -> not a violation, not a disagreement; only a reason to search harder from the start
    try:
        import fingerprint
        drift = fingerprint.relevant(pid, fingerprint.changed_files(common.REPO), VERIF)
    except Exception:
        drift = []
    if os.environ.get("VERIF_FORCE_WIDEN"):      # testing aid: behave as if the anchored sources had changed
        drift = drift or ["<forced by VERIF_FORCE_WIDEN>"]
    if drift and replay_case is None:
        ctx.widen = SOURCE_DRIFT_WIDEN
        ctx.extra["source_drift"] = {"files": drift, "widen": SOURCE_DRIFT_WIDEN}
        ctx.count("source-drift-widened", 1)

    # ---- B + C: correspondence and property oracle
    ctx.driver = Driver()

    def guarded(fn, *a):
        """Safety net: an exception escaping from the implementation (innermost frames inside $COXETER_REPO) that
        the module did not anticipate is a failure of the last registered case, not an infrastructure error."""
        try:
            fn(*a)
        except InfraError:
            raise
        except Exception as e:
            tb = traceback.extract_tb(e.__traceback__)
            repo_frames = [f for f in tb if os.path.realpath(f.filename).startswith(os.path.realpath(common.REPO) + os.sep)]
            if not repo_frames:
                raise
            last = repo_frames[-1]
            ctx.fail("%s:unexpected-exception:%s@%s" % (pid, type(e).__name__, last.name),
                     "the implementation raised %s in %s (%s:%d), which no check on the unchanged tree does"
                     % (type(e).__name__, last.name, os.path.basename(last.filename), last.lineno),
                     getattr(ctx, "last_case", None), "".join(traceback.format_exception_only(type(e), e)).strip())

    try:
        if replay_case is not None:
            guarded(mod.replay, ctx, replay_case)
        else:
            guarded(mod.run, ctx)
            if (ctx.disagreements or ctx.obligation_breaks) and not ctx.failures:
                # widen the search for a concrete failing input
                ctx.widen = 10
                ctx.count("widened_search", 1)
                guarded(mod.run, ctx)
    finally:
        ctx.driver.close()

    # ---- D: classify
    known = common.load_known()
    for f in ctx.failures:
        f["pid"] = pid
    unlisted = [f for f in ctx.failures if not match_known(f, known)]
    listed = {}
    for f in ctx.failures:
        k = match_known(f, known)
        if k:
            listed.setdefault(k["signature"], (k, f))
    rc = 0
    lines = []
    if unlisted:
        # group by signature, one VIOLATION line per signature (first witness each)
        seen = {}
        for f in unlisted:
            seen.setdefault(f["sig"], f)
        for sig, f in seen.items():
            rel = write_replay(pid, {"property": pid, "kind": "failing-input", "signature": sig,
                                     "what": f["what"], "case": f["case"], "detail": f["detail"],
                                     "seed": seed, "tier": tier})
            lines.append("VIOLATION property=%s replay=%s" % (pid, rel))
        rc = 1
    elif ctx.disagreements or ctx.obligation_breaks:
        # Known findings never explain a model/impl disagreement: the model reproduces them.
        rel = write_replay(pid, {"property": pid, "kind": "no-failing-input-found",
                                 "broken": [{"correspondence_op": d["op"], "detail": d["detail"], "case": d["case"]}
                                            for d in ctx.disagreements[:5]] + ctx.obligation_breaks[:5],
                                 "seed": seed, "tier": tier})
        lines.append("VIOLATION property=%s replay=%s no-failing-input-found" % (pid, rel))
        rc = 1
    for sig, (k, f) in listed.items():
        lines.append("KNOWN-FINDING: property=%s %s" % (pid, k.get("what", sig)))

    # ---- E: evidence
    n_obl = len(names)
    n_ok = len([n for n in names if n not in bad_axioms]) if a["build_ok"] else 0
    coverage = {
        "obligations": n_obl,
        "discharged": n_ok,
        "checker_cmd": "cd lean && lake build CoxeterVerif.Props.%s driver && lake env lean <#print axioms of each theorem>" % pid,
        "trusted_base": TRUSTED_BASE + getattr(mod, "TRUSTED_EXTRA", []),
        "theorems": {n: a["audit"].get(n) for n in names},
        "evaluations": ctx.evaluations,
        "distinct_nontrivial": len(ctx.nontrivial),
        "rule": getattr(mod, "RULE", ""),
        "samples": ctx.samples if ctx.samples else [{"theorems": names[:5]}],
        "input_distribution": ctx.dist,
        "driver_ops": ctx.driver.ops,
        "model_impl_disagreements": len(ctx.disagreements),
        "spec_failures": len(ctx.failures),
        "known_findings_reproduced": sorted(listed.keys()),
        "contract_failures": ctx.contract_failures[:20],
        "skipped_near_boundary": ctx.skipped_near_boundary,
        "lean_build_s": a["build_s"],
    }
    coverage.update(ctx.extra)
    ev = {
        "property_id": pid, "tier": tier, "seed": seed, "level": "proof",
        "coverage": coverage,
        "assumptions": getattr(mod, "ASSUMPTIONS", []) + ctx.assumptions,
        "wall_s": round(time.time() - t0, 2),
        "violations": len(unlisted) + (1 if (rc == 1 and not unlisted) else 0),
    }
    if replay_case is None:
        os.makedirs(os.path.join(VERIF, "evidence"), exist_ok=True)
        evdir = "evidence"
        if os.path.realpath(common.REPO) != "/repo":
            # a run against a scratch copy (seeded-change testing) must not overwrite the real evidence
            evdir = "replays"
            ev["repo"] = common.REPO
            os.makedirs(os.path.join(VERIF, evdir), exist_ok=True)
        with open(os.path.join(VERIF, evdir, pid + ("" if evdir == "evidence" else ".scratch-evidence") + ".json"), "w") as f:
            json.dump(ev, f, indent=1, default=jsonable)
    for ln in lines:
        print(ln)
    print("%s %s: theorems=%d/%d evaluations=%d disagreements=%d failures=%d (unlisted %d) wall=%.1fs" % (
        pid, tier, n_ok, n_obl, ctx.evaluations, len(ctx.disagreements), len(ctx.failures), len(unlisted),
        time.time() - t0))
    return rc


if __name__ == "__main__":
    try:
        sys.exit(main())
    except InfraError as e:
        print("INFRA-ERROR: %s" % e, file=sys.stderr)
        sys.exit(2)
    except Exception:
        traceback.print_exc()
        sys.exit(2)
