"""Shapes REACHED THROUGH A HISTORY instead of built directly (lead's helper, shared by all property modules).

Every property speaks about a shape with its CURRENT geometry, however the object got there.  A property module that
only ever examines freshly constructed objects cannot see a value that was cached for an earlier geometry and not
refreshed by a mutator, or a cache that one query fills in a temporary frame and another query reads.  So a fraction
of the cases of each module should be examined on an object that

  1. was constructed as a scaled and shifted copy of the target (scale 0.3..3 about the vertex mean, shift of the
     order of the diameter),
  2. had EVERY public property and the argument-taking queries read once (`warm`: whatever can be cached is now
     cached, for the wrong geometry),
  3. was brought to the target geometry with its own public mutators (a size setter: volume / area / a *_radius
     setter; then the centroid setter; for spheropolytopes the radius setter),

so that its current vertices equal the target's up to a few roundings (relative 1e-15 of size + offset).  Tolerance
based oracles (1e-9 * natural scale) are unaffected by that; decisions need the usual margin; bit-exact comparisons of
vertices must use `obj.vertices`, not the case's vertex list.

    shape = history.via_history(build(case), rng)        # same class, same geometry, reached through mutators
    shape, how = history.maybe_via_history(build(case), rng, p=0.3, ctx=ctx)

The target object itself is used to read the target size / centroid (its getters are what the setters invert).
If anything in the detour raises, the directly built object is returned and `how` says so (the property module
judges the shape it got; the detour is an aid, not an oracle)."""
import inspect
import warnings

import numpy as np

VERTEX_CLASSES = ("ConvexPolyhedron", "Polyhedron", "ConvexSpheropolyhedron", "Polygon", "ConvexPolygon",
                  "ConvexSpheropolygon")
CURVED = {"Circle": ["radius"], "Sphere": ["radius"], "Ellipse": ["a", "b"], "Ellipsoid": ["a", "b", "c"]}

SKIP = {"plot", "to_plato_scene", "save"}


def warm(obj, rng=None):
    """read every public property (random order when rng is given) and the common argument-taking queries once"""
    cls = type(obj)
    names = [n for n, m in inspect.getmembers(cls)
             if not n.startswith("_") and n not in SKIP
             and (isinstance(m, property) or type(m).__name__ == "cached_property")]
    if rng is not None:
        names = [names[i] for i in rng.permutation(len(names))]
    with warnings.catch_warnings():
        warnings.simplefilter("ignore")
        for n in names:
            try:
                getattr(obj, n)
            except Exception:  # noqa: BLE001
                pass
        try:
            c = np.asarray(obj.centroid, dtype=float).ravel()
        except Exception:  # noqa: BLE001  (spheropolytopes have no centroid)
            c = np.asarray(getattr(obj, "vertices", np.zeros((1, 3))), dtype=float).mean(axis=0)
        c3 = np.r_[c, np.zeros(3)][:3]
        calls = [lambda: obj.get_face_area(), lambda: obj.is_inside(np.array([c3, c3 + 1.0])),
                 lambda: obj.compute_form_factor_amplitude(np.array([[0.3, -0.2, 0.5], [0.0, 0.0, 0.0]])),
                 lambda: obj.distance_to_surface(np.array([0.3, 2.0, 4.1])),
                 lambda: obj.get_dihedral(0, int(obj.neighbors[0][0])),
                 lambda: obj.to_hoomd(), lambda: repr(obj)]
        if rng is not None:
            # to_hoomd moves the shape to the origin and back, which refreshes whatever the centroid setter refreshes:
            # it must not always come last (nor always be called), or no cache survives the warming
            if rng.random() < 0.5:
                calls.pop(5)
            calls = [calls[i] for i in rng.permutation(len(calls))]
        for call in calls:
            try:
                call()
            except Exception:  # noqa: BLE001
                pass
        if rng is not None and rng.random() < 0.5:
            # and once more the plain properties, so that the LAST thing before the next mutator is a read
            for n in names[: max(1, len(names) // 2)]:
                try:
                    getattr(obj, n)
                except Exception:  # noqa: BLE001
                    pass


def _clone_with(obj, V, radius=None):
    """same class, vertex array V, same combinatorial arguments"""
    import coxeter
    S = coxeter.shapes
    name = type(obj).__name__
    if name == "ConvexPolyhedron":
        return S.ConvexPolyhedron(V)
    if name == "Polyhedron":
        return S.Polyhedron(V, [np.array(f) for f in obj.faces], faces_are_convex=obj._faces_are_convex)
    if name == "ConvexSpheropolyhedron":
        return S.ConvexSpheropolyhedron(V, obj.radius if radius is None else radius)
    if name == "Polygon":
        return S.Polygon(V, normal=np.array(obj.normal))
    if name == "ConvexPolygon":
        return S.ConvexPolygon(V, normal=np.array(obj.normal))
    if name == "ConvexSpheropolygon":
        return S.ConvexSpheropolygon(V, obj.radius if radius is None else radius, normal=np.array(obj.normal))
    raise ValueError(name)


def via_history(obj, rng):
    """an object of the same class and (up to rounding) the same geometry as `obj`, reached through mutators.
    Returns (object, description).  Never raises: on any problem returns (obj, 'direct:<reason>')."""
    name = type(obj).__name__
    try:
        with warnings.catch_warnings():
            warnings.simplefilter("ignore")
            if name in CURVED:
                attrs = CURVED[name]
                cur = [float(getattr(obj, a)) for a in attrs]
                c = np.array(obj.centroid, dtype=float)
                ax0 = [x * float(np.exp(rng.uniform(-1.2, 1.2))) for x in cur]
                c0 = c + np.r_[rng.uniform(-2, 2, size=2), 0.0 if name in ("Circle", "Ellipse") else rng.uniform(-2, 2)] * max(cur)
                o = type(obj)(*ax0, center=c0)
                warm(o, rng)
                for k in rng.permutation(len(attrs) + 1):
                    if k < len(attrs):
                        setattr(o, attrs[k], cur[k])
                    else:
                        setattr(o, "centroid" if rng.random() < 0.5 else "center", np.array(c))
                return o, "via:axes+centre-setters"
            if name not in VERTEX_CLASSES:
                return obj, "direct:unknown-class"
            V = np.array(obj.vertices, dtype=float)
            m = V.mean(axis=0)
            diam = float(np.max(np.linalg.norm(V - m, axis=1))) * 2 + 1e-300
            sphero = name.startswith("ConvexSphero")
            k = float(np.exp(rng.uniform(-1.2, 1.2)))
            t = rng.normal(size=3) * diam * float(rng.uniform(0.2, 2.0))
            if V.shape[1] == 2:
                t = t[:2]
            if sphero:
                # spheropolytopes have no centre setter, and every _rescale of the library scales about the ORIGIN with
                # the rounding radius scaled along: start from k*V, k*r and let a size setter undo the factor
                V0 = k * V
                r0 = k * float(obj.radius)
            else:
                V0 = m + k * (V - m) + t
                r0 = None
            size_last = (not sphero) and bool(rng.random() < 0.5)
            o = _clone_with(obj, V0, r0)
            warm(o, rng)
            how = []
            if size_last:
                # centroid first, to k times the target's centroid; the size setter (every _rescale of the library scales
                # about the ORIGIN) then lands on the target.  This order leaves whatever the centroid setter refreshes
                # refreshed BEFORE the last rescale, so a cache only the rescale forgets is still stale at the end.
                cattr = "centroid" if (rng.random() < 0.5 or not hasattr(type(obj), "center")) else "center"
                setattr(o, cattr, k * np.array(getattr(obj, cattr), dtype=float))
                how.append(cattr)
                if rng.random() < 0.7:
                    warm(o, rng)          # caches dropped by the first mutator are filled again before the second
                    how.append("warm")
            if not sphero:
                three_d = name in ("ConvexPolyhedron", "Polyhedron")
                setters = (["volume", "surface_area"] if three_d else ["area", "perimeter"])
                # a *_radius setter, when the shape has the ball in question (e.g. a box has a circumsphere)
                for cand in ("minimal_centered_bounding_sphere_radius", "minimal_centered_bounding_circle_radius",
                             "maximal_centered_bounded_sphere_radius", "maximal_centered_bounded_circle_radius"):
                    if hasattr(type(obj), cand):
                        try:
                            float(getattr(obj, cand))
                            setters.append(cand)
                        except Exception:  # noqa: BLE001  (not implemented for this class / no such ball)
                            pass
                sname = setters[int(rng.integers(len(setters)))]
                setattr(o, sname, float(getattr(obj, sname)))
                how.append(sname)
            else:
                three_d = name == "ConvexSpheropolyhedron"
                setters = ["volume", "surface_area", "mean_curvature"] if three_d else ["area", "perimeter"]
                sname = setters[int(rng.integers(len(setters)))]
                setattr(o, sname, float(getattr(obj, sname)))
                o.radius = float(obj.radius)          # the rescale left k*r/k: put the exact radius back
                how += [sname, "radius"]
            if sphero:
                return o, "via:" + "+".join(how)
            if size_last:
                cattr = None
            else:
                if rng.random() < 0.7:
                    warm(o, rng)
                    how.append("warm")
                cattr = "centroid" if (rng.random() < 0.5 or not hasattr(type(obj), "center")) else "center"
            try:
                if cattr is not None:
                    setattr(o, cattr, np.array(getattr(obj, cattr), dtype=float))
                    how.append(cattr)
            except (AttributeError, NotImplementedError):
                # no centre setter (spheropolytopes): the detour is only usable if nothing had to move
                return obj, "direct:no-centre-setter"
            V1 = np.array(o.vertices, dtype=float)
            scale = diam + float(np.linalg.norm(m))
            if V1.shape != V.shape:
                return obj, "direct:shape-mismatch"
            # same labelled vertices?  (ConvexPolygon may reorder; Qhull keeps input labels)  Otherwise as a set.
            if not np.allclose(V1, V, atol=1e-12 * scale, rtol=0):
                d = np.linalg.norm(V1[:, None, :] - V[None, :, :], axis=-1)
                if not (np.all(d.min(axis=1) <= 1e-12 * scale) and np.all(d.min(axis=0) <= 1e-12 * scale)):
                    # the mutators did NOT reproduce the target: that is for C08/C03 to judge, not for this detour
                    return obj, "direct:setters-missed-target"
            return o, "via:" + "+".join(how)
    except Exception as e:  # noqa: BLE001
        return obj, "direct:%s" % type(e).__name__


def rng_for(key):
    """a generator seeded by the content of `key` (array / JSON-able): deterministic per case, so replays agree"""
    import hashlib
    import json
    try:
        blob = np.ascontiguousarray(np.asarray(key, dtype=float)).tobytes()
    except Exception:  # noqa: BLE001
        blob = json.dumps(key, sort_keys=True, default=str).encode()
    return np.random.default_rng(int.from_bytes(hashlib.sha1(blob).digest()[:8], "little"))


def maybe_via_history(obj, rng, p=0.3, ctx=None):
    if rng.random() >= p:
        if ctx is not None:
            ctx.count("reached:direct")
        return obj, "direct"
    o, how = via_history(obj, rng)
    if ctx is not None:
        ctx.count("reached:" + how.split(":")[0] + (":" + how.split(":", 1)[1] if how.startswith("direct") else ""))
    return o, how
