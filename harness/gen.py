"""Input generators shared by all properties. Every random choice comes from the rng passed in."""
import itertools
import json
import os

import numpy as np
from scipy.spatial import ConvexHull

# --------------------------------------------------------------------------- helpers


def random_rotation(rng):
    q = rng.normal(size=4)
    q /= np.linalg.norm(q)
    w, x, y, z = q
    return np.array([
        [1 - 2 * (y * y + z * z), 2 * (x * y - z * w), 2 * (x * z + y * w)],
        [2 * (x * y + z * w), 1 - 2 * (x * x + z * z), 2 * (y * z - x * w)],
        [2 * (x * z - y * w), 2 * (y * z + x * w), 1 - 2 * (x * x + y * y)],
    ])


def diameter(v):
    v = np.asarray(v)
    return float(np.max(np.linalg.norm(v[:, None, :] - v[None, :, :], axis=-1)))


def hull_vertices_only(pts):
    """Keep only the points that are hull vertices with a clear margin (convex position)."""
    pts = np.unique(np.asarray(pts, dtype=float), axis=0)
    h = ConvexHull(pts)
    return pts[np.sort(h.vertices)]


def in_convex_position(pts, margin=1e-7):
    """Every point is a vertex of the hull, at depth > margin*diam outside the hull of the others."""
    pts = np.asarray(pts, dtype=float)
    try:
        h = ConvexHull(pts)
    except Exception:
        return False
    if len(h.vertices) != len(pts):
        return False
    d = diameter(pts)
    for i in range(len(pts)):
        others = np.delete(pts, i, axis=0)
        if len(others) < 4:
            continue
        try:
            ho = ConvexHull(others)
        except Exception:
            return False
        dist = np.max(ho.equations[:, :3] @ pts[i] + ho.equations[:, 3])
        if dist < margin * d:
            return False
    return True


# --------------------------------------------------------------------------- convex solids


def ngon(n, r=1.0, phase=0.0):
    t = phase + 2 * np.pi * np.arange(n) / n
    return np.stack([r * np.cos(t), r * np.sin(t)], axis=1)


def convex_base(rng, kind=None):
    """A vertex set in convex position near the origin with O(1) size. Returns (kind, verts)."""
    kinds = ["ellipsoid", "lattice", "prism", "antiprism", "pyramid", "dipyramid", "box", "zonotope",
             "needle", "plate", "simplex"]
    kind = kind or kinds[int(rng.integers(len(kinds)))]
    if kind == "ellipsoid":
        n = int(rng.integers(4, 61))
        p = rng.normal(size=(n, 3))
        p /= np.linalg.norm(p, axis=1)[:, None]
        ax = np.exp(rng.uniform(0, np.log(20), size=3) * rng.integers(0, 2, size=3))
        v = p * ax / ax.max()
    elif kind == "simplex":
        v = rng.normal(size=(4, 3))
    elif kind == "lattice":
        # integer lattice polytope with many exactly coplanar facets
        k = int(rng.integers(2, 4))
        grid = np.array(list(itertools.product(range(-k, k + 1), repeat=3)), dtype=float)
        w = rng.integers(1, 4, size=3)
        lim = rng.integers(2 * k, 4 * k + 2)
        keep = np.abs(grid) @ w <= lim
        keep &= np.max(np.abs(grid), axis=1) <= k
        v = hull_vertices_only(grid[keep])
    elif kind == "box":
        e = np.exp(rng.uniform(-1, 1, size=3))
        v = np.array(list(itertools.product([-1, 1], repeat=3)), dtype=float) * e
    elif kind == "zonotope":
        g = rng.integers(-3, 4, size=(int(rng.integers(3, 6)), 3)).astype(float)
        g = g[np.any(g != 0, axis=1)]
        if len(g) < 3 or np.linalg.matrix_rank(g) < 3:
            g = np.vstack([g, np.eye(3)])
        pts = np.array([np.array(s) @ g for s in itertools.product([-1, 1], repeat=len(g))])
        v = hull_vertices_only(pts)
    elif kind in ("prism", "antiprism", "pyramid", "dipyramid"):
        n = int(rng.integers(3, 13))
        h = float(np.exp(rng.uniform(-1.5, 1.5)))
        base = ngon(n)
        if kind == "prism":
            v = np.vstack([np.c_[base, -h * np.ones(n)], np.c_[base, h * np.ones(n)]])
        elif kind == "antiprism":
            v = np.vstack([np.c_[base, -h * np.ones(n)], np.c_[ngon(n, phase=np.pi / n), h * np.ones(n)]])
        elif kind == "pyramid":
            v = np.vstack([np.c_[base, np.zeros(n)], [[0, 0, h]]])
        else:
            v = np.vstack([np.c_[base, np.zeros(n)], [[0, 0, h]], [[0, 0, -h * float(np.exp(rng.uniform(-0.5, 0.5)))]]])
    elif kind == "needle":
        _, v = convex_base(rng, ["ellipsoid", "box", "prism"][int(rng.integers(3))])
        v = v * np.array([1.0, 1.0, float(rng.uniform(10, 40))])
    elif kind == "plate":
        _, v = convex_base(rng, ["ellipsoid", "box", "prism"][int(rng.integers(3))])
        v = v * np.array([1.0, 1.0, 1.0 / float(rng.uniform(10, 40))])
    else:
        raise ValueError(kind)
    return kind, np.asarray(v, dtype=float)


def place(rng, v, rotate=None, offset_diams=None, scale=None, permute=True):
    """Random rigid motion, offset up to 10 diameters, optional scale and vertex permutation."""
    v = np.asarray(v, dtype=float)
    info = {}
    if scale is None:
        scale = 1.0 if rng.random() < 0.6 else float(10 ** rng.uniform(-3, 3))
    v = v * scale
    info["scale"] = scale
    if rotate is None:
        rotate = rng.random() < 0.6
    if rotate:
        v = v @ random_rotation(rng).T
    info["rotated"] = bool(rotate)
    d = diameter(v)
    if offset_diams is None:
        offset_diams = 0.0 if rng.random() < 0.3 else float(rng.uniform(0, 10))
    direction = rng.normal(size=3)
    direction /= np.linalg.norm(direction)
    v = v + direction * offset_diams * d
    info["offset_diams"] = offset_diams
    if permute:
        v = v[rng.permutation(len(v))]
    return v, info


def convex_solid(rng, kind=None, **kw):
    for _ in range(50):
        try:
            kind_, v = convex_base(rng, kind)
        except Exception:
            continue
        if len(v) < 4:
            continue
        v, info = place(rng, v, **kw)
        if in_convex_position(v):
            info["kind"] = kind_
            info["n"] = len(v)
            return v, info
    raise RuntimeError("could not generate a convex solid")


def cone_tets(v):
    """Tetrahedralisation of conv(v): cone from the vertex mean over the (outward oriented)
    triangles of an independently computed hull. Returns list of (4,3) arrays, positively oriented."""
    v = np.asarray(v, dtype=float)
    h = ConvexHull(v)
    apex = v.mean(axis=0)
    tets = []
    tris = []
    for simp, eq in zip(h.simplices, h.equations):
        a, b, c = v[simp]
        if np.dot(np.cross(b - a, c - a), eq[:3]) < 0:
            b, c = c, b
        tets.append(np.array([apex, a, b, c]))
        tris.append(np.array([a, b, c]))
    return tets, tris, h


def tabulated_solids():
    """(family, name, vertices) for every entry of the JSON tables in /repo (read directly)."""
    from common import REPO
    base = os.path.join(REPO, "coxeter", "families", "data")
    out = []
    for fn in ["platonic", "archimedean", "catalan", "johnson", "prism_antiprism", "pyramid_dipyramid"]:
        data = json.load(open(os.path.join(base, fn + ".json")))
        for name, rec in data.items():
            out.append((fn, name, np.array(rec["vertices"], dtype=float)))
    return out
