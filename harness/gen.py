"""Input generators shared by all properties. Every random choice comes from the rng passed in."""
import itertools
import json
import os

import numpy as np
from scipy.spatial import ConvexHull

# --------------------------------------------------------------------------- helpers


def random_rotation(rng):
    q = rng.normal(size=4)
    q /= np.linalg.norm(q)
    w, x, y, z = q
    return np.array([
        [1 - 2 * (y * y + z * z), 2 * (x * y - z * w), 2 * (x * z + y * w)],
        [2 * (x * y + z * w), 1 - 2 * (x * x + z * z), 2 * (y * z - x * w)],
        [2 * (x * z - y * w), 2 * (y * z + x * w), 1 - 2 * (x * x + y * y)],
    ])


def diameter(v):
    v = np.asarray(v)
    return float(np.max(np.linalg.norm(v[:, None, :] - v[None, :, :], axis=-1)))


def hull_vertices_only(pts):
    """Keep only the points that are hull vertices with a clear margin (convex position)."""
    pts = np.unique(np.asarray(pts, dtype=float), axis=0)
    h = ConvexHull(pts)
    return pts[np.sort(h.vertices)]


def in_convex_position(pts, margin=1e-7):
    """Every point is a vertex of the hull, at depth > margin*diam outside the hull of the others."""
    pts = np.asarray(pts, dtype=float)
    try:
        h = ConvexHull(pts)
    except Exception:
        return False
    if len(h.vertices) != len(pts):
        return False
    d = diameter(pts)
    for i in range(len(pts)):
        others = np.delete(pts, i, axis=0)
        if len(others) < 4:
            continue
        try:
            ho = ConvexHull(others)
        except Exception:
            return False
        dist = np.max(ho.equations[:, :3] @ pts[i] + ho.equations[:, 3])
        if dist < margin * d:
            return False
    return True


# --------------------------------------------------------------------------- convex solids


def ngon(n, r=1.0, phase=0.0):
    t = phase + 2 * np.pi * np.arange(n) / n
    return np.stack([r * np.cos(t), r * np.sin(t)], axis=1)


def convex_base(rng, kind=None):
    """A vertex set in convex position near the origin with O(1) size. Returns (kind, verts)."""
    kinds = ["ellipsoid", "lattice", "prism", "antiprism", "pyramid", "dipyramid", "box", "zonotope",
             "needle", "plate", "simplex"]
    kind = kind or kinds[int(rng.integers(len(kinds)))]
    if kind == "ellipsoid":
        n = int(rng.integers(4, 61))
        p = rng.normal(size=(n, 3))
        p /= np.linalg.norm(p, axis=1)[:, None]
        ax = np.exp(rng.uniform(0, np.log(20), size=3) * rng.integers(0, 2, size=3))
        v = p * ax / ax.max()
    elif kind == "simplex":
        v = rng.normal(size=(4, 3))
    elif kind == "lattice":
        # integer lattice polytope with many exactly coplanar facets
        k = int(rng.integers(2, 4))
        grid = np.array(list(itertools.product(range(-k, k + 1), repeat=3)), dtype=float)
        w = rng.integers(1, 4, size=3)
        lim = rng.integers(2 * k, 4 * k + 2)
        keep = np.abs(grid) @ w <= lim
        keep &= np.max(np.abs(grid), axis=1) <= k
        v = hull_vertices_only(grid[keep])
    elif kind == "box":
        e = np.exp(rng.uniform(-1, 1, size=3))
        v = np.array(list(itertools.product([-1, 1], repeat=3)), dtype=float) * e
    elif kind == "zonotope":
        g = rng.integers(-3, 4, size=(int(rng.integers(3, 6)), 3)).astype(float)
        g = g[np.any(g != 0, axis=1)]
        if len(g) < 3 or np.linalg.matrix_rank(g) < 3:
            g = np.vstack([g, np.eye(3)])
        pts = np.array([np.array(s) @ g for s in itertools.product([-1, 1], repeat=len(g))])
        v = hull_vertices_only(pts)
    elif kind in ("prism", "antiprism", "pyramid", "dipyramid"):
        n = int(rng.integers(3, 13))
        h = float(np.exp(rng.uniform(-1.5, 1.5)))
        base = ngon(n)
        if kind == "prism":
            v = np.vstack([np.c_[base, -h * np.ones(n)], np.c_[base, h * np.ones(n)]])
        elif kind == "antiprism":
            v = np.vstack([np.c_[base, -h * np.ones(n)], np.c_[ngon(n, phase=np.pi / n), h * np.ones(n)]])
        elif kind == "pyramid":
            v = np.vstack([np.c_[base, np.zeros(n)], [[0, 0, h]]])
        else:
            v = np.vstack([np.c_[base, np.zeros(n)], [[0, 0, h]], [[0, 0, -h * float(np.exp(rng.uniform(-0.5, 0.5)))]]])
    elif kind == "needle":
        _, v = convex_base(rng, ["ellipsoid", "box", "prism"][int(rng.integers(3))])
        v = v * np.array([1.0, 1.0, float(rng.uniform(10, 40))])
    elif kind == "plate":
        _, v = convex_base(rng, ["ellipsoid", "box", "prism"][int(rng.integers(3))])
        v = v * np.array([1.0, 1.0, 1.0 / float(rng.uniform(10, 40))])
    else:
        raise ValueError(kind)
    return kind, np.asarray(v, dtype=float)


def place(rng, v, rotate=None, offset_diams=None, scale=None, permute=True):
    """Random rigid motion, offset up to 10 diameters, optional scale and vertex permutation."""
    v = np.asarray(v, dtype=float)
    info = {}
    if scale is None:
        scale = 1.0 if rng.random() < 0.6 else float(10 ** rng.uniform(-3, 3))
    v = v * scale
    info["scale"] = scale
    if rotate is None:
        rotate = rng.random() < 0.6
    if rotate:
        v = v @ random_rotation(rng).T
    info["rotated"] = bool(rotate)
    d = diameter(v)
    if offset_diams is None:
        offset_diams = 0.0 if rng.random() < 0.3 else float(rng.uniform(0, 10))
    direction = rng.normal(size=3)
    direction /= np.linalg.norm(direction)
    v = v + direction * offset_diams * d
    info["offset_diams"] = offset_diams
    if permute:
        v = v[rng.permutation(len(v))]
    return v, info


def convex_solid(rng, kind=None, **kw):
    for _ in range(50):
        try:
            kind_, v = convex_base(rng, kind)
        except Exception:
            continue
        if len(v) < 4:
            continue
        v, info = place(rng, v, **kw)
        if in_convex_position(v):
            info["kind"] = kind_
            info["n"] = len(v)
            return v, info
    raise RuntimeError("could not generate a convex solid")


def cone_tets(v):
    """Tetrahedralisation of conv(v): cone from the vertex mean over the (outward oriented)
    triangles of an independently computed hull. Returns list of (4,3) arrays, positively oriented."""
    v = np.asarray(v, dtype=float)
    h = ConvexHull(v)
    apex = v.mean(axis=0)
    tets = []
    tris = []
    for simp, eq in zip(h.simplices, h.equations):
        a, b, c = v[simp]
        if np.dot(np.cross(b - a, c - a), eq[:3]) < 0:
            b, c = c, b
        tets.append(np.array([apex, a, b, c]))
        tris.append(np.array([a, b, c]))
    return tets, tris, h


def tabulated_solids():
    """(family, name, vertices) for every entry of the JSON tables in /repo (read directly)."""
    from common import REPO
    base = os.path.join(REPO, "coxeter", "families", "data")
    out = []
    for fn in ["platonic", "archimedean", "catalan", "johnson", "prism_antiprism", "pyramid_dipyramid"]:
        data = json.load(open(os.path.join(base, fn + ".json")))
        for name, rec in data.items():
            out.append((fn, name, np.array(rec["vertices"], dtype=float)))
    return out


# --------------------------------------------------------------------------- simple polygons (lead: C04/C02/C09)


def _frac(x):
    from fractions import Fraction
    return Fraction(x)


def ear_clip_exact(pts):
    """Exact (Fraction) ear clipping of a simple polygon given as a list of (x, y) floats/ints.
    Returns index triples (counter-clockwise triangles if the polygon is ccw, clockwise otherwise),
    or None if the polygon is not simple / degenerate."""
    from fractions import Fraction
    P = [(Fraction(x), Fraction(y)) for x, y in pts]
    n = len(P)
    idx = list(range(n))

    def cross(o, a, b):
        return (a[0] - o[0]) * (b[1] - o[1]) - (a[1] - o[1]) * (b[0] - o[0])

    area2 = sum(P[i][0] * P[(i + 1) % n][1] - P[(i + 1) % n][0] * P[i][1] for i in range(n))
    if area2 == 0:
        return None
    sgn = 1 if area2 > 0 else -1
    tris = []
    guard = 0
    while len(idx) > 3:
        guard += 1
        if guard > 10 * n * n:
            return None
        m = len(idx)
        for k in range(m):
            i0, i1, i2 = idx[(k - 1) % m], idx[k], idx[(k + 1) % m]
            a, b, c = P[i0], P[i1], P[i2]
            if sgn * cross(a, b, c) <= 0:
                continue
            ok = True
            for j in idx:
                if j in (i0, i1, i2):
                    continue
                p = P[j]
                d1 = sgn * cross(a, b, p)
                d2 = sgn * cross(b, c, p)
                d3 = sgn * cross(c, a, p)
                if d1 >= 0 and d2 >= 0 and d3 >= 0:
                    ok = False
                    break
            if ok:
                tris.append((i0, i1, i2))
                del idx[k]
                break
        else:
            return None
    tris.append(tuple(idx))
    return tris


def _segments_cross_exact(p1, p2, p3, p4):
    from fractions import Fraction

    def orient(a, b, c):
        v = (b[0] - a[0]) * (c[1] - a[1]) - (b[1] - a[1]) * (c[0] - a[0])
        return (v > 0) - (v < 0)

    def on(a, b, c):
        return min(a[0], b[0]) <= c[0] <= max(a[0], b[0]) and min(a[1], b[1]) <= c[1] <= max(a[1], b[1])

    o1, o2, o3, o4 = orient(p1, p2, p3), orient(p1, p2, p4), orient(p3, p4, p1), orient(p3, p4, p2)
    if o1 != o2 and o3 != o4:
        return True
    if o1 == 0 and on(p1, p2, p3):
        return True
    if o2 == 0 and on(p1, p2, p4):
        return True
    if o3 == 0 and on(p3, p4, p1):
        return True
    if o4 == 0 and on(p3, p4, p2):
        return True
    return False


def is_simple_exact(pts):
    from fractions import Fraction
    P = [(Fraction(x), Fraction(y)) for x, y in pts]
    n = len(P)
    if len(set(P)) != n:
        return False
    for i in range(n):
        for j in range(i + 1, n):
            if j == i + 1 or (i == 0 and j == n - 1):
                # adjacent: may only share the common vertex
                a, b = P[i], P[(i + 1) % n]
                c, d = P[j], P[(j + 1) % n]
                shared = b if j == i + 1 else a
                other1 = a if j == i + 1 else b
                other2 = d if j == i + 1 else c
                # collinear overlap?
                v = (other1[0] - shared[0]) * (other2[1] - shared[1]) - (other1[1] - shared[1]) * (other2[0] - shared[0])
                dot = (other1[0] - shared[0]) * (other2[0] - shared[0]) + (other1[1] - shared[1]) * (other2[1] - shared[1])
                if v == 0 and dot > 0:
                    return False
                continue
            if _segments_cross_exact(P[i], P[(i + 1) % n], P[j], P[(j + 1) % n]):
                return False
    return True


def polygon2d(rng, kind=None):
    """A simple polygon in 2-D (counter-clockwise), O(1) size, coordinates on a 1/64 grid so that
    exact rational answers exist. Returns (kind, (n,2) array)."""
    kinds = ["star", "comb", "spiral", "lattice", "convex", "rect", "triangle", "reflex_first"]
    kind = kind or kinds[int(rng.integers(len(kinds)))]
    for _ in range(200):
        if kind in ("star", "reflex_first"):
            n = int(rng.integers(4, 41))
            t = np.sort(rng.uniform(0, 2 * np.pi, size=n))
            if np.min(np.diff(np.r_[t, t[0] + 2 * np.pi])) < 0.02:
                continue
            r = rng.uniform(0.3, 1.0, size=n)
            p = np.c_[r * np.cos(t), r * np.sin(t)]
            if kind == "reflex_first":
                # make vertex 1 a reflex corner (the normal is computed from vertices 0,1,2)
                p[1] = 0.15 * p[1] / np.linalg.norm(p[1])
        elif kind == "convex":
            n = int(rng.integers(3, 31))
            t = np.sort(rng.uniform(0, 2 * np.pi, size=n))
            if np.min(np.diff(np.r_[t, t[0] + 2 * np.pi])) < 0.05:
                continue
            ax = float(np.exp(rng.uniform(-1, 1)))
            p = np.c_[ax * np.cos(t), np.sin(t) / ax]
        elif kind == "triangle":
            p = rng.uniform(-1, 1, size=(3, 2))
        elif kind == "rect":
            w, h = np.exp(rng.uniform(-1, 1, size=2))
            p = np.array([[0, 0], [w, 0], [w, h], [0, h]], dtype=float)
        elif kind == "lattice":
            n = int(rng.integers(4, 13))
            t = np.sort(rng.uniform(0, 2 * np.pi, size=n))
            r = rng.uniform(2, 6, size=n)
            p = np.round(np.c_[r * np.cos(t), r * np.sin(t)])
        elif kind == "comb":
            teeth = int(rng.integers(2, 9))
            w = 1.0
            g = float(rng.uniform(0.2, 0.8))
            hs = rng.uniform(0.5, 2.0, size=teeth)
            pts = [(0.0, 0.0)]
            x = 0.0
            pts = [(teeth * (w + g) - g, -0.5), ]
            pts = [(0.0, -0.5), (teeth * (w + g) - g, -0.5)]
            # go back along the top from right to left
            top = []
            for k in range(teeth):
                x0 = k * (w + g)
                top += [(x0, 0.0), (x0, hs[k]), (x0 + w, hs[k]), (x0 + w, 0.0)]
            top = top[::-1]
            pts += top
            p = np.array(pts, dtype=float)
        elif kind == "spiral":
            turns = int(rng.integers(1, 4))
            m = 6 * turns + int(rng.integers(2, 6))
            th = np.linspace(0.0, 2 * np.pi * turns, m)
            r_out = 0.2 + 0.25 * th / (2 * np.pi) + 0.11
            r_in = 0.2 + 0.25 * th / (2 * np.pi)
            outer = np.c_[r_out * np.cos(th), r_out * np.sin(th)]
            inner = np.c_[r_in * np.cos(th), r_in * np.sin(th)][::-1]
            p = np.vstack([outer, inner])
        else:
            raise ValueError(kind)
        if kind != "lattice":
            p = np.round(p * 64) / 64
        if len(p) > 40 or len(p) < 3:
            continue
        if len(np.unique(p, axis=0)) != len(p):
            continue
        if not is_simple_exact(p.tolist()):
            continue
        a2 = float(np.sum(p[:, 0] * np.roll(p[:, 1], -1) - np.roll(p[:, 0], -1) * p[:, 1]))
        if abs(a2) < 1e-3:
            continue
        if a2 < 0:
            p = p[::-1].copy()
        if kind in ("convex", "rect", "triangle"):
            # strictly convex with a margin (every corner turns left by a clear amount)
            e1 = np.roll(p, -1, axis=0) - p
            e2 = np.roll(p, -2, axis=0) - np.roll(p, -1, axis=0)
            turn = e1[:, 0] * e2[:, 1] - e1[:, 1] * e2[:, 0]
            if np.min(turn / (np.linalg.norm(e1, axis=1) * np.linalg.norm(e2, axis=1))) < 1e-2:
                continue
        # no three consecutive collinear vertices at vertex 0,1,2 (normal from the first corner)
        c = (p[2, 0] - p[1, 0]) * (p[0, 1] - p[1, 1]) - (p[2, 1] - p[1, 1]) * (p[0, 0] - p[1, 0])
        if abs(c) < 1e-6:
            continue
        return kind, p
    raise RuntimeError("could not generate polygon of kind %s" % kind)


def near_axis_rotation(rng):
    """A proper rotation that is ALMOST, but not exactly, a symmetry of the coordinate axes: a tilt by an angle
    log-uniform in [1e-7, 3e-2] rad (6e-6 .. 1.7 degrees) about a random axis, composed half of the time with a flip
    (normal near -z) and a quarter turn about z.  Near-flat planes are where `isclose`-style shortcuts and
    ill-conditioned frame constructions show."""
    ang = float(np.exp(rng.uniform(np.log(1e-7), np.log(3e-2))))
    ax = rng.normal(size=3)
    ax[2] *= 0.1
    ax /= np.linalg.norm(ax)
    K = np.array([[0, -ax[2], ax[1]], [ax[2], 0, -ax[0]], [-ax[1], ax[0], 0]])
    R = np.eye(3) + np.sin(ang) * K + (1 - np.cos(ang)) * (K @ K)
    if rng.random() < 0.5:
        R = R @ np.diag([1.0, -1.0, -1.0])
    if rng.random() < 0.5:
        R = R @ np.array([[0.0, -1.0, 0.0], [1.0, 0.0, 0.0], [0.0, 0.0, 1.0]])
    return R


def embed_polygon(rng, p2, plane="random", offset_diams=None, scale=1.0):
    """Embed a 2-D polygon in 3-space. Returns (verts3 (n,3), frame dict with origin o, u, w, n)."""
    p2 = np.asarray(p2, dtype=float) * scale
    if plane == "xy":
        Rm = np.eye(3)
    elif plane == "neartilt":
        Rm = near_axis_rotation(rng)
    else:
        Rm = random_rotation(rng)
    u, w, n = Rm[:, 0], Rm[:, 1], Rm[:, 2]
    d = float(np.max(np.linalg.norm(p2[:, None] - p2[None], axis=-1)))
    if offset_diams is None:
        offset_diams = 0.0 if rng.random() < 0.3 else float(rng.uniform(0, 10))
    if plane == "xy":
        direction = np.array([rng.normal(), rng.normal(), 0.0])
    else:
        direction = rng.normal(size=3)
    direction /= np.linalg.norm(direction)
    o = direction * offset_diams * d
    if plane == "xy":
        o = np.round(o * 64) / 64
    v = o[None, :] + p2[:, :1] * u[None, :] + p2[:, 1:2] * w[None, :]
    return v, {"o": o, "u": u, "w": w, "n": n, "offset_diams": offset_diams, "plane": plane}


# --------------------------------------------------------------------------- C15 (constructors)
# Everything below is used by harness/c15.py only. Exact classification is done on the 2-D generating
# coordinates with integer arithmetic (doubles are dyadic rationals), margins in floating point.


def c15_int_coords(pts):
    """Exact integer coordinates of float points (common power-of-two scaling)."""
    from fractions import Fraction
    fr = [[Fraction(float(c)) for c in p] for p in pts]
    den = max(c.denominator for p in fr for c in p)
    return [[int(c * den) for c in p] for p in fr]


def c15_orient(a, b, c):
    return (b[0] - a[0]) * (c[1] - a[1]) - (b[1] - a[1]) * (c[0] - a[0])


def c15_on_seg(a, b, p):
    """p lies on the closed segment ab (exact when the coordinates are ints/Fractions)."""
    return (c15_orient(a, b, p) == 0 and min(a[0], b[0]) <= p[0] <= max(a[0], b[0])
            and min(a[1], b[1]) <= p[1] <= max(a[1], b[1]))


def c15_seg_meet(a, b, c, d):
    """closed segments ab and cd have a common point"""
    o1, o2 = c15_orient(a, b, c), c15_orient(a, b, d)
    o3, o4 = c15_orient(c, d, a), c15_orient(c, d, b)
    if ((o1 > 0 and o2 < 0) or (o1 < 0 and o2 > 0)) and ((o3 > 0 and o4 < 0) or (o3 < 0 and o4 > 0)):
        return True
    return c15_on_seg(a, b, c) or c15_on_seg(a, b, d) or c15_on_seg(c, d, a) or c15_on_seg(c, d, b)


def c15_exact_simple(pts2):
    """Index based definition: distinct vertices, no two non-adjacent edges of the closed cycle meet,
    adjacent edges meet only in their shared vertex. Exact (integer arithmetic)."""
    P = c15_int_coords(pts2)
    n = len(P)
    if n < 3 or len(set(map(tuple, P))) != n:
        return False
    for i in range(n):
        a, b = P[i], P[(i + 1) % n]
        for j in range(i + 1, n):
            c, d = P[j], P[(j + 1) % n]
            if j == i + 1:            # share b == c : path a -> b -> d
                if c15_on_seg(a, b, d) or c15_on_seg(b, d, a):
                    return False
            elif i == 0 and j == n - 1:  # share d == a : path c -> a -> b
                if c15_on_seg(c, a, b) or c15_on_seg(a, b, c):
                    return False
            elif c15_seg_meet(a, b, c, d):
                return False
    return True


def _c15_seg_seg_dist(a, b, c, d):
    """float distance between two disjoint 2-D segments (min of the four point-segment distances)"""
    def pd(p, u, v):
        w = v - u
        t = np.clip(np.dot(p - u, w) / np.dot(w, w), 0.0, 1.0)
        return float(np.linalg.norm(p - (u + t * w)))
    return min(pd(a, c, d), pd(b, c, d), pd(c, a, b), pd(d, a, b))


def c15_corner_sines(p):
    """|sin| of the corner angle at every vertex i (between p[i-1]-p[i] and p[i+1]-p[i])"""
    p = np.asarray(p, dtype=float)
    a = np.roll(p, 1, axis=0) - p
    b = np.roll(p, -1, axis=0) - p
    cr = a[:, 0] * b[:, 1] - a[:, 1] * b[:, 0]
    return np.abs(cr) / (np.linalg.norm(a, axis=1) * np.linalg.norm(b, axis=1))


def c15_simple_margin(p):
    """margin (relative to the diameter) by which a simple polygon stays simple: minimum over the distance of
    non-adjacent edges / diameter and the corner sines."""
    p = np.asarray(p, dtype=float)
    n = len(p)
    diam = float(np.max(np.linalg.norm(p[:, None, :] - p[None, :, :], axis=-1)))
    m = float(np.min(c15_corner_sines(p)))
    for i in range(n):
        for j in range(i + 1, n):
            if j == i + 1 or (i == 0 and j == n - 1):
                continue
            m = min(m, _c15_seg_seg_dist(p[i], p[(i + 1) % n], p[j], p[(j + 1) % n]) / diam)
    return m


def c15_crossing_margin(p):
    """largest margin of a proper crossing of two non-adjacent edges: min(distance of the crossing point to the
    four end points / diameter, |sin| of the angle between the edges); 0 if no proper crossing."""
    p = np.asarray(p, dtype=float)
    n = len(p)
    diam = float(np.max(np.linalg.norm(p[:, None, :] - p[None, :, :], axis=-1)))
    best = 0.0
    for i in range(n):
        a, b = p[i], p[(i + 1) % n]
        for j in range(i + 1, n):
            if j == i + 1 or (i == 0 and j == n - 1):
                continue
            c, d = p[j], p[(j + 1) % n]
            u, w = b - a, d - c
            den = u[0] * w[1] - u[1] * w[0]
            if den == 0:
                continue
            s = ((c[0] - a[0]) * w[1] - (c[1] - a[1]) * w[0]) / den
            t = ((c[0] - a[0]) * u[1] - (c[1] - a[1]) * u[0]) / den
            if not (0 < s < 1 and 0 < t < 1):
                continue
            x = a + s * u
            m = min(min(np.linalg.norm(x - q) for q in (a, b, c, d)) / diam,
                    abs(den) / (np.linalg.norm(u) * np.linalg.norm(w)))
            best = max(best, float(m))
    return best


def c15_simple_base(rng, kind=None, n=None):
    """2-D simple polygon (counter-clockwise), 3..40 vertices, O(1) size. Returns (kind, (n,2) array)."""
    kinds = ["star", "comb", "spiral", "ngon", "convex", "zigzag"]
    kind = kind or kinds[int(rng.integers(len(kinds)))]
    if kind == "star":
        n = n or int(rng.integers(3, 41))
        t = 2 * np.pi * (np.arange(n) + 0.8 * rng.random(n)) / n + rng.uniform(0, 2 * np.pi)
        r = rng.uniform(0.35, 1.0, size=n)
        p = np.stack([r * np.cos(t), r * np.sin(t)], axis=1)
    elif kind == "ngon":
        n = n or int(rng.integers(3, 41))
        p = ngon(n, phase=rng.uniform(0, 2 * np.pi))
    elif kind == "convex":
        n = n or int(rng.integers(3, 41))
        t = np.sort(rng.uniform(0, 2 * np.pi, size=n))
        ax = np.array([1.0, float(np.exp(rng.uniform(-1.5, 0)))])
        p = np.stack([np.cos(t), np.sin(t)], axis=1) * ax
    elif kind == "comb":
        k = int(rng.integers(1, 38)) if n is None else max(1, n - 3)
        x = np.cumsum(rng.uniform(0.5, 1.5, size=k + 1))
        hi = rng.uniform(0.6, 1.0, size=k + 1) * k ** 0.5
        lo = rng.uniform(0.1, 0.3, size=k + 1) * k ** 0.5
        y = np.where((np.arange(k + 1) + int(rng.integers(2))) % 2 == 0, hi, lo)
        b = float(rng.uniform(0.2, 0.5)) * k ** 0.5
        top = np.stack([x, y], axis=1)[::-1]
        p = np.vstack([[[x[0], -b]], [[x[-1], -b]], top])
    elif kind == "zigzag":
        # x-monotone band: upper chain and the same chain shifted down (a thick polyline)
        k = int(rng.integers(2, 21)) if n is None else max(2, n // 2)
        x = np.cumsum(rng.uniform(0.5, 1.5, size=k))
        y = np.cumsum(rng.uniform(-1.0, 1.0, size=k))
        w = float(rng.uniform(0.3, 0.8))
        up = np.stack([x, y + w], axis=1)
        dn = np.stack([x, y - w], axis=1)
        p = np.vstack([dn, up[::-1]])
    elif kind == "spiral":
        m = int(rng.integers(4, 21)) if n is None else max(4, n // 2)
        turns = float(rng.uniform(0.4, max(0.5, min(2.5, (m - 2) / 7.0))))
        th = np.linspace(0, 2 * np.pi * turns, m)
        th = th + np.r_[0, rng.uniform(-0.2, 0.2, size=m - 2) * (th[1] - th[0]), 0]
        g = 0.8 / turns              # radial growth per turn
        r_out = 0.3 + g * th / (2 * np.pi)
        w = float(rng.uniform(0.25, 0.5)) * min(g, 0.3)
        ph = rng.uniform(0, 2 * np.pi)
        outer = np.stack([r_out * np.cos(th + ph), r_out * np.sin(th + ph)], axis=1)
        inner = np.stack([(r_out - w) * np.cos(th + ph), (r_out - w) * np.sin(th + ph)], axis=1)
        p = np.vstack([outer, inner[::-1]])
    else:
        raise ValueError(kind)
    p = np.asarray(p, dtype=float)
    p = p - p.mean(axis=0)
    return kind, p


def c15_simple_polygon(rng, kind=None, margin=1e-3, first_corner=0.05):
    """A clearly simple 2-D polygon: exact oracle says simple, margin (edge separation / corner sines) > `margin`,
    first corner |sin| >= `first_corner` (the constructor derives its normal from it), random orientation and
    random starting vertex. Returns (p2, info)."""
    for _ in range(200):
        kind_, p = c15_simple_base(rng, kind)
        if len(p) < 3 or len(p) > 40:
            continue
        if not c15_exact_simple(p):
            continue
        mg = c15_simple_margin(p)
        if mg <= margin:
            continue
        cw = bool(rng.random() < 0.5)
        if cw:
            p = p[::-1]
        p = np.roll(p, -int(rng.integers(len(p))), axis=0)
        s = c15_corner_sines(p)            # s[1] is the corner (v0, v1, v2)
        good = np.nonzero(s >= first_corner)[0]
        if len(good) == 0:
            continue
        k = int(good[int(rng.integers(len(good)))])
        p = np.roll(p, -(k - 1), axis=0)
        return np.ascontiguousarray(p), {"kind": kind_, "n": len(p), "clockwise": cw, "margin": mg}
    raise RuntimeError("could not generate a simple polygon")


def c15_crossing_polygon(rng, margin=1e-2):
    """A clearly self-intersecting cycle: a simple polygon with two vertices swapped such that two non-adjacent
    edges cross properly with margin; vertices stay distinct. Returns (p2, info)."""
    for _ in range(400):
        p, info = c15_simple_polygon(rng)
        n = len(p)
        if n < 4:
            continue
        for _ in range(20):
            i, j = (int(x) for x in rng.choice(n, size=2, replace=False))
            q = p.copy()
            q[[i, j]] = q[[j, i]]
            if c15_exact_simple(q):
                continue
            mg = c15_crossing_margin(q)
            if mg > margin:
                return q, dict(info, swapped=[i, j], crossing_margin=mg)
    raise RuntimeError("could not generate a crossing polygon")


def c15_embed(rng, p2, mode=None):
    """Embed 2-D points in a plane of R^3. mode: 'xy' (z = 0 exactly), 'xyz0' (z = const exactly),
    'random' (random rotation, offset <= 10 diameters, scale 1e-3..1e3), 'far' (scale 600..1000, offset 8..10).
    Returns (v3, info) with info['n_true'] the unit normal of the generating frame (+z image)."""
    mode = mode or ["xy", "xyz0", "random", "random"][int(rng.integers(4))]
    p2 = np.asarray(p2, dtype=float)
    v = np.c_[p2, np.zeros(len(p2))]
    if mode == "xy":
        return v, {"mode": mode, "n_true": [0.0, 0.0, 1.0], "scale": 1.0}
    if mode == "xyz0":
        v[:, 2] = float(np.round(rng.uniform(-5, 5) * 16) / 16)
        return v, {"mode": mode, "n_true": [0.0, 0.0, 1.0], "scale": 1.0}
    if mode == "far":      # far corner of the quantifier: scale ~1e3, offset 8..10 diameters (coordinates ~1e4)
        scale = float(rng.uniform(600, 1000))
    else:
        scale = 1.0 if rng.random() < 0.6 else float(10 ** rng.uniform(-3, 3))
    R = random_rotation(rng)
    w = (v * scale) @ R.T
    d = diameter(w)
    if mode == "far":
        off = float(rng.uniform(8, 10))
    else:
        off = 0.0 if rng.random() < 0.3 else float(rng.uniform(0, 10))
    direction = rng.normal(size=3)
    direction /= np.linalg.norm(direction)
    w = w + direction * off * d
    return w, {"mode": mode, "n_true": (R @ np.array([0.0, 0.0, 1.0])).tolist(), "scale": scale,
               "offset_diams": off}


def c15_width(v):
    """lower bound on the extent of a 3-D point set in its thinnest direction: sigma_min / sqrt(n)"""
    v = np.asarray(v, dtype=float)
    s = np.linalg.svd(v - v.mean(axis=0), compute_uv=False)
    return float(s[-1] / np.sqrt(len(v)))


def c15_lift(rng, v3, n_true, frac=None):
    """Move one vertex off the plane by > 1 % of the size (frac in [0.011, 0.5] of the diameter)."""
    v = np.array(v3, dtype=float)
    d = diameter(v)
    k = int(rng.integers(len(v)))
    frac = frac or float(np.exp(rng.uniform(np.log(0.011), np.log(0.5))))
    sgn = 1.0 if rng.random() < 0.5 else -1.0
    v[k] = v[k] + sgn * frac * d * np.asarray(n_true)
    return v, {"lifted": k, "frac": sgn * frac}


def c15_convex_polygon(rng, n=None):
    """2-D point set in clear convex position (every point at depth > 1e-3 diam outside the hull of the others,
    checked exactly for being a strict hull vertex), in counter-clockwise order."""
    for _ in range(200):
        kind = ["ngon", "convex"][int(rng.integers(2))]
        _, p = c15_simple_base(rng, kind, n=n)
        if c15_convex_depth(p) > 1e-3:
            return p, {"kind": kind, "n": len(p)}
    raise RuntimeError("could not generate a convex polygon")


def c15_convex_depth(p):
    """for a ccw polygon: min over vertices of the distance of vertex i to the line through its neighbours
    (positive iff strictly convex at i) divided by the diameter."""
    p = np.asarray(p, dtype=float)
    a = np.roll(p, 1, axis=0)
    b = np.roll(p, -1, axis=0)
    e = b - a
    cr = e[:, 0] * (p[:, 1] - a[:, 1]) - e[:, 1] * (p[:, 0] - a[:, 0])
    # for a ccw convex polygon vertex i lies to the RIGHT of a->b, i.e. cr < 0
    dist = -cr / np.linalg.norm(e, axis=1)
    diam = float(np.max(np.linalg.norm(p[:, None, :] - p[None, :, :], axis=-1)))
    return float(np.min(dist) / diam)


def c15_interior_point2(rng, p, depth=1e-3):
    """a point inside the ccw convex polygon p deeper than `depth` diameters (distance to every edge line)."""
    p = np.asarray(p, dtype=float)
    diam = float(np.max(np.linalg.norm(p[:, None, :] - p[None, :, :], axis=-1)))
    for _ in range(200):
        w = rng.dirichlet(np.ones(len(p)) * float(rng.choice([0.3, 1.0, 3.0])))
        x = w @ p
        a, b = p, np.roll(p, -1, axis=0)
        e = b - a
        dist = (e[:, 0] * (x[1] - a[:, 1]) - e[:, 1] * (x[0] - a[:, 0])) / np.linalg.norm(e, axis=1)
        if np.min(dist) > depth * diam and np.min(np.linalg.norm(p - x, axis=1)) > depth * diam:
            return x, float(np.min(dist) / diam)
    raise RuntimeError("no interior point")


def c15_shallow_interior_point2(rng, p, lo=1.5e-3, hi=1e-2):
    """a point inside the ccw convex polygon p whose distance to ONE edge is between lo and hi diameters (so just
    beyond the property's margin) and larger to all others: the case where an absolute tolerance in the convexity test
    shows (accepted at small scales) although the point is interior by a clear relative margin."""
    p = np.asarray(p, dtype=float)
    diam = float(np.max(np.linalg.norm(p[:, None, :] - p[None, :, :], axis=-1)))
    a, b = p, np.roll(p, -1, axis=0)
    e = b - a
    L = np.linalg.norm(e, axis=1)
    for _ in range(200):
        i = int(rng.integers(len(p)))
        t = float(rng.uniform(0.25, 0.75))
        depth = float(np.exp(rng.uniform(np.log(lo), np.log(hi))))
        n_in = np.array([-e[i, 1], e[i, 0]]) / L[i]          # inward normal of a ccw polygon
        x = a[i] + t * e[i] + depth * diam * n_in
        dist = (e[:, 0] * (x[1] - a[:, 1]) - e[:, 1] * (x[0] - a[:, 0])) / L
        if np.min(dist) > 0.99 * depth * diam and np.min(np.linalg.norm(p - x, axis=1)) > lo * diam:
            return x, float(np.min(dist) / diam)
    raise RuntimeError("no shallow interior point")


def c15_shallow_interior_point3(rng, v, lo=1.5e-3, hi=1e-2):
    """a point inside conv(v) between lo and hi diameters below the centroid of one facet triangle."""
    v = np.asarray(v, dtype=float)
    h = ConvexHull(v)
    d = diameter(v)
    for _ in range(200):
        k = int(rng.integers(len(h.simplices)))
        w = rng.dirichlet(np.ones(3) * 3.0)
        depth = float(np.exp(rng.uniform(np.log(lo), np.log(hi))))
        x = w @ v[h.simplices[k]] - depth * d * h.equations[k, :3]
        dist = -(h.equations[:, :3] @ x + h.equations[:, 3])
        if np.min(dist) > 0.99 * depth * d:
            return x, float(np.min(dist) / d)
    raise RuntimeError("no shallow interior point")


def c15_rescale(rng, v, lo=-3.0, hi=3.0):
    """multiply a point set by an extreme scale of the quantifier's range (1e-3 or 1e3, with jitter)"""
    sc = float(10 ** (lo if rng.random() < 0.5 else hi) * rng.uniform(1.0, 2.0) ** (1 if rng.random() < 0.5 else -1))
    sc = min(max(sc, 10 ** lo), 10 ** hi)
    return np.asarray(v, dtype=float) * sc, sc


def c15_interior_point3(rng, v, depth=1e-3):
    """a point inside conv(v) deeper than `depth` diameters (signed distance to every facet plane)."""
    v = np.asarray(v, dtype=float)
    h = ConvexHull(v)
    d = diameter(v)
    for _ in range(200):
        w = rng.dirichlet(np.ones(len(v)) * float(rng.choice([0.3, 1.0, 3.0])))
        x = w @ v
        dist = -(h.equations[:, :3] @ x + h.equations[:, 3])
        if np.min(dist) > depth * d:
            return x, float(np.min(dist) / d)
    raise RuntimeError("no interior point")


# --------------------------------------------------------------------------- C06 (2-D containment)
# Used by harness/c06.py only. Polygons and query points live on an integer grid (coordinate =
# integer * 2**(e-26), exactly representable), so every classification is exact integer arithmetic.

C06_GRID = 26


def c06_orient(a, b, c):
    """Exact orientation determinant of integer points (> 0: c left of a->b)."""
    return (b[0] - a[0]) * (c[1] - a[1]) - (b[1] - a[1]) * (c[0] - a[0])


def c06_on_segment(a, b, p):
    """p on the closed segment [a, b] (integer points)."""
    if c06_orient(a, b, p) != 0:
        return False
    return (a[0] - p[0]) * (b[0] - p[0]) + (a[1] - p[1]) * (b[1] - p[1]) <= 0


def c06_segments_meet(a, b, c, d):
    """closed segments [a,b], [c,d] share a point (integer points)."""
    def sg(v):
        return (v > 0) - (v < 0)
    o1, o2 = sg(c06_orient(a, b, c)), sg(c06_orient(a, b, d))
    o3, o4 = sg(c06_orient(c, d, a)), sg(c06_orient(c, d, b))
    if o1 * o2 < 0 and o3 * o4 < 0:
        return True
    return (c06_on_segment(a, b, c) or c06_on_segment(a, b, d)
            or c06_on_segment(c, d, a) or c06_on_segment(c, d, b))


def c06_is_simple(G):
    """Exact simplicity of the closed polygon G (list of integer pairs): distinct vertices,
    non-adjacent edges disjoint, adjacent edges meet only in their common vertex, no straight corner."""
    n = len(G)
    if n < 3 or len(set(map(tuple, G))) != n:
        return False
    for i in range(n):
        a, b, c = G[i - 1], G[i], G[(i + 1) % n]
        if c06_orient(a, b, c) == 0:
            return False
    for i in range(n):
        a, b = G[i], G[(i + 1) % n]
        for j in range(i + 2, n):
            if i == 0 and j == n - 1:
                continue
            if c06_segments_meet(a, b, G[j], G[(j + 1) % n]):
                return False
    return True


def c06_area2(G):
    n = len(G)
    return sum(G[i][0] * G[(i + 1) % n][1] - G[(i + 1) % n][0] * G[i][1] for i in range(n))


def c06_ear_clip(G):
    """Exact ear clipping of a simple counter-clockwise integer polygon. Returns index triples
    (all counter-clockwise) or None."""
    n = len(G)
    idx = list(range(n))
    tris = []
    while len(idx) > 3:
        m = len(idx)
        for k in range(m):
            i0, i1, i2 = idx[k - 1], idx[k], idx[(k + 1) % m]
            a, b, c = G[i0], G[i1], G[i2]
            if c06_orient(a, b, c) <= 0:
                continue
            ok = True
            for j in idx:
                if j == i0 or j == i1 or j == i2:
                    continue
                p = G[j]
                if c06_orient(a, b, p) >= 0 and c06_orient(b, c, p) >= 0 and c06_orient(c, a, p) >= 0:
                    ok = False
                    break
            if ok:
                tris.append((i0, i1, i2))
                del idx[k]
                break
        else:
            return None
    if c06_orient(G[idx[0]], G[idx[1]], G[idx[2]]) <= 0:
        return None
    tris.append(tuple(idx))
    return tris


def c06_chain_ok(n, tris):
    """The boundary chain of the triangles is the polygon 0->1->...->n-1->0: after cancelling each
    directed edge against its reverse exactly the n polygon edges remain, once each."""
    cnt = {}
    for t in tris:
        for a, b in ((t[0], t[1]), (t[1], t[2]), (t[2], t[0])):
            if cnt.get((b, a), 0) > 0:
                cnt[(b, a)] -= 1
            else:
                cnt[(a, b)] = cnt.get((a, b), 0) + 1
    left = {e: c for e, c in cnt.items() if c}
    return left == {(i, (i + 1) % n): 1 for i in range(n)}


def c06_base_shape(rng, kind):
    """Float (n,2) counter-clockwise outline of O(1) size."""
    if kind == "star":
        n = int(rng.integers(3, 41))
        t = 2 * np.pi * (np.arange(n) + rng.uniform(0, 0.8, size=n)) / n
        r = rng.uniform(0.3, 1.0, size=n)
        return np.c_[r * np.cos(t), r * np.sin(t)]
    if kind == "comb":
        k = int(rng.integers(0, 10))                  # k gaps, k+1 teeth, 4k+4 vertices
        xs = np.cumsum(np.r_[0.0, rng.uniform(0.1, 0.3, size=2 * k + 1)])
        H = rng.uniform(0.5, 1.0, size=k + 1)
        g = rng.uniform(0.1, 0.4, size=k)
        pts = [(xs[0], 0.0), (xs[-1], 0.0)]
        for j in range(k, -1, -1):                    # teeth from right to left along the top
            pts += [(xs[2 * j + 1], H[j]), (xs[2 * j], H[j])]
            if j > 0:
                pts += [(xs[2 * j], g[j - 1]), (xs[2 * j - 1], g[j - 1])]
        return np.array(pts, dtype=float)
    if kind == "spiral":
        m = int(rng.integers(4, 21))
        turns = float(rng.uniform(0.6, 2.5))
        th = np.linspace(0.0, 2 * np.pi * turns, m)
        pitch = 0.3
        w = float(rng.uniform(0.08, 0.2))
        rc = 0.25 + pitch * th / (2 * np.pi)
        outer = np.c_[(rc + w / 2) * np.cos(th), (rc + w / 2) * np.sin(th)]
        inner = np.c_[(rc - w / 2) * np.cos(th), (rc - w / 2) * np.sin(th)][::-1]
        return np.vstack([outer, inner])
    if kind == "convex":
        n = int(rng.integers(3, 41))
        t = 2 * np.pi * (np.arange(n) + rng.uniform(0, 0.6, size=n)) / n
        ax = float(np.exp(rng.uniform(-1, 1)))
        return np.c_[ax * np.cos(t), np.sin(t) / ax]
    if kind.startswith("c04:"):
        _, p = polygon2d(rng, kind[4:])
        return np.asarray(p, dtype=float)
    raise ValueError(kind)


C06_KINDS = ["star", "comb", "spiral", "convex", "c04:star", "c04:comb", "c04:spiral", "c04:lattice",
             "c04:convex", "c04:rect", "c04:triangle", "c04:reflex_first"]


def c06_simple_polygon(rng, kind=None):
    """A simple polygon on the integer grid: dict with
    kind, G (list of [X, Y] python ints, counter-clockwise), e (coordinates are G * 2**(e - 26)),
    tris (index triples of an exact ear clipping, counter-clockwise), turn (in-plane float rotation
    applied before rounding), quarter (number of exact quarter turns), offset."""
    kind = kind or C06_KINDS[int(rng.integers(len(C06_KINDS)))]
    for _ in range(200):
        try:
            S = c06_base_shape(rng, kind)
        except RuntimeError:
            continue
        if not (3 <= len(S) <= 40):
            continue
        turn = 0.0 if rng.random() < 0.5 else float(rng.uniform(0, 2 * np.pi))
        if turn:
            cs, sn = np.cos(turn), np.sin(turn)
            S = S @ np.array([[cs, sn], [-sn, cs]])
        G = [[int(v) for v in row] for row in np.rint(S * 2.0 ** C06_GRID).astype(np.int64).tolist()]
        quarter = int(rng.integers(4))
        for _q in range(quarter):
            G = [[-y, x] for x, y in G]
        if c06_area2(G) < 0:
            G = G[::-1]
        if not c06_is_simple(G):
            continue
        xs = [p[0] for p in G]
        ys = [p[1] for p in G]
        w, h = max(xs) - min(xs), max(ys) - min(ys)
        u = rng.random()
        if u < 0.3:        # straddle the origin: the polygon itself meets all four quadrants
            off = [-(min(xs) + w // 2), -(min(ys) + h // 2)]
        elif u < 0.4:
            off = [0, 0]
        else:              # anywhere within 5 sizes, any quadrant
            s = max(w, h)
            off = [int(rng.integers(-5 * s, 5 * s + 1)), int(rng.integers(-5 * s, 5 * s + 1))]
        G = [[x + off[0], y + off[1]] for x, y in G]
        tris = c06_ear_clip(G)
        if tris is None or not c06_chain_ok(len(G), tris):
            continue
        if sum(c06_orient(G[a], G[b], G[c]) for a, b, c in tris) != c06_area2(G):
            continue
        e = 0 if rng.random() < 0.6 else int(rng.integers(-10, 11))
        return {"kind": kind, "G": G, "e": e, "tris": [list(t) for t in tris], "turn": turn,
                "quarter": quarter, "offset": off}
    raise RuntimeError("c06: could not generate a polygon of kind %s" % kind)


def c06_query_points(rng, poly, n):
    """n query points on the polygon's grid, as [X, Y, class]: uniform in the enlarged bounding box,
    at a controlled distance from an edge / a vertex, sharing x and/or y with vertices, inside a
    triangle of the triangulation."""
    G = poly["G"]
    tris = poly["tris"]
    A = np.array(G, dtype=float)
    lo, hi = A.min(axis=0), A.max(axis=0)
    size = float(np.linalg.norm(hi - lo))
    lo2, hi2 = lo - 0.25 * (hi - lo) - 1, hi + 0.25 * (hi - lo) + 1
    nv = len(G)
    areas = np.array([c06_orient(G[a], G[b], G[c]) for a, b, c in tris], dtype=float)
    areas /= areas.sum()
    out = []
    classes = ["uniform", "near-edge", "near-vertex", "shared-x", "shared-y", "shared-xy", "triangle"]
    for k in range(n):
        cl = classes[k % len(classes)]
        if cl == "uniform":
            p = rng.uniform(lo2, hi2)
        elif cl == "near-edge":
            i = int(rng.integers(nv))
            a, b = A[i], A[(i + 1) % nv]
            t = float(rng.uniform(0.02, 0.98))
            d = b - a
            nrm = np.array([d[1], -d[0]]) / np.linalg.norm(d)
            dist = size * 10 ** float(rng.uniform(-6.5, -1.5)) * (1 if rng.random() < 0.5 else -1)
            p = a + t * d + dist * nrm
        elif cl == "near-vertex":
            i = int(rng.integers(nv))
            ang = float(rng.uniform(0, 2 * np.pi))
            dist = size * 10 ** float(rng.uniform(-6.0, -2.0))
            p = A[i] + dist * np.array([np.cos(ang), np.sin(ang)])
        elif cl == "shared-x":
            p = np.array([A[int(rng.integers(nv)), 0], rng.uniform(lo2[1], hi2[1])])
        elif cl == "shared-y":
            p = np.array([rng.uniform(lo2[0], hi2[0]), A[int(rng.integers(nv)), 1]])
        elif cl == "shared-xy":
            p = np.array([A[int(rng.integers(nv)), 0], A[int(rng.integers(nv)), 1]])
        else:
            a, b, c = tris[int(rng.choice(len(tris), p=areas))]
            wts = rng.dirichlet([1.0, 1.0, 1.0])
            p = wts[0] * A[a] + wts[1] * A[b] + wts[2] * A[c]
        out.append([int(round(float(p[0]))), int(round(float(p[1]))), cl])
    return out


def c06_curved(rng):
    """A circle or an ellipse: dict(shape, a, b, center, center_kind). a<b, a=b, a>b all occur."""
    shape = "circle" if rng.random() < 0.35 else "ellipse"
    a = float(10 ** rng.uniform(-2, 2))
    rel = ["a<b", "a=b", "a>b"][int(rng.integers(3))]
    if shape == "circle" or rel == "a=b":
        b = a
    elif rel == "a<b":
        b = a * float(rng.uniform(1.1, 8))
    else:
        b = a / float(rng.uniform(1.1, 8))
    ck = ["origin", "int", "float", "far"][int(rng.integers(4))]
    m = max(a, b)
    if ck == "origin":
        c = [0, 0, 0]
    elif ck == "int":
        c = [int(v) for v in rng.integers(-5, 6, size=3)]
    elif ck == "float":
        c = [float(v) for v in rng.uniform(-2 * m, 2 * m, size=3)]
    else:
        c = [float(v) for v in rng.uniform(-10 * m, 10 * m, size=3)]
    return {"shape": shape, "a": a, "b": b, "center": c, "center_kind": ck,
            "rel": "a=b" if a == b else ("a<b" if a < b else "a>b")}


def c06_curved_points(rng, sh, n):
    """In-plane query points [x, y, z, class] (z equal to the centre's z): the four corners of the
    bounding box pulled in by 10 % (outside the ellipse, inside the box), uniform in the enlarged box
    (all four quadrants about the centre), at a controlled relative distance from the boundary,
    sharing x or y with the centre."""
    a, b = sh["a"], sh["b"]
    c = [float(v) for v in sh["center"]]
    m = max(a, b)
    out = []
    for sx in (1, -1):
        for sy in (1, -1):
            out.append([c[0] + sx * 0.9 * a, c[1] + sy * 0.9 * b, c[2], "corner%+d%+d" % (sx, sy)])
    classes = ["uniform", "near-boundary", "shared-x", "shared-y", "box"]
    for k in range(n):
        cl = classes[k % len(classes)]
        if cl == "uniform":
            d = rng.uniform(-1.5 * m, 1.5 * m, size=2)
        elif cl == "box":
            d = rng.uniform(-1.2, 1.2, size=2) * np.array([a, b])
        elif cl == "near-boundary":
            th = float(rng.uniform(0, 2 * np.pi))
            f = 1 + 10 ** float(rng.uniform(-6.5, -1.5)) * (1 if rng.random() < 0.5 else -1)
            d = f * np.array([a * np.cos(th), b * np.sin(th)])
        elif cl == "shared-x":
            d = np.array([0.0, rng.uniform(-1.5 * b, 1.5 * b)])
        else:
            d = np.array([rng.uniform(-1.5 * a, 1.5 * a), 0.0])
        out.append([c[0] + float(d[0]), c[1] + float(d[1]), c[2], cl])
    return out


# --------------------------------------------------------------------------- C05 (3-D containment)
# Non-convex solids with a known decomposition (voxel solids, extruded polygons), rigid placements
# that are returned as maps (so that query points generated in model coordinates can follow), and
# point generators.  All functions are new (prefix c05_); nothing above is changed.


def c05_signed_perm_rotation(rng):
    """one of the 24 proper rotations that permute the axes (entries 0, +-1: exact in floating point)."""
    while True:
        perm = rng.permutation(3)
        sg = rng.choice([-1.0, 1.0], size=3)
        m = np.zeros((3, 3))
        for i in range(3):
            m[i, perm[i]] = sg[i]
        if np.linalg.det(m) > 0:
            return m


def c05_placement(rng, exact=None):
    """A rigid placement x -> s * R x + t as a dict {R, s, t, exact}.
    exact=True: axis-permuting rotation, power-of-two scale, dyadic offset (model coordinates that are
    small dyadic rationals stay exact, so coordinate ties survive the placement)."""
    if exact is None:
        exact = rng.random() < 0.5
    if exact:
        R = np.eye(3) if rng.random() < 0.4 else c05_signed_perm_rotation(rng)
        s = float(2.0 ** int(rng.integers(-3, 4))) if rng.random() < 0.5 else 1.0
        t = np.zeros(3) if rng.random() < 0.4 else rng.integers(-16, 17, size=3) * 0.25
    else:
        R = random_rotation(rng) if rng.random() < 0.85 else np.eye(3)
        s = 1.0 if rng.random() < 0.5 else float(10 ** rng.uniform(-3, 3))
        t = np.zeros(3) if rng.random() < 0.2 else rng.normal(size=3) * float(rng.uniform(0, 10)) * s
    return {"R": R, "s": s, "t": np.asarray(t, dtype=float), "exact": bool(exact)}


def c05_apply(pl, x):
    x = np.asarray(x, dtype=float)
    return pl["s"] * (x @ pl["R"].T) + pl["t"]


_C05_VOXEL_SHAPES = {
    # name: list of filled cells
    "L": [(0, 0, 0), (1, 0, 0), (2, 0, 0), (0, 1, 0), (0, 2, 0)],
    "U": [(0, 0, 0), (1, 0, 0), (2, 0, 0), (0, 1, 0), (2, 1, 0), (0, 2, 0), (2, 2, 0)],
    "C": [(0, 0, 0), (1, 0, 0), (2, 0, 0), (0, 1, 0), (0, 2, 0), (1, 2, 0), (2, 2, 0)],
    "T": [(0, 2, 0), (1, 2, 0), (2, 2, 0), (1, 1, 0), (1, 0, 0)],
    "plus": [(1, 0, 0), (0, 1, 0), (1, 1, 0), (2, 1, 0), (1, 2, 0)],
    "frame": [(i, j, 0) for i in range(3) for j in range(3) if (i, j) != (1, 1)],
    "frame-thick": [(i, j, k) for i in range(4) for j in range(4) for k in range(2) if not (i in (1, 2) and j in (1, 2))],
    "block222": [(i, j, k) for i in range(2) for j in range(2) for k in range(2)],
    "block322": [(i, j, k) for i in range(3) for j in range(2) for k in range(2)],
    "stairs": [(0, 0, 0), (1, 0, 0), (2, 0, 0), (1, 0, 1), (2, 0, 1), (2, 0, 2)],
    "L3d": [(0, 0, 0), (1, 0, 0), (0, 1, 0), (0, 0, 1)],
    "cup": [(i, j, 0) for i in range(3) for j in range(3)] + [(i, j, 1) for i in range(3) for j in range(3) if (i, j) != (1, 1)],
    "cage": [(i, j, k) for i in range(3) for j in range(3) for k in range(3)
             if sum(1 for a in (i, j, k) if a == 1) < 2],
}


def c05_voxel_boundary(cells):
    """unit squares of the boundary of a set of cells: (verts int (V,3), faces list of 4 indices ccw seen
    from outside), or None if the boundary is not a 2-manifold (edge- or vertex-only contacts)."""
    cells = set(map(tuple, cells))
    quads = []
    # for axis a and side s the face corners ccw seen from outside
    for (i, j, k) in sorted(cells):
        for a in range(3):
            for s in (0, 1):
                nb = [i, j, k]
                nb[a] += 1 if s else -1
                if tuple(nb) in cells:
                    continue
                b, c = (a + 1) % 3, (a + 2) % 3
                base = np.array([i, j, k])
                corners = []
                for (ub, uc) in ((0, 0), (1, 0), (1, 1), (0, 1)):
                    p = base.copy()
                    p[a] += s
                    p[b] += ub
                    p[c] += uc
                    corners.append(tuple(int(x) for x in p))
                if not s:
                    corners = corners[::-1]
                quads.append(corners)
    verts = sorted(set(p for q in quads for p in q))
    index = {p: n for n, p in enumerate(verts)}
    faces = [[index[p] for p in q] for q in quads]
    # manifold: every directed edge once, its reverse once
    edges = {}
    for f in faces:
        for x, y in zip(f, f[1:] + f[:1]):
            edges[(x, y)] = edges.get((x, y), 0) + 1
    for (x, y), n in edges.items():
        if n != 1 or edges.get((y, x), 0) != 1:
            return None
    # every vertex: its faces form one fan (connected through shared edges at the vertex)
    for vi in range(len(verts)):
        inc = [n for n, f in enumerate(faces) if vi in f]
        parent = {n: n for n in inc}

        def find(x):
            while parent[x] != x:
                x = parent[x]
            return x
        for a_ in inc:
            for b_ in inc:
                if a_ < b_:
                    ea = set()
                    fa = faces[a_]
                    for x, y in zip(fa, fa[1:] + fa[:1]):
                        if vi in (x, y):
                            ea.add(frozenset((x, y)))
                    fb = faces[b_]
                    for x, y in zip(fb, fb[1:] + fb[:1]):
                        if vi in (x, y) and frozenset((x, y)) in ea:
                            parent[find(a_)] = find(b_)
        if len(set(find(n) for n in inc)) != 1:
            return None
    return np.array(verts, dtype=float), faces


# Kuhn subdivision of the unit cube into 6 tetrahedra (all share the diagonal 000-111)
_C05_KUHN = [((0, 0, 0), tuple(np.eye(3, dtype=int)[p[0]]), tuple(np.eye(3, dtype=int)[p[0]] + np.eye(3, dtype=int)[p[1]]), (1, 1, 1))
             for p in itertools.permutations(range(3))]


def c05_voxel_solid(rng, kind=None):
    """A voxel solid in model coordinates: dict(kind, cells, spacing, vertices (V,3), faces (unit squares,
    outward ccw), tets (T,4,3) Kuhn tetrahedra of the filled cells, boxes (C,2,3) the filled cells)."""
    names = list(_C05_VOXEL_SHAPES) + ["random"]
    kind = kind or names[int(rng.integers(len(names)))]
    for _ in range(100):
        if kind == "random":
            cells = {(0, 0, 0)}
            target = int(rng.integers(3, 12))
            while len(cells) < target:
                c = list(cells)[int(rng.integers(len(cells)))]
                a = int(rng.integers(3))
                nb = list(c)
                nb[a] += int(rng.choice([-1, 1]))
                cells.add(tuple(nb))
            lo = np.min(np.array(list(cells)), axis=0)
            cells = sorted(tuple(int(x) for x in np.array(c) - lo) for c in cells)
        else:
            cells = list(_C05_VOXEL_SHAPES[kind])
            # random axis relabelling of the template
            perm = rng.permutation(3)
            cells = sorted(tuple(int(c[perm[a]]) for a in range(3)) for c in cells)
        res = c05_voxel_boundary(cells)
        if res is not None:
            break
    else:
        raise RuntimeError("no manifold voxel solid")
    verts, faces = res
    r = rng.random()
    if r < 0.5:
        spacing = np.ones(3)
    elif r < 0.8:
        spacing = 2.0 ** rng.integers(-2, 3, size=3)
    else:
        spacing = np.exp(rng.uniform(-1, 1, size=3))
    tets = []
    for c in cells:
        for kt in _C05_KUHN:
            tets.append([(np.array(c) + np.array(corner)) * spacing for corner in kt])
    boxes = np.array([[np.array(c) * spacing, (np.array(c) + 1) * spacing] for c in cells])
    return {"kind": "voxel:" + kind, "cells": cells, "spacing": spacing, "vertices": verts * spacing,
            "faces": faces, "tets": np.array(tets, dtype=float), "boxes": boxes}


_C05_RECTILINEAR = {
    # ccw outlines on the integer grid with a decomposition into rectangles (x0, y0, x1, y1)
    "L": ([(0, 0), (3, 0), (3, 1), (1, 1), (1, 3), (0, 3)], [(0, 0, 3, 1), (0, 1, 1, 3)]),
    "U": ([(0, 0), (3, 0), (3, 3), (2, 3), (2, 1), (1, 1), (1, 3), (0, 3)], [(0, 0, 3, 1), (0, 1, 1, 3), (2, 1, 3, 3)]),
    "C": ([(0, 0), (3, 0), (3, 1), (1, 1), (1, 2), (3, 2), (3, 3), (0, 3)], [(0, 0, 3, 1), (0, 1, 1, 2), (0, 2, 3, 3)]),
    "T": ([(1, 0), (2, 0), (2, 2), (3, 2), (3, 3), (0, 3), (0, 2), (1, 2)], [(1, 0, 2, 2), (0, 2, 3, 3)]),
    "plus": ([(1, 0), (2, 0), (2, 1), (3, 1), (3, 2), (2, 2), (2, 3), (1, 3), (1, 2), (0, 2), (0, 1), (1, 1)],
             [(1, 0, 2, 3), (0, 1, 1, 2), (2, 1, 3, 2)]),
    "Z": ([(0, 0), (2, 0), (2, 1), (3, 1), (3, 2), (1, 2), (1, 1), (0, 1)], [(0, 0, 2, 1), (1, 1, 3, 2)]),
}


def c05_extruded_polygon(rng, kind=None):
    """A right prism over a simple non-convex polygon, in model coordinates, with merged faces (the two
    polygonal caps and one quadrilateral per side).  dict(kind, poly (n,2) ccw, tris2 (m,3,2) a triangulation
    of the polygon, z0, z1, vertices, faces, tets)."""
    names = list(_C05_RECTILINEAR) + ["star", "star", "zigzag"]
    kind = kind or names[int(rng.integers(len(names)))]
    if kind in _C05_RECTILINEAR:
        outline, rects = _C05_RECTILINEAR[kind]
        sx, sy = (1.0, 1.0) if rng.random() < 0.5 else tuple(2.0 ** rng.integers(-1, 2, size=2))
        poly = np.array(outline, dtype=float) * [sx, sy]
        # unit cells with one diagonal direction: a proper (face-to-face) triangulation, no T-junctions
        tris2 = []
        for (x0, y0, x1, y1) in rects:
            for i in range(x0, x1):
                for j in range(y0, y1):
                    a, b, c, d = (i * sx, j * sy), ((i + 1) * sx, j * sy), ((i + 1) * sx, (j + 1) * sy), (i * sx, (j + 1) * sy)
                    tris2 += [[a, b, c], [a, c, d]]
        if rng.random() < 0.5:  # start the outline elsewhere (the first corner may then be reflex)
            poly = np.roll(poly, -int(rng.integers(len(poly))), axis=0)
    elif kind == "star":
        # star-shaped about the origin: fan triangulation from the origin
        for _ in range(200):
            n = int(rng.integers(5, 13))
            ang = np.sort(rng.uniform(0, 2 * np.pi, size=n))
            if np.min(np.diff(np.r_[ang, ang[0] + 2 * np.pi])) < 0.25 or np.max(np.diff(np.r_[ang, ang[0] + 2 * np.pi])) > 2.6:
                continue
            rad = rng.uniform(0.35, 1.0, size=n)
            poly = np.c_[rad * np.cos(ang), rad * np.sin(ang)]
            # corners must be clearly convex or clearly reflex (polytri's ear test has a relative threshold)
            a, b, c = np.roll(poly, 1, axis=0), poly, np.roll(poly, -1, axis=0)
            cr = (b[:, 0] - a[:, 0]) * (c[:, 1] - b[:, 1]) - (b[:, 1] - a[:, 1]) * (c[:, 0] - b[:, 0])
            if np.min(np.abs(cr)) > 0.05 and np.any(cr < 0):
                break
        else:
            raise RuntimeError("no star polygon")
        tris2 = [[(0.0, 0.0), tuple(poly[i]), tuple(poly[(i + 1) % n])] for i in range(n)]
    elif kind == "zigzag":
        # a saw: bottom edge straight, top edge with teeth; decomposed into vertical strips
        m = int(rng.integers(2, 5))
        xs = np.arange(2 * m + 1, dtype=float)
        hs = np.where(np.arange(2 * m + 1) % 2 == 0, 2.0, 1.0) + rng.integers(0, 2, size=2 * m + 1) * 0.5
        top = [(xs[i], hs[i]) for i in range(2 * m, -1, -1)]
        poly = np.array([(0.0, 0.0), (xs[-1], 0.0)] + top, dtype=float)
        tris2 = []
        for i in range(2 * m):
            a, b, c, d = (xs[i], 0.0), (xs[i + 1], 0.0), (xs[i + 1], hs[i + 1]), (xs[i], hs[i])
            tris2 += [[a, b, c], [a, c, d]]
    else:
        raise ValueError(kind)
    tris2 = np.array(tris2, dtype=float)
    z0 = 0.0
    z1 = float(rng.choice([0.5, 1.0, 2.0])) if rng.random() < 0.6 else float(np.exp(rng.uniform(-1, 1)))
    n = len(poly)
    verts = np.vstack([np.c_[poly, np.full(n, z0)], np.c_[poly, np.full(n, z1)]])
    faces = [list(range(n - 1, -1, -1)), list(range(n, 2 * n))]
    for i in range(n):
        j = (i + 1) % n
        faces.append([i, j, n + j, n + i])
    tets = []
    for t in tris2:
        # prism over (a, b, c) with a < b < c lexicographically: the three side quadrilaterals are cut
        # lower-bottom to higher-top, so neighbouring prisms share whole triangles (proper complex)
        ts = sorted([tuple(float(x) for x in p) for p in t])
        a0, b0, c0 = [np.r_[p, z0] for p in ts]
        a1, b1, c1 = [np.r_[p, z1] for p in ts]
        tets += [[a0, b0, c0, c1], [a0, b0, c1, b1], [a0, b1, c1, a1]]
    return {"kind": "extruded:" + kind, "poly": poly, "tris2": tris2, "z0": z0, "z1": z1,
            "vertices": verts, "faces": faces, "tets": np.array(tets, dtype=float)}


def c05_point_triangle(p, tri):
    """closest points of the triangles tri (T,3,3) to the points p (N,3): returns (dist (N,T), bary (N,T,3)).
    Ericson's region classification, vectorised; independent of coxeter."""
    p = np.asarray(p, dtype=float)[:, None, :]
    a, b, c = tri[None, :, 0, :], tri[None, :, 1, :], tri[None, :, 2, :]
    ab, ac, ap = b - a, c - a, p - a
    d1 = np.sum(ab * ap, -1)
    d2 = np.sum(ac * ap, -1)
    bp = p - b
    d3 = np.sum(ab * bp, -1)
    d4 = np.sum(ac * bp, -1)
    cp = p - c
    d5 = np.sum(ab * cp, -1)
    d6 = np.sum(ac * cp, -1)
    va = d3 * d6 - d5 * d4
    vb = d5 * d2 - d1 * d6
    vc = d1 * d4 - d3 * d2
    shape = d1.shape
    w = np.zeros(shape + (3,))
    done = np.zeros(shape, dtype=bool)

    def put(mask, wa, wb, wc):
        nonlocal done
        m = mask & ~done
        w[..., 0] = np.where(m, wa, w[..., 0])
        w[..., 1] = np.where(m, wb, w[..., 1])
        w[..., 2] = np.where(m, wc, w[..., 2])
        done = done | m
    one, zero = np.ones(shape), np.zeros(shape)
    with np.errstate(divide="ignore", invalid="ignore"):
        put((d1 <= 0) & (d2 <= 0), one, zero, zero)
        put((d3 >= 0) & (d4 <= d3), zero, one, zero)
        put((d6 >= 0) & (d5 <= d6), zero, zero, one)
        t = d1 / (d1 - d3)
        put((vc <= 0) & (d1 >= 0) & (d3 <= 0), 1 - t, t, zero)
        t = d2 / (d2 - d6)
        put((vb <= 0) & (d2 >= 0) & (d6 <= 0), 1 - t, zero, t)
        t = (d4 - d3) / ((d4 - d3) + (d5 - d6))
        put((va <= 0) & ((d4 - d3) >= 0) & ((d5 - d6) >= 0), zero, 1 - t, t)
        den = va + vb + vc
        put(np.ones(shape, dtype=bool), va / den, vb / den, vc / den)
    w = np.nan_to_num(w)
    q = w[..., 0:1] * a + w[..., 1:2] * b + w[..., 2:3] * c
    return np.linalg.norm(p - q, axis=-1), w


def c05_rect_distance(p, lo, hi):
    """distance of points p (N,3) to axis-aligned boxes/rectangles [lo, hi] (M,3) each: (N,M)."""
    p = np.asarray(p, dtype=float)[:, None, :]
    d = np.maximum(np.maximum(lo[None] - p, p - hi[None]), 0.0)
    return np.linalg.norm(d, axis=-1)


def c05_segment_distance2(p, a, b):
    """distance of 2-D points p (N,2) to segments a->b (M,2): (N,M)."""
    p = np.asarray(p, dtype=float)[:, None, :]
    ab = (b - a)[None]
    t = np.clip(np.sum((p - a[None]) * ab, -1) / np.sum(ab * ab, -1), 0.0, 1.0)
    q = a[None] + t[..., None] * ab
    return np.linalg.norm(p - q, axis=-1)


def c15_straight_first_corner(rng):
    """A clearly simple polygon with dyadic coordinates (multiples of 1/32) whose FIRST corner is a straight angle:
    the midpoint of the first edge is inserted as vertex 1 (exactly collinear in floating point).
    Returns (p2, info)."""
    for _ in range(400):
        p, info = c15_simple_polygon(rng, margin=2e-2)
        q = np.round(p * 32 * 8) / 32          # size ~ 8, multiples of 1/32
        if len(q) > 39 or not c15_exact_simple(q) or c15_simple_margin(q) <= 1e-2:
            continue
        mid = (q[0] + q[1]) / 2
        r = np.vstack([q[:1], [mid], q[1:]])
        a, b, c = c15_int_coords(r[:3])
        if c15_orient(a, b, c) != 0 or not c15_exact_simple(r):
            continue
        return np.ascontiguousarray(r), dict(info, n=len(r), base_margin=c15_simple_margin(q))
    raise RuntimeError("could not generate a straight-first-corner polygon")


# --------------------------------------------------------------------------- C15, deepening round
# crossing cycles of every kind, boundary (touching / overlapping) cycles with exact dyadic coordinates, nearly straight
# first corners. Used by harness/c15.py only.


def c15_star_nk(rng, n=None, k=None):
    """star polygon {n/k}: n points in clear convex position (random, not regular) visited every k-th,
    gcd(n,k) = 1, 2 <= k <= n-2. All turns have the same sign (turning number min(k, n-k) >= 2)."""
    from math import gcd
    for _ in range(200):
        n_ = n or int(rng.integers(5, 14))
        ks = [x for x in range(2, n_ - 1) if gcd(n_, x) == 1]
        if not ks:
            continue
        k_ = k or int(ks[int(rng.integers(len(ks)))])
        p, _ = c15_convex_polygon(rng, n=n_)
        if len(p) != n_:
            continue
        q = p[(np.arange(n_) * k_) % n_]
        return q, {"kind": "star{%d/%d}" % (n_, k_), "n": n_, "k": k_}
    raise RuntimeError("star")


def c15_crossing_kind(rng, kind=None, margin=1e-2):
    """A clearly self-intersecting cycle with pairwise different vertices, of a named kind; exact oracle says 'not
    simple' and two non-adjacent edges cross properly with margin. Returns (p2, info).
    kinds: bowtie (two neighbours of a convex polygon swapped), star ({n/k}), doublewind (two laps around the centre with
    growing radius: same turn sign everywhere), twolaps (a polygon traversed twice, the second lap shrunk and turned by
    half a step), spiralchord (an open spiral of >= 1.5 turns closed by the chord from its end to its start),
    figure8 (lemniscate sampled away from its double point), pushthrough (one vertex of a simple polygon pushed through
    a far edge)."""
    kinds = ["bowtie", "star", "doublewind", "twolaps", "spiralchord", "figure8", "pushthrough"]
    for _ in range(400):
        kd = kind or kinds[int(rng.integers(len(kinds)))]
        if kd == "bowtie":
            p, _ = c15_convex_polygon(rng, n=int(rng.integers(4, 12)))
            i = int(rng.integers(len(p)))
            q = p.copy()
            j = (i + 1) % len(p)
            q[[i, j]] = q[[j, i]]
            info = {"kind": "bowtie", "n": len(q)}
        elif kd == "star":
            q, info = c15_star_nk(rng)
            info = dict(info, kind="star", star=info["kind"])
        elif kd == "doublewind":
            m = int(rng.integers(5, 16))
            th = 4 * np.pi * (np.arange(m) + rng.uniform(-0.15, 0.15, size=m)) / m + rng.uniform(0, 2 * np.pi)
            r = 1.0 + float(rng.uniform(0.3, 1.0)) * np.arange(m) / m
            q = np.stack([r * np.cos(th), r * np.sin(th)], axis=1)
            info = {"kind": "doublewind", "n": m}
        elif kd == "twolaps":
            m = int(rng.integers(3, 9))
            ph = rng.uniform(0, 2 * np.pi)
            a1 = 2 * np.pi * np.arange(m) / m + ph
            a2 = a1 + np.pi / m
            s = float(rng.uniform(0.5, 0.85))
            q = np.vstack([np.stack([np.cos(a1), np.sin(a1)], axis=1), s * np.stack([np.cos(a2), np.sin(a2)], axis=1)])
            info = {"kind": "twolaps", "n": 2 * m}
        elif kd == "spiralchord":
            m = int(rng.integers(7, 20))
            turns = float(rng.uniform(1.4, 2.6))
            th = np.linspace(0, 2 * np.pi * turns, m) + rng.uniform(0, 2 * np.pi)
            r = 0.3 + 0.7 * np.linspace(0, 1, m)
            q = np.stack([r * np.cos(th), r * np.sin(th)], axis=1)
            info = {"kind": "spiralchord", "n": m, "turns": turns}
        elif kd == "figure8":
            m = 2 * int(rng.integers(3, 12))
            t = 2 * np.pi * (np.arange(m) + 0.5) / m
            ax = float(np.exp(rng.uniform(-0.7, 0.7)))
            q = np.stack([np.cos(t), ax * np.sin(t) * np.cos(t)], axis=1)
            info = {"kind": "figure8", "n": m}
        else:
            p, pi_ = c15_simple_polygon(rng)
            n_ = len(p)
            if n_ < 5:
                continue
            i = int(rng.integers(n_))
            j = int((i + 2 + rng.integers(n_ - 3)) % n_)          # edge j -> j+1 not incident to vertex i
            a, b = p[j], p[(j + 1) % n_]
            mid = a + float(rng.uniform(0.3, 0.7)) * (b - a)
            q = p.copy()
            q[i] = p[i] + float(rng.uniform(1.1, 1.6)) * (mid - p[i])
            info = {"kind": "pushthrough", "n": n_}
        q = np.asarray(q, dtype=float)
        th = rng.uniform(0, 2 * np.pi)
        Rm = np.array([[np.cos(th), -np.sin(th)], [np.sin(th), np.cos(th)]])
        q = (q - q.mean(axis=0)) @ Rm.T
        if rng.random() < 0.5:
            q = q[::-1]
        q = np.roll(q, -int(rng.integers(len(q))), axis=0)
        ints = c15_int_coords(q)
        if len(set(map(tuple, ints))) != len(q) or c15_exact_simple(q):
            continue
        mg = c15_crossing_margin(q)
        if mg <= margin:
            continue
        s = c15_corner_sines(q)
        good = np.nonzero(s >= 0.05)[0]
        if len(good) == 0:
            continue
        kk = int(good[int(rng.integers(len(good)))])
        q = np.roll(q, -(kk - 1), axis=0)
        return np.ascontiguousarray(q), dict(info, crossing_margin=mg)
    raise RuntimeError("could not generate a crossing cycle of kind %s" % kind)


def c15_dyadic_affine(rng):
    """integer 2x2 matrix with non-zero determinant (entries |.| <= 4), integer shift, power-of-two scale: maps dyadic
    points to dyadic points exactly and preserves incidence / collinearity / crossing"""
    while True:
        A = rng.integers(-4, 5, size=(2, 2))
        if abs(int(A[0, 0] * A[1, 1] - A[0, 1] * A[1, 0])) >= 1:
            break
    t = rng.integers(-8, 9, size=2)
    s = 2.0 ** int(rng.integers(-10, 11))
    return A.astype(float), t.astype(float), s


def c15_boundary_cycle(rng, kind=None, delta=0.0):
    """Cycles ON the decision boundary (delta = 0, exact dyadic coordinates) or next to it (delta != 0, in units of the
    height): a vertex on the interior of a non-adjacent edge ('touch'), two non-adjacent edges overlapping on a line
    ('overlap'), a vertex of the cycle on another VERTEX-free edge from the inside of a slot ('slot').
    delta > 0: clearly simple (gap delta); delta < 0: clearly crossing (penetration |delta|); delta = 0: the closed
    segments meet (not simple by the exact oracle).  Returns (p2, info)."""
    kinds = ["touch", "overlap", "tjunction"]
    kd = kind or kinds[int(rng.integers(len(kinds)))]
    W = float(rng.integers(4, 17))
    H = float(rng.integers(2, 9))
    y = delta * H
    if kd == "touch":
        xm = float(rng.integers(1, int(W)))                 # vertex (xm, y) above / on / below the base edge
        p = [(0, 0), (W, 0), (W, H), (xm, y), (0, H)]
    elif kd == "overlap":
        x1 = float(rng.integers(1, int(W) - 1))
        x2 = float(rng.integers(int(x1) + 1, int(W)))
        p = [(0, 0), (W, 0), (W, H), (x2, H), (x2, y), (x1, y), (x1, H), (0, H)]
    else:                                                   # a spike whose tip ends on the base edge
        x1 = float(rng.integers(1, int(W) - 1))
        x2 = float(rng.integers(int(x1) + 1, int(W)))
        xm = (x1 + x2) / 2
        p = [(0, 0), (W, 0), (W, H), (x2, H), (xm, y), (x1, H), (0, H)]
    p = np.array(p, dtype=float)
    A, t, s = c15_dyadic_affine(rng)
    q = (p @ A.T + t) * s
    if rng.random() < 0.5:
        q = q[::-1]
    q = np.roll(q, -int(rng.integers(len(q))), axis=0)
    # a non-degenerate first corner (the constructor derives its normal from it)
    sn = c15_corner_sines(q)
    good = np.nonzero(sn >= 0.05)[0]
    if len(good) == 0:
        return c15_boundary_cycle(rng, kind, delta)
    kk = int(good[int(rng.integers(len(good)))])
    q = np.roll(q, -(kk - 1), axis=0)
    return np.ascontiguousarray(q), {"kind": kd, "n": len(q), "delta": delta, "scale": s}


def c15_open_margin(p):
    """like c15_simple_margin but ignoring straight corners (a straight angle is not a decision boundary of
    simplicity): min over the distance of non-adjacent edges / diameter and, for corners sharper than 90 degrees, the
    corner sine."""
    p = np.asarray(p, dtype=float)
    n = len(p)
    diam = float(np.max(np.linalg.norm(p[:, None, :] - p[None, :, :], axis=-1)))
    a = np.roll(p, 1, axis=0) - p
    b = np.roll(p, -1, axis=0) - p
    cosv = np.sum(a * b, axis=1) / (np.linalg.norm(a, axis=1) * np.linalg.norm(b, axis=1))
    sn = c15_corner_sines(p)
    m = float(np.min(np.where(cosv > 0, sn, 1.0)))
    for i in range(n):
        for j in range(i + 1, n):
            if j == i + 1 or (i == 0 and j == n - 1):
                continue
            m = min(m, _c15_seg_seg_dist(p[i], p[(i + 1) % n], p[j], p[(j + 1) % n]) / diam)
    return m


def c15_near_straight_first_corner(rng, lo=1e-12, hi=1e-3):
    """A clearly simple polygon whose FIRST corner deviates from a straight angle by `ang` radians (log-uniform in
    [lo, hi], either side): a point near the middle of the first edge is inserted as vertex 1.
    Returns (p2, info) with info['corner_dev'] = ang (signed)."""
    for _ in range(400):
        p, info = c15_simple_polygon(rng, margin=2e-2)
        if len(p) > 39:
            continue
        ang = float(np.exp(rng.uniform(np.log(lo), np.log(hi)))) * (1.0 if rng.random() < 0.5 else -1.0)
        e = p[1] - p[0]
        L = float(np.linalg.norm(e))
        nrm = np.array([-e[1], e[0]]) / L
        mid = p[0] + 0.5 * e + nrm * (0.5 * L * np.tan(ang / 2))
        r = np.vstack([p[:1], [mid], p[1:]])
        if not c15_exact_simple(r) or c15_open_margin(r) <= 1e-2:
            continue
        return np.ascontiguousarray(r), dict(info, n=len(r), corner_dev=ang)
    raise RuntimeError("could not generate a nearly-straight-first-corner polygon")


def c15_close_vertices_polygon(rng, lo=1.5e-3, hi=1e-2):
    """A clearly simple polygon with one pair of neighbouring vertices only lo..hi diameters apart (beyond the margin
    of 1e-3, so clearly two different vertices): where an ABSOLUTE tolerance in a duplicate / coincidence test shows once
    the polygon is small. A vertex is inserted on an edge next to one of its end points, nudged off the edge.
    Returns (p2, info) with info['pair_dist'] in diameters."""
    for _ in range(400):
        p, info = c15_simple_polygon(rng, margin=2e-2)
        n = len(p)
        if n > 39:
            continue
        diam = float(np.max(np.linalg.norm(p[:, None, :] - p[None, :, :], axis=-1)))
        i = int(rng.integers(1, n))            # keep the first corner (v0, v1, v2) as it is unless i == 1
        if i == 1:
            i = n - 1
        a, b = p[i], p[(i + 1) % n]
        e = b - a
        L = float(np.linalg.norm(e))
        d = float(np.exp(rng.uniform(np.log(lo), np.log(hi)))) * diam
        if d > 0.3 * L:
            continue
        side = 1.0 if rng.random() < 0.5 else -1.0
        q = a + e / L * d + side * np.array([-e[1], e[0]]) / L * (d * float(rng.uniform(0.1, 0.4)))
        r = np.insert(p, i + 1, q, axis=0)
        if not c15_exact_simple(r) or c15_open_margin(r) <= 1e-3 or c15_corner_sines(r)[1] < 0.05:
            continue
        return np.ascontiguousarray(r), dict(info, n=len(r), pair_dist=float(np.linalg.norm(q - a) / diam))
    raise RuntimeError("could not generate a close-vertices polygon")
