"""Regenerates /verif/MANIFEST.json from the table below (run by hand after adding a property)."""
import json
import os

VERIF = os.path.dirname(os.path.dirname(os.path.abspath(__file__)))

CLAIMED = {}
# only properties listed in harness/claims/READY (reviewed by the lead) are claimed
READY = set(open(os.path.join(VERIF, "harness", "claims", "READY")).read().split())
for _fn in sorted(os.listdir(os.path.join(VERIF, "harness", "claims"))):
    if _fn.endswith(".json") and _fn[:-5] in READY:
        CLAIMED[_fn[:-5]] = json.load(open(os.path.join(VERIF, "harness", "claims", _fn)))

PENDING_REASON = "check not built yet in this round (planned; see DESIGN.md §7); not claimed until its Lean model, theorems and correspondence exist"


def main():
    props = [json.loads(l) for l in open(os.path.join(VERIF, "properties.jsonl"))]
    checks = []
    na = []
    for p in props:
        pid = p["id"]
        c = CLAIMED.get(pid)
        if c is None:
            na.append({"property_id": pid, "reason": PENDING_REASON})
            continue
        checks.append({
            "property_id": pid,
            "quick_cmd": "./check %s --tier quick" % pid,
            "thorough_cmd": "./check %s --tier thorough" % pid,
            "evidence_file": "/verif/evidence/%s.json" % pid,
            "replay_cmd_template": "./check %s --replay {path}" % pid,
            "engine": "lean-model+correspondence",
            "level_claimed": {"category": "proof", "text": c["text"], "design_ref": c["design_ref"]},
            "level_note": c["note"],
            "technique": c["technique"],
        })
    man = {
        "version": 1,
        # builds the driver and the theorem modules of the claimed properties (a module of an unclaimed,
        # unfinished property cannot break the setup); every check rebuilds what it needs anyway
        # setup.sh regenerates the C17/C18 tables from /repo, then builds the driver and the claimed theorem modules
        "setup_cmd": "./setup.sh",
        "hooks": {
            "guard": "COXETER_VERIF",
            "enable": "no source hooks: the harness observes coxeter in-process from outside (PYTHONPATH=/repo); COXETER_VERIF=1 is exported by ./check but read by nothing in /repo",
            "baseline_off_cmd": "cd /repo && /venv/bin/python -m pytest -ra -q -p no:cacheprovider --timeout=900 --continue-on-collection-errors",
            "source_commits": [],
            "add_only": True,
        },
        "engines": [{
            "name": "lean-model+correspondence",
            "path": "/verif/lean (Lean 4 model, spec, theorems, driver) + /verif/harness (Python correspondence + oracle)",
            "serves_properties": sorted(CLAIMED.keys()),
            "kind_free_text": "machine-checked proof in Lean 4 about a hand-written scalar-generic model; model tied to /repo by differential correspondence; tables regenerated from /repo by a translator",
        }],
        "checks": checks,
        "not_applicable": na,
        "notes": "See DESIGN.md. ./check exits 0 (held), 1 (VIOLATION line printed), 2 (infrastructure error/timeouts).",
    }
    with open(os.path.join(VERIF, "MANIFEST.json"), "w") as f:
        json.dump(man, f, indent=1)
    print("claimed:", sorted(CLAIMED.keys()), "not_applicable:", len(na))


if __name__ == "__main__":
    main()
