"""Regenerate lean/CoxeterVerif/Generated/*.lean from $COXETER_REPO with the translators of the properties that have one.

  /venv/bin/python harness/translate_all.py        (cwd /verif, PYTHONPATH=$COXETER_REPO)

Used by setup.sh and by seedtest.py (to put the tables of /repo back after a run against a scratch worktree)."""
import importlib
import os
import sys

sys.path.insert(0, os.path.dirname(os.path.abspath(__file__)))
from common import Ctx  # noqa: E402


def main():
    rc = 0
    for pid in ("C17", "C18"):
        try:
            mod = importlib.import_module(pid.lower())
            ctx = Ctx(pid, "quick", 0, None)
            mod.translate(ctx)
            print("translate %s: changed=%s" % (pid, getattr(ctx, "generated_changed", None)))
        except Exception as e:  # the check of that property will report it
            print("translate %s failed: %r" % (pid, e), file=sys.stderr)
            rc = 1
    return rc


if __name__ == "__main__":
    sys.exit(main())
