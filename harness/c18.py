"""C18 — every tabulated family entry is the solid its name says.

translate(ctx): regenerates lean/CoxeterVerif/Generated/Tables*.lean from /repo's JSON tables (names in
file order, vertices as integers x 10^18, `source`/`name` of repository records) plus the face lists the
IMPLEMENTATION builds in this run (`family.get_shape(name).faces`, a certificate re-verified by the Lean
kernel).  run(ctx): exhaustive oracle + correspondence over all 290 entries.
"""
import hashlib
import json
import os
import warnings
from decimal import Decimal

import numpy as np
from scipy.spatial import ConvexHull

from common import L, LEAN, ModelRaise, exc_kind

RULE = ("exhaustive: every entry of platonic(5), archimedean(13), catalan(13), johnson(92), prism_antiprism(16), "
        "pyramid_dipyramid(6) and of the DOI 10.1126/science.1220869 repository (145), each through names, iter and "
        "get_shape; histories (all families iterated, then every family asked for every name of every other family; user "
        "tables reusing shipped names; every name asked twice with the first result mutated; random histories); several live "
        "iterators per family (alternating, zip, kept across a pass, nested loops); unknown "
        "names / DOIs (fixed probes incl. strings containing a known DOI + random strings). distinct = distinct (table, "
        "entry) or history; non-trivial = entry with >= 4 vertices")
ASSUMPTIONS = [
    "tolerances are part of the statements: plane distances <= 1e-9, |volume-1| <= 1e-9, squared lengths / squared "
    "in-radius equal within 2e-9 relative (the JSON holds 16-17 digit decimals)",
    "textbook (V,E,F) and face census of the 5+13+13 solids, of the 92 Johnson solids by number (with Johnson's names), "
    "of the 16 prisms/antiprisms, 6 pyramids/dipyramids and of the 7 repository solids outside the families are entered "
    "by hand twice (Spec/Textbook.lean and the tables below; compared row by row through the driver op c18.textbook); "
    "the Johnson / prism / pyramid / repository rows go beyond the literal clauses of the property (its title; DESIGN "
    "§7 C18 S)",
    "the Lean table theorems are about the JSON decimals (exact at scale 10^18) with the face lists the implementation "
    "produced in the generating run as a certificate; that get_shape(name) returns exactly those vertices is checked "
    "by the oracle on every run",
    "regular face = planar convex polygon with equal sides and equal short diagonals; insphere = all face planes at one "
    "distance from the centroid of the solid",
    "a DOI is an opaque key: only the exact keys of _DOI_TO_FILE/_DOI_TO_FAMILY are known; strings that contain one "
    "(other case, white space, doi:/URL prefixes, suffixes) are unknown and must raise KeyError",
    "the repository solids O15-O20 are stored with six significant digits (faces planar to ~1e-6 only, split by the "
    "hull): for the seven 'other solids' the oracle merges faces coplanar within 1e-4 before comparing with the row",
]

SCALE = 10 ** 18
DOI = "10.1126/science.1220869"
# (lean identifier, json file, attribute in coxeter.families or None for the DOI repository)
TABLES = [
    ("platonic", "platonic.json", "PlatonicFamily"),
    ("archimedean", "archimedean.json", "ArchimedeanFamily"),
    ("catalan", "catalan.json", "CatalanFamily"),
    ("johnson", "johnson.json", "JohnsonFamily"),
    ("prismAntiprism", "prism_antiprism.json", "PrismAntiprismFamily"),
    ("pyramidDipyramid", "pyramid_dipyramid.json", "PyramidDipyramidFamily"),
    ("science1220869", "science1220869.json", None),
]
EXPECTED_SIZES = {"platonic": 5, "archimedean": 13, "catalan": 13, "johnson": 92, "prismAntiprism": 16,
                  "pyramidDipyramid": 6, "science1220869": 145}
REGULAR = ("platonic", "archimedean", "johnson")   # equal edges + regular faces
UNITVOL = ("platonic", "archimedean", "catalan")   # textbook counts + unit volume
PREDICATE = {
    "platonic": "Tab.platonicOk", "archimedean": "Tab.archimedeanOk", "catalan": "Tab.catalanOk",
    "johnson": "Tab.johnsonOk", "prismAntiprism": "Tab.prismAntiprismOk",
    "pyramidDipyramid": "Tab.pyramidDipyramidOk",
    "science1220869": "Tab.repositoryOk Tables.bySource",
}
CHUNK = 30            # at most this many entries per generated Lean file
CHUNK_WEIGHT = 14000  # and at most about this many (face, vertex) plane tests (kernel: ~0.4 ms each)

# Hand-entered, independent of /repo AND of Spec/Textbook.lean (compared with it through the driver):
# name: (V, E, F, {corners: count})
TEXTBOOK = {
    "platonic": {
        "Tetrahedron": (4, 6, 4, {3: 4}), "Cube": (8, 12, 6, {4: 6}), "Octahedron": (6, 12, 8, {3: 8}),
        "Dodecahedron": (20, 30, 12, {5: 12}), "Icosahedron": (12, 30, 20, {3: 20}),
    },
    "archimedean": {
        "Truncated Tetrahedron": (12, 18, 8, {3: 4, 6: 4}),
        "Cuboctahedron": (12, 24, 14, {3: 8, 4: 6}),
        "Truncated Cube": (24, 36, 14, {3: 8, 8: 6}),
        "Truncated Octahedron": (24, 36, 14, {4: 6, 6: 8}),
        "Rhombicuboctahedron": (24, 48, 26, {3: 8, 4: 18}),
        "Truncated Cuboctahedron": (48, 72, 26, {4: 12, 6: 8, 8: 6}),
        "Snub Cuboctahedron": (24, 60, 38, {3: 32, 4: 6}),
        "Icosidodecahedron": (30, 60, 32, {3: 20, 5: 12}),
        "Truncated Dodecahedron": (60, 90, 32, {3: 20, 10: 12}),
        "Truncated Icosahedron": (60, 90, 32, {5: 12, 6: 20}),
        "Rhombicosidodecahedron": (60, 120, 62, {3: 20, 4: 30, 5: 12}),
        "Truncated Icosidodecahedron": (120, 180, 62, {4: 30, 6: 20, 10: 12}),
        "Snub Icosidodecahedron": (60, 150, 92, {3: 80, 5: 12}),
    },
    "catalan": {
        "Triakis Tetrahedron": (8, 18, 12, {3: 12}),
        "Rhombic Dodecahedron": (14, 24, 12, {4: 12}),
        "Triakis Octahedron": (14, 36, 24, {3: 24}),
        "Tetrakis Hexahedron": (14, 36, 24, {3: 24}),
        "Deltoidal Icositetrahedron": (26, 48, 24, {4: 24}),
        "Disdyakis Dodecahedron": (26, 72, 48, {3: 48}),
        "Pentagonal Icositetrahedron": (38, 60, 24, {5: 24}),
        "Rhombic Triacontahedron": (32, 60, 30, {4: 30}),
        "Triakis Icosahedron": (32, 90, 60, {3: 60}),
        "Pentakis Dodecahedron": (32, 90, 60, {3: 60}),
        "Deltoidal Hexecontahedron": (62, 120, 60, {4: 60}),
        "Disdyakis Triacontahedron": (62, 180, 120, {3: 120}),
        "Pentagonal Hexecontahedron": (92, 150, 60, {5: 60}),
    },
}

# Johnson solids by number (Johnson 1966): V, E, F — typed independently of /repo
JOHNSON = {
    "J1": (5, 8, 5), "J2": (6, 10, 6), "J3": (9, 15, 8), "J4": (12, 20, 10), "J5": (15, 25, 12),
    "J6": (20, 35, 17), "J7": (7, 12, 7), "J8": (9, 16, 9), "J9": (11, 20, 11), "J10": (9, 20, 13),
    "J11": (11, 25, 16), "J12": (5, 9, 6), "J13": (7, 15, 10), "J14": (8, 15, 9), "J15": (10, 20, 12),
    "J16": (12, 25, 15), "J17": (10, 24, 16), "J18": (15, 27, 14), "J19": (20, 36, 18), "J20": (25, 45, 22),
    "J21": (30, 55, 27), "J22": (15, 33, 20), "J23": (20, 44, 26), "J24": (25, 55, 32), "J25": (30, 65, 37),
    "J26": (8, 14, 8), "J27": (12, 24, 14), "J28": (16, 32, 18), "J29": (16, 32, 18), "J30": (20, 40, 22),
    "J31": (20, 40, 22), "J32": (25, 50, 27), "J33": (25, 50, 27), "J34": (30, 60, 32), "J35": (18, 36, 20),
    "J36": (18, 36, 20), "J37": (24, 48, 26), "J38": (30, 60, 32), "J39": (30, 60, 32), "J40": (35, 70, 37),
    "J41": (35, 70, 37), "J42": (40, 80, 42), "J43": (40, 80, 42), "J44": (18, 42, 26), "J45": (24, 56, 34),
    "J46": (30, 70, 42), "J47": (35, 80, 47), "J48": (40, 90, 52), "J49": (7, 13, 8), "J50": (8, 17, 11),
    "J51": (9, 21, 14), "J52": (11, 19, 10), "J53": (12, 23, 13), "J54": (13, 22, 11), "J55": (14, 26, 14),
    "J56": (14, 26, 14), "J57": (15, 30, 17), "J58": (21, 35, 16), "J59": (22, 40, 20), "J60": (22, 40, 20),
    "J61": (23, 45, 24), "J62": (10, 20, 12), "J63": (9, 15, 8), "J64": (10, 18, 10), "J65": (15, 27, 14),
    "J66": (28, 48, 22), "J67": (32, 60, 30), "J68": (65, 105, 42), "J69": (70, 120, 52), "J70": (70, 120, 52),
    "J71": (75, 135, 62), "J72": (60, 120, 62), "J73": (60, 120, 62), "J74": (60, 120, 62), "J75": (60, 120, 62),
    "J76": (55, 105, 52), "J77": (55, 105, 52), "J78": (55, 105, 52), "J79": (55, 105, 52), "J80": (50, 90, 42),
    "J81": (50, 90, 42), "J82": (50, 90, 42), "J83": (45, 75, 32), "J84": (8, 18, 12), "J85": (16, 40, 26),
    "J86": (10, 22, 14), "J87": (11, 26, 17), "J88": (12, 28, 18), "J89": (14, 33, 21), "J90": (16, 38, 24),
    "J91": (14, 26, 14), "J92": (18, 36, 20),
}

# face census of the Johnson solids by number, typed separately from Spec/Textbook.lean as the vector
# (triangles, squares, pentagons, hexagons, octagons, decagons); trailing zeros omitted
_JOHNSON_CENSUS = """
1:4,1 2:5,0,1 3:4,3,0,1 4:4,5,0,0,1 5:5,5,1,0,0,1 6:10,0,6,0,0,1 7:4,3 8:4,5 9:5,5,1 10:12,1 11:15,0,1 12:6 13:10
14:6,3 15:8,4 16:10,5 17:16 18:4,9,0,1 19:4,13,0,0,1 20:5,15,1,0,0,1 21:10,10,6,0,0,1 22:16,3,0,1 23:20,5,0,0,1
24:25,5,1,0,0,1 25:30,0,6,0,0,1 26:4,4 27:8,6 28:8,10 29:8,10 30:10,10,2 31:10,10,2 32:15,5,7 33:15,5,7 34:20,0,12
35:8,12 36:8,12 37:8,18 38:10,20,2 39:10,20,2 40:15,15,7 41:15,15,7 42:20,10,12 43:20,10,12 44:20,6 45:24,10
46:30,10,2 47:35,5,7 48:40,0,12 49:6,2 50:10,1 51:14 52:4,4,2 53:8,3,2 54:4,5,0,2 55:8,4,0,2 56:8,4,0,2 57:12,3,0,2
58:5,0,11 59:10,0,10 60:10,0,10 61:15,0,9 62:10,0,2 63:5,0,3 64:7,0,3 65:8,3,0,3 66:12,5,0,0,5 67:16,10,0,0,4
68:25,5,1,0,0,11 69:30,10,2,0,0,10 70:30,10,2,0,0,10 71:35,15,3,0,0,9 72:20,30,12 73:20,30,12 74:20,30,12 75:20,30,12
76:15,25,11,0,0,1 77:15,25,11,0,0,1 78:15,25,11,0,0,1 79:15,25,11,0,0,1 80:10,20,10,0,0,2 81:10,20,10,0,0,2
82:10,20,10,0,0,2 83:5,15,9,0,0,3 84:12 85:24,2 86:12,2 87:16,1 88:16,2 89:18,3 90:20,4 91:8,2,4 92:13,3,3,1
"""


def _johnson_full():
    out = {}
    for tok in _JOHNSON_CENSUS.split():
        k, vec = tok.split(":")
        cen = {size: int(c) for size, c in zip((3, 4, 5, 6, 8, 10), vec.split(",")) if int(c)}
        out["J" + k] = JOHNSON["J" + k] + (cen,)
    return out


JOHNSON_FULL = _johnson_full()    # "J5": (V, E, F, {corners: count})

# Johnson's names by number (second copy; the first is Textbook.johnsonNames)
JOHNSON_NAMES = [
    "Square Pyramid", "Pentagonal Pyramid", "Triangular Cupola", "Square Cupola", "Pentagonal Cupola",
    "Pentagonal Rotunda", "Elongated Triangular Pyramid", "Elongated Square Pyramid", "Elongated Pentagonal Pyramid",
    "Gyroelongated Square Pyramid", "Gyroelongated Pentagonal Pyramid", "Triangular Dipyramid", "Pentagonal Dipyramid",
    "Elongated Triangular Dipyramid", "Elongated Square Dipyramid", "Elongated Pentagonal Dipyramid",
    "Gyroelongated Square Dipyramid", "Elongated Triangular Cupola", "Elongated Square Cupola",
    "Elongated Pentagonal Cupola", "Elongated Pentagonal Rotunda", "Gyroelongated Triangular Cupola",
    "Gyroelongated Square Cupola", "Gyroelongated Pentagonal Cupola", "Gyroelongated Pentagonal Rotunda",
    "Gyrobifastigium", "Triangular Orthobicupola", "Square Orthobicupola", "Square Gyrobicupola",
    "Pentagonal Orthobicupola", "Pentagonal Gyrobicupola", "Pentagonal Orthocupolarotunda",
    "Pentagonal Gyrocupolarotunda", "Pentagonal Orthobirotunda", "Elongated Triangular Orthobicupola",
    "Elongated Triangular Gyrobicupola", "Elongated Square Gyrobicupola", "Elongated Pentagonal Orthobicupola",
    "Elongated Pentagonal Gyrobicupola", "Elongated Pentagonal Orthocupolarotunda",
    "Elongated Pentagonal Gyrocupolarotunda", "Elongated Pentagonal Orthobirotunda",
    "Elongated Pentagonal Gyrobirotunda", "Gyroelongated Triangular Bicupola", "Gyroelongated Square Bicupola",
    "Gyroelongated Pentagonal Bicupola", "Gyroelongated Pentagonal Cupolarotunda",
    "Gyroelongated Pentagonal Birotunda", "Augmented Triangular Prism", "Biaugmented Triangular Prism",
    "Triaugmented Triangular Prism", "Augmented Pentagonal Prism", "Biaugmented Pentagonal Prism",
    "Augmented Hexagonal Prism", "Parabiaugmented Hexagonal Prism", "Metabiaugmented Hexagonal Prism",
    "Triaugmented Hexagonal Prism", "Augmented Dodecahedron", "Parabiaugmented Dodecahedron",
    "Metabiaugmented Dodecahedron", "Triaugmented Dodecahedron", "Metabidiminished Icosahedron",
    "Tridiminished Icosahedron", "Augmented Tridiminished Icosahedron", "Augmented Truncated Tetrahedron",
    "Augmented Truncated Cube", "Biaugmented Truncated Cube", "Augmented Truncated Dodecahedron",
    "Parabiaugmented Truncated Dodecahedron", "Metabiaugmented Truncated Dodecahedron",
    "Triaugmented Truncated Dodecahedron", "Gyrate Rhombicosidodecahedron", "Parabigyrate Rhombicosidodecahedron",
    "Metabigyrate Rhombicosidodecahedron", "Trigyrate Rhombicosidodecahedron", "Diminished Rhombicosidodecahedron",
    "Paragyrate Diminished Rhombicosidodecahedron", "Metagyrate Diminished Rhombicosidodecahedron",
    "Bigyrate Diminished Rhombicosidodecahedron", "Parabidiminished Rhombicosidodecahedron",
    "Metabidiminished Rhombicosidodecahedron", "Gyrate Bidiminished Rhombicosidodecahedron",
    "Tridiminished Rhombicosidodecahedron", "Snub Disphenoid", "Snub Square Antiprism", "Sphenocorona",
    "Augmented Sphenocorona", "Sphenomegacorona", "Hebesphenomegacorona", "Disphenocingulum", "Bilunabirotunda",
    "Triangular Hebesphenorotunda",
]
JOHNSON_BY_NAME = {n: JOHNSON_FULL["J%d" % (i + 1)] for i, n in enumerate(JOHNSON_NAMES)}

_NGON = {3: "Triangular", 4: "Square", 5: "Pentagonal", 6: "Hexagonal", 7: "Heptagonal", 8: "Octagonal",
         9: "Nonagonal", 10: "Decagonal"}


def _census(*pairs):
    out = {}
    for size, c in pairs:
        out[size] = out.get(size, 0) + c
    return out


# derived here from n by the general formulas (Spec/Textbook.lean lists the rows literally)
PRISM_ANTIPRISM = {}
for _n, _w in _NGON.items():
    PRISM_ANTIPRISM[_w + " Prism"] = (2 * _n, 3 * _n, _n + 2, _census((4, _n), (_n, 2)))
    PRISM_ANTIPRISM[_w + " Antiprism"] = (2 * _n, 4 * _n, 2 * _n + 2, _census((3, 2 * _n), (_n, 2)))
PYRAMID_DIPYRAMID = {}
for _n in (3, 4, 5):
    PYRAMID_DIPYRAMID[_NGON[_n] + " Pyramid"] = (_n + 1, 2 * _n, _n + 1, _census((3, _n), (_n, 1)))
    PYRAMID_DIPYRAMID[_NGON[_n] + " Dipyramid"] = (_n + 2, 3 * _n, 2 * _n, _census((3, 2 * _n)))
# the repository's solids outside the families, by the record's `name`
OTHER_SOLIDS = {
    "Squashed Dodecahedron": (14, 24, 12, {4: 12}), "Rhombic Icosahedron": (22, 40, 20, {4: 20}),
    "Rhombic Enneacontahedron": (92, 180, 90, {4: 90}), "Obtuse Golden Rhombohedron": (8, 12, 6, {4: 6}),
    "Acute Golden Rhombohedron": (8, 12, 6, {4: 6}), "Duerers Solid": (12, 18, 8, {3: 2, 5: 6}),
    "Elongated Dodecahedron": (18, 28, 12, {4: 8, 6: 4}),
}
ROWS_BY_TABLE = {"platonic": TEXTBOOK["platonic"], "archimedean": TEXTBOOK["archimedean"], "catalan": TEXTBOOK["catalan"],
                 "johnson": JOHNSON_BY_NAME, "prismAntiprism": PRISM_ANTIPRISM, "pyramidDipyramid": PYRAMID_DIPYRAMID}

GEN_DIR = os.path.join(LEAN, "CoxeterVerif", "Generated")
OWN_PREFIXES = ("Tables", "Check")  # the only generated files this module writes or deletes
OK_MARK = os.path.join(LEAN, ".lake", "c18_generated_ok.sha1")


# ------------------------------------------------------------------------------------------ sources


def _families():
    with warnings.catch_warnings():
        warnings.simplefilter("ignore")
        import coxeter.families as cf
    out = {}
    for lean_id, fn, attr in TABLES:
        out[lean_id] = getattr(cf, attr) if attr else cf.DOI_SHAPE_REPOSITORIES[DOI][0]
    return out


def _data_folder():
    from coxeter.families import doi_data_repositories as ddr
    return ddr._DATA_FOLDER


def read_json_tables():
    """The JSON files read independently of the loader: {lean_id: [(name, record-as-dict with Decimal numbers)]}."""
    out = {}
    notes = []
    for lean_id, fn, _ in TABLES:
        with open(os.path.join(_data_folder(), fn)) as f:
            pairs = json.load(f, object_pairs_hook=list, parse_float=Decimal, parse_int=Decimal)
        ents = []
        for name, rec in pairs:
            rec = dict(rec)
            ents.append((name, rec))
        out[lean_id] = ents
    return out, notes


def scaled_vertices(rec, notes, where):
    vs = []
    for row in rec.get("vertices", []):
        r = []
        for x in row:
            sx = Decimal(x) * SCALE
            ix = int(sx.to_integral_value())
            if sx != ix:
                notes.append("%s: coordinate %s is not exact at 1e-18, rounded" % (where, x))
            r.append(ix)
        vs.append(tuple(r))
    return vs


def impl_faces(fam, name):
    """faces of the shape the implementation builds for `name` (None when it raises)."""
    try:
        with warnings.catch_warnings():
            warnings.simplefilter("ignore")
            s = fam.get_shape(name)
        return [[int(i) for i in f] for f in s.faces]
    except Exception:
        return None


# ------------------------------------------------------------------------------------------ translator


def _lean_str(s):
    return json.dumps(s, ensure_ascii=False)


def _int_lean(v):
    # raw constructors + raw literals: nothing to unfold for the kernel
    return ".ofNat (nat_lit %d)" % v if v >= 0 else ".negSucc (nat_lit %d)" % (-v - 1)


def _entry_lean(ident, name, typ, verts, faces, source, ref, short=""):
    vs = ", ".join("⟨%s, %s, %s⟩" % tuple(_int_lean(c) for c in v) for v in verts)
    fs = ", ".join("[" + ", ".join("nat_lit %d" % i for i in f) + "]" for f in faces)
    return ("def %s : Tab.Entry :=\n  { name := %s, type := %s, source := %s, ref := %s, short := %s,\n"
            "    verts := [%s],\n    faces := [%s] }\n" % (ident, _lean_str(name), _lean_str(typ), _lean_str(source),
                                                         _lean_str(ref), _lean_str(short), vs, fs))


def _chunks(items):
    """consecutive chunks balanced by kernel work (~ faces x vertices), at most CHUNK entries each"""
    out, cur, w = [], [], 0
    for it in items:
        wi = len(it["faces"]) * len(it["verts"]) + 50
        if cur and (w + wi > CHUNK_WEIGHT or len(cur) >= CHUNK):
            out.append(cur)
            cur, w = [], 0
        cur.append(it)
        w += wi
    if cur or not out:
        out.append(cur)
    return out


def table_entries(fams=None):
    """{lean_id: [entry dict]} : JSON read independently + the implementation's face certificate"""
    fams = fams or _families()
    tables, notes = read_json_tables()
    out = {}
    for lean_id, fn, _ in TABLES:
        items = []
        for j, (name, rec) in enumerate(tables[lean_id]):
            verts = scaled_vertices(rec, notes, "%s[%s]" % (fn, name))
            faces = impl_faces(fams[lean_id], name)
            if faces is None:
                faces = []
                notes.append("%s[%s]: get_shape raised; empty certificate" % (fn, name))
            src = rec.get("source") or ""
            ref = rec.get("name") or ""     # recorded whether or not the record cites a family
            typ = rec.get("type")
            short = rec.get("short_name") or rec.get("short_code") or ""
            items.append({"short": short if isinstance(short, str) else "", "ident": "%s_%d" % (lean_id, j), "name": name, "type": typ if isinstance(typ, str) else "",
                          "verts": verts, "faces": faces, "source": src if isinstance(src, str) else "",
                          "ref": ref if isinstance(ref, str) else ""})
        out[lean_id] = items
    return out, notes


def generate(fams=None):
    """-> ({relative file name: content}, notes, sizes)"""
    entries, notes = table_entries(fams)
    files = {}
    sizes = {}
    index_imports = []
    index_defs = []
    check_imports = []
    check_thms = []
    for lean_id, fn, _ in TABLES:
        items = entries[lean_id]
        sizes[lean_id] = len(items)
        cap = lean_id[0].upper() + lean_id[1:]
        pred = PREDICATE[lean_id]
        chunk_ids = []
        for k, chunk in enumerate(_chunks(items)):
            mod = "Tables%s_%d" % (cap, k)
            body = ["import CoxeterVerif.Model.Tabulated",
                    "/-! GENERATED by harness/c18.py translate() from coxeter/families/data/%s — do not edit. -/" % fn,
                    "namespace Tables", ""]
            for it in chunk:
                body.append(_entry_lean(it["ident"], it["name"], it["type"], it["verts"], it["faces"], it["source"],
                                        it["ref"], it["short"]))
            ids = [it["ident"] for it in chunk]
            body.append("def %s_chunk%d : List Tab.Entry := [%s]" % (lean_id, k, ", ".join(ids)))
            body.append("\nend Tables\n")
            files[mod + ".lean"] = "\n".join(body)
            chunk_ids.append("%s_chunk%d" % (lean_id, k))
            index_imports.append("import CoxeterVerif.Generated." + mod)
            # the kernel-evaluated obligations of this chunk: one theorem per entry (bounded memory, and a failing
            # build names the entry), assembled into the chunk statement
            cmod = "Check%s_%d" % (cap, k)
            cb = ["import CoxeterVerif.Spec.Textbook",
                  "import CoxeterVerif.Generated." + ("Tables" if lean_id == "science1220869" else mod),
                  "/-! GENERATED by harness/c18.py translate() — do not edit.",
                  "    Kernel evaluation of the C18 obligations of one chunk of %s. -/" % fn,
                  "set_option maxRecDepth 1000000", "set_option linter.unusedSimpArgs false", "namespace Tables", ""]
            for it in chunk:
                cb.append("/-- %s -/\ntheorem %s_ok : %s %s = true := by decide +kernel" % (
                    it["name"].replace("-/", "- /"), it["ident"], pred, it["ident"]))
            cb += ["", "theorem %s_chunk%d_ok : %s_chunk%d.all (%s) = true := by" % (lean_id, k, lean_id, k, pred),
                   "  simp only [%s_chunk%d, List.all_cons, List.all_nil, Bool.and_self, Bool.and_true%s]" % (
                       lean_id, k, "".join(", %s_ok" % i for i in ids)),
                   "", "end Tables", ""]
            files[cmod + ".lean"] = "\n".join(cb)
            check_imports.append("import CoxeterVerif.Generated." + cmod)
        check_thms.append(
            "theorem %s_ok : %s.all (%s) = true := by\n  simp only [%s, List.all_append, %s, Bool.and_self]\n" % (
                lean_id, lean_id, pred, lean_id, ", ".join("%s_ok" % c for c in chunk_ids)))
        index_defs.append("/-- `%s`, %d entries in file order -/\ndef %s : List Tab.Entry := %s\n" % (
            fn, len(items), lean_id, " ++ ".join(chunk_ids) if chunk_ids else "[]"))
    # the index: whole tables, the file-name -> table map used by `source`, and the DOI maps
    from coxeter.families import doi_data_repositories as ddr
    to_file = ", ".join("(%s, [%s])" % (_lean_str(k), ", ".join(_lean_str(x) for x in v))
                        for k, v in ddr._DOI_TO_FILE.items())
    to_fam = ", ".join("(%s, [%s])" % (_lean_str(k), ", ".join(_lean_str(c.__name__) for c in v))
                       for k, v in ddr._DOI_TO_FAMILY.items())
    idx = index_imports + [
        "/-! GENERATED by harness/c18.py translate() — do not edit. -/", "namespace Tables", ""] + index_defs + [
        "/-- table named by a `source` field -/",
        "def bySource (s : String) : List Tab.Entry :=",
    ] + ["  %s s = %s then %s" % ("if" if i == 0 else "else if", _lean_str(fn), lean_id)
         for i, (lean_id, fn, _) in enumerate(TABLES)] + [
        "  else []", "",
        "/-- `_DOI_TO_FILE`, `_DOI_TO_FAMILY` (by introspection of coxeter.families.doi_data_repositories) -/",
        "def doiMaps : Tab.DoiMaps := { toFile := [%s], toFamily := [%s] }" % (to_file, to_fam),
        "", "end Tables", ""]
    files["Tables.lean"] = "\n".join(idx)
    files["Checks.lean"] = "\n".join(
        ["import CoxeterVerif.Generated.Tables"] + check_imports + [
            "/-! GENERATED by harness/c18.py translate() — do not edit.",
            "    The chunk obligations assembled into one statement per table. -/",
            "set_option linter.unusedSimpArgs false", "namespace Tables", ""]
        + check_thms + ["end Tables", ""])
    return files, notes, sizes


def _digest(files):
    h = hashlib.sha1()
    for k in sorted(files):
        h.update(k.encode())
        h.update(files[k].encode())
    return h.hexdigest()


def translate(ctx):
    files, notes, sizes = generate()
    os.makedirs(GEN_DIR, exist_ok=True)
    changed = []
    for fn, content in files.items():
        p = os.path.join(GEN_DIR, fn)
        old = open(p).read() if os.path.exists(p) else None
        if old != content:
            with open(p, "w") as f:
                f.write(content)
            changed.append(fn)
    # stale chunks of a table that shrank.  ONLY files with this property's own prefixes are ever touched:
    # other properties keep their generated files (e.g. Planes.lean of C17) in the same directory.
    for fn in os.listdir(GEN_DIR):
        if fn.endswith(".lean") and fn not in files and fn.startswith(OWN_PREFIXES):
            os.unlink(os.path.join(GEN_DIR, fn))
            changed.append(fn)
    digest = _digest(files)
    last_ok = open(OK_MARK).read().strip() if os.path.exists(OK_MARK) else ""
    # "changed" for main.py = the tables are not the ones the last successful build proved things about
    ctx.generated_changed = bool(changed) or digest != last_ok
    ctx.extra["generated"] = {"files": len(files), "rewritten": sorted(changed), "sha1": digest, "sizes": sizes,
                              "notes": notes[:20]}
    ctx._c18_digest = digest


# ------------------------------------------------------------------------------------------ oracle helpers

TOL = 1e-9
CLASS_NAME = {"platonic": "PlatonicFamily", "archimedean": "ArchimedeanFamily", "catalan": "CatalanFamily",
              "johnson": "JohnsonFamily", "prismAntiprism": "PrismAntiprismFamily",
              "pyramidDipyramid": "PyramidDipyramidFamily", "science1220869": "DOI_SHAPE_REPOSITORIES[science1220869]"}
FILE_TO_ID = {fn: lean_id for lean_id, fn, _ in TABLES}
WHICH = {"platonic": 0, "archimedean": 1, "catalan": 2, "johnson": 3, "prismAntiprism": 4, "pyramidDipyramid": 5,
         "science1220869": 6}


def johnson_key(short):
    """'J5', 'J05' -> 'J5' (the JSON writes the numbers with and without a leading zero)"""
    if isinstance(short, str) and len(short) >= 2 and short[0] == "J" and short[1:].isdigit() and short.isascii():
        return "J%d" % int(short[1:])
    return None


def s2codes(s):
    return L([ord(ch) for ch in s])


def entry_tokens(verts_int, faces):
    return [L([[int(c) for c in v] for v in verts_int]), L([L([int(i) for i in f]) for f in faces])]


def _quiet(fn, *a):
    with warnings.catch_warnings():
        warnings.simplefilter("ignore")
        return fn(*a)


def _near(metric, tol):
    """(decision, near_boundary): decision = metric <= tol; near when within a decade of the tolerance"""
    return bool(metric <= tol), bool(0.1 * tol < metric < 10 * tol)


def cert_predicates(v, faces):
    """The predicates of Spec/Textbook.lean in floating point on the SAME data (vertices, face certificate).
    -> ({name: bool}, {name: near_boundary}, info)"""
    v = np.asarray(v, dtype=float)
    n = len(v)
    idx = [i for f in faces for i in f]
    out, near = {}, {}
    in_range = all(0 <= i < n for i in idx)
    out["uses"] = bool(n <= 4096 and in_range and set(idx) == set(range(n)))
    edges = [(f[i], f[(i + 1) % len(f)]) for f in faces for i in range(len(f))]
    cnt = {}
    for e in edges:
        cnt[e] = cnt.get(e, 0) + 1
    out["closed"] = bool(all(len(f) >= 3 for f in faces) and all(a != b for a, b in edges)
                         and all(c == 1 for c in cnt.values()) and all(cnt.get((b, a), 0) == 1 for a, b in edges))
    out["euler"] = bool(2 * n + 2 * len(faces) == len(edges) + 4)
    info = {"V": n, "E2": len(edges), "F": len(faces)}
    if not in_range or not faces:
        for k in ("convex", "posvol", "unitvol", "edges", "diagonals", "insphere"):
            out[k] = None
        return out, near, info
    worst = 0.0
    convex = True
    normals = []
    for f in faces:
        p = v[f]
        nv = np.zeros(3)
        for i in range(len(f)):
            nv += np.cross(p[i], p[(i + 1) % len(f)])
        nn = np.linalg.norm(nv)
        normals.append((nv, nn, p[0]))
        if nn == 0:
            convex = False
            continue
        d_all = (v - p[0]) @ nv / nn
        d_face = np.abs((p - p[0]) @ nv / nn)
        worst = max(worst, float(d_all.max()), float(d_face.max()))
    ok, nb = _near(worst, TOL)
    out["convex"], near["convex"] = bool(convex and ok), nb
    vol6 = 0.0
    cnum = np.zeros(3)
    for f in faces:
        p = v[f]
        for i in range(1, len(f) - 1):
            d = float(np.linalg.det(np.array([p[0], p[i], p[i + 1]])))
            vol6 += d
            cnum += d * (p[0] + p[i] + p[i + 1])
    info["vol6"] = vol6
    out["posvol"] = bool(vol6 > 0)
    near["posvol"] = bool(abs(vol6) < 1e-7)
    out["unitvol"], near["unitvol"] = _near(abs(vol6 / 6 - 1), TOL)

    def all_near_first(ls):
        if not ls or ls[0] <= 0:
            return False, False
        m = max(abs(l - ls[0]) for l in ls) / ls[0]
        return _near(m, 2 * TOL)

    out["edges"], near["edges"] = all_near_first([float(np.sum((v[a] - v[b]) ** 2)) for a, b in edges])
    dg, dgn = True, False
    for f in faces:
        if len(f) <= 3:
            continue
        k = len(f)
        o, nb = all_near_first([float(np.sum((v[f[i]] - v[f[(i + 2) % k]]) ** 2)) for i in range(k)])
        dg, dgn = dg and o, dgn or nb
    out["diagonals"], near["diagonals"] = dg, dgn
    if vol6 > 0:
        c = cnum / (4 * vol6)
        hs = [float(np.dot(nv, p0 - c) / nn) if nn > 0 else -1.0 for nv, nn, p0 in normals]
        if min(hs) > 0:
            m = max(abs(h * h - hs[0] * hs[0]) for h in hs) / (hs[0] * hs[0])
            out["insphere"], near["insphere"] = _near(m, 2 * TOL)
        else:
            out["insphere"], near["insphere"] = False, False
    else:
        out["insphere"], near["insphere"] = False, False
    return out, near, info


def hull_facts(v, coplanar_tol=1e-9):
    """Independent facts about conv(v) from scipy's Qhull wrapper (nothing of coxeter involved):
    V (extreme points), E, F, census, volume, edge lengths, per-face regularity defect, in-radius spread."""
    v = np.asarray(v, dtype=float)
    hull = ConvexHull(v)
    groups = []
    for simp, eq in zip(hull.simplices, hull.equations):
        for g in groups:
            if np.all(np.abs(g["eq"] - eq) < coplanar_tol):
                g["simps"].append(simp)
                break
        else:
            groups.append({"eq": eq, "simps": [simp]})
    edges = set()
    census = {}
    reg_defect = 0.0
    # centroid of the solid from the hull's own tetrahedra (apex = interior point)
    o = v.mean(axis=0)
    tv, tc = 0.0, np.zeros(3)
    for simp in hull.simplices:
        a, b, c = v[simp]
        d = abs(float(np.linalg.det(np.array([a - o, b - o, c - o]))))
        tv += d
        tc += d * (a + b + c + o) / 4
    cen = tc / tv
    heights = []
    for g in groups:
        ec = {}
        for s in g["simps"]:
            for i in range(3):
                e = tuple(sorted((int(s[i]), int(s[(i + 1) % 3]))))
                ec[e] = ec.get(e, 0) + 1
        boundary = [e for e, c in ec.items() if c == 1]
        edges.update(boundary)
        k = len(boundary)
        census[k] = census.get(k, 0) + 1
        fv = sorted(set(i for e in boundary for i in e))
        pts = v[fv]
        fc = pts.mean(axis=0)
        r = np.linalg.norm(pts - fc, axis=1)
        sl = np.array([np.linalg.norm(v[a] - v[b]) for a, b in boundary])
        # regular polygon <=> equal sides and all corners at one distance from the face centre
        reg_defect = max(reg_defect, float((r.max() - r.min()) / r.mean()), float((sl.max() - sl.min()) / sl.mean()))
        nrm, off = g["eq"][:3], g["eq"][3]
        heights.append(-(float(np.dot(nrm, cen)) + float(off)))
    el = np.array([np.linalg.norm(v[a] - v[b]) for a, b in edges])
    heights = np.array(heights)
    return {"V": int(len(hull.vertices)), "E": len(edges), "F": len(groups), "census": census,
            "volume": float(hull.volume), "edge_spread": float((el.max() - el.min()) / el.mean()),
            "reg_defect": reg_defect,
            "inradius_spread": float((heights.max() - heights.min()) / abs(heights.mean())),
            "inradius_min": float(heights.min())}


def same_point_set(a, b, tol=TOL):
    a, b = np.asarray(a, float), np.asarray(b, float)
    if a.shape != b.shape:
        return False
    d = np.linalg.norm(a[:, None, :] - b[None, :, :], axis=2)
    return bool(np.all(d.min(axis=1) <= tol) and np.all(d.min(axis=0) <= tol))


# ------------------------------------------------------------------------------------------ per-entry check

def spec_row(lean_id, name, item, rec):
    """-> ((V, E, F, census) | None, description): the row of the Python copy of the hand-entered tables that says
    which solid the entry is.  None = the entry has no specification row.  (The rows of OTHER_SOLIDS are compared up
    to faces split by the six-digit coordinates, see eval_entry.)"""
    if lean_id in TEXTBOOK:
        return TEXTBOOK[lean_id].get(name), "the textbook row %r" % name
    if lean_id == "johnson":
        k = johnson_key(item["short"])
        return JOHNSON_FULL.get(k), "Johnson solid %s" % k
    if lean_id in ROWS_BY_TABLE:
        return ROWS_BY_TABLE[lean_id].get(name), "the row %r" % name
    # repository: key = code, `name` field = what it is, `source` = the family it cites
    src, ref = rec.get("source"), rec.get("name")
    k = johnson_key(name)
    if k is not None:
        row = JOHNSON_FULL.get(k)
        if src == "johnson.json" and row is not None and JOHNSON_BY_NAME.get(ref) != row:
            return None, "Johnson solid %s cited as %r" % (k, ref)
        if src == "johnson.json" and (not 1 <= int(k[1:]) <= 92 or JOHNSON_NAMES[int(k[1:]) - 1] != ref):
            return None, "Johnson solid %s cited under the name %r" % (k, ref)
        if src and src != "johnson.json":
            rows = ROWS_BY_TABLE.get(FILE_TO_ID.get(src), {})
            if rows.get(ref) != row:
                return None, "Johnson solid %s cited as %r of %s" % (k, ref, src)
        return row, "Johnson solid %s" % k
    if src:
        return ROWS_BY_TABLE.get(FILE_TO_ID.get(src), {}).get(ref), "the row %r of %s" % (ref, src)
    return OTHER_SOLIDS.get(ref), "the row %r of the other solids" % ref


LEAN_KEYS = ["uses", "uses_ref", "closed", "closed_ref", "euler", "convex", "convex_ref", "posvol", "unitvol",
             "edges", "diagonals", "insphere", "polyhedron"]


def lean_check(ctx, verts_int, faces):
    r = ctx.driver.Q("c18.check", *entry_tokens(verts_int, faces))
    d = dict(zip(LEAN_KEYS, r[:13]))
    d["V"], d["E2"], d["F"], d["vol6"] = r[13], r[14], r[15], r[16]
    d["census"] = r[17:30]
    return d


def compare_lean_float(ctx, case, lean, fl, near, what="c18.check"):
    """B: the Lean predicates (exact integers) against the same predicates in floating point"""
    for a, b in (("uses", "uses_ref"), ("closed", "closed_ref"), ("convex", "convex_ref")):
        if lean[a] != lean[b]:
            ctx.disagree(what + ":fast-vs-reference:" + a, case, [lean[a], lean[b]])
    for k in ("uses", "closed", "euler", "convex", "posvol", "unitvol", "edges", "diagonals", "insphere"):
        if fl.get(k) is None:
            continue
        if near.get(k):
            ctx.skipped_near_boundary += 1
            continue
        if bool(lean[k]) != bool(fl[k]):
            ctx.disagree(what + ":" + k, case, {"lean": lean[k], "float": fl[k]})


def eval_entry(ctx, tables_json, entries, fams, lean_id, name):
    """all clauses of the property for one entry; returns nothing, reports through ctx"""
    case = {"table": lean_id, "name": name, "kind": "entry"}
    fam = fams[lean_id]
    cls = CLASS_NAME[lean_id]
    rec = tables_json[lean_id + ":dict"].get(name)
    if rec is None:
        ctx.fail("TabulatedGSDShapeFamily.names:not-in-file:" + lean_id, "%s lists a name that is not a key of the JSON "
                 "file" % cls, case, name)
        return
    item = next(it for it in entries[lean_id] if it["name"] == name)
    jv = np.array([[float(c) for c in row] for row in rec["vertices"]], dtype=float)
    try:
        shape = _quiet(fam.get_shape, name)
    except Exception as e:
        ctx.fail("TabulatedGSDShapeFamily.get_shape:raises:" + lean_id, "%s.get_shape(%r) raised %s" % (
            cls, name, exc_kind(e)), case, repr(e))
        return
    if type(shape).__name__ != "ConvexPolyhedron":
        ctx.fail("TabulatedGSDShapeFamily.get_shape:not-ConvexPolyhedron:" + lean_id, "%s.get_shape(%r) is a %s" % (
            cls, name, type(shape).__name__), case, type(shape).__name__)
        return
    sv = np.asarray(shape.vertices, dtype=float)
    if sv.shape != jv.shape or not np.array_equal(sv, jv):
        ctx.fail("TabulatedGSDShapeFamily.get_shape:vertices-differ-from-record:" + lean_id,
                 "%s.get_shape(%r) does not have the vertices stored under that name" % (cls, name), case,
                 {"shape": list(sv.shape), "record": list(jv.shape),
                  "maxdiff": float(np.abs(sv - jv).max()) if sv.shape == jv.shape else None})
    faces = [[int(i) for i in f] for f in shape.faces]
    ctx.count("table:" + lean_id)
    ctx.count("vertices:%s" % ("<=12" if len(sv) <= 12 else "<=30" if len(sv) <= 30 else "<=60" if len(sv) <= 60
                               else ">60"))

    # ---- B: Lean predicates on (JSON integers, implementation's faces) vs the same in floating point
    lean = lean_check(ctx, item["verts"], faces)
    fl, near, info = cert_predicates(jv, faces)
    compare_lean_float(ctx, case, lean, fl, near)
    if (lean["V"], lean["E2"], lean["F"]) != (info["V"], info["E2"], info["F"]):
        ctx.disagree("c18.check:counts", case, [lean["V"], lean["E2"], lean["F"], info])
    if "vol6" in info and not ctx.close_enough(lean["vol6"] / 1e54, info["vol6"], 6.0):
        ctx.disagree("c18.check:vol6", case, [lean["vol6"] / 1e54, info["vol6"]])
    r = ctx.driver.Q("c18.table", WHICH.get(lean_id, 7), s2codes(name), s2codes(item["short"]), s2codes(item["source"]),
                     s2codes(item["ref"]), *entry_tokens(item["verts"], faces))
    lean_table_ok, lean_textbook_ok, lean_name_ok = r[0], r[1], r[2]
    # the certificate clause itself (this is what the kernel proves per entry)
    if not lean["polyhedron"]:
        ctx.fail("TabulatedGSDShapeFamily.get_shape:not-closed-convex-surface:" + lean_id,
                 "the faces %s builds for %r are not a closed oriented convex surface on exactly the entry's vertices "
                 "(uses=%s closed=%s euler=%s convex=%s vol>0=%s)" % (cls, name, lean["uses"], lean["closed"],
                                                                       lean["euler"], lean["convex"], lean["posvol"]),
                 case, {k: lean[k] for k in LEAN_KEYS})

    # ---- C: independent facts about the implementation's shape
    try:
        hf = hull_facts(sv)
    except Exception as e:
        ctx.fail("TabulatedGSDShapeFamily.get_shape:degenerate:" + lean_id, "the vertices of %r have no 3-D hull" % name,
                 case, repr(e))
        return
    if hf["V"] != len(sv) or (hf["V"], 2 * hf["E"], hf["F"]) != (lean["V"], lean["E2"], lean["F"]) \
            or (shape.num_vertices, shape.num_edges, shape.num_faces) != (hf["V"], hf["E"], hf["F"]):
        ctx.fail("TabulatedGSDShapeFamily.get_shape:not-closed-convex-surface:" + lean_id,
                 "vertex/edge/face structure of %s[%r] differs from the convex hull of its vertices" % (cls, name), case,
                 {"hull": [hf["V"], hf["E"], hf["F"]], "faces": [lean["V"], lean["E2"] // 2, lean["F"]],
                  "reported": [shape.num_vertices, shape.num_edges, shape.num_faces], "stored": len(sv)})
    # the specification row of this entry (second, Python copy of the hand-entered tables): EVERY entry of every
    # table must have one, and must have its (V, E, F) and face census
    tb, how = spec_row(lean_id, name, item, rec)
    got = (hf["V"], hf["E"], hf["F"], {k: c for k, c in hf["census"].items()})
    cert = (lean["V"], lean["E2"] // 2, lean["F"], {k: c for k, c in enumerate(lean["census"]) if c})
    ctx.count("spec-row:" + ("none" if tb is None else "johnson-number" if how.startswith("Johnson") else
                             "other-solids" if how.endswith("other solids") else
                             "cited:" + str(rec.get("source")) if lean_id == "science1220869" else "by-name"))
    split_ok = None
    if tb is not None and lean_id == "science1220869" and how.endswith("of the other solids"):
        # the repository's solids outside the families are given to six significant digits: faces are planar to ~1e-6
        # only and the hull splits them.  Demanded: exactly the row's vertices; merging the faces that are coplanar
        # within 1e-4 gives exactly the row; the certificate has as many extra edges as extra faces.
        ctx.count("other-solid:" + ("exact" if got == tb else "faces-split"))
        hc = hull_facts(sv, coplanar_tol=1e-4)
        coarse = (hc["V"], hc["E"], hc["F"], {k: c for k, c in hc["census"].items()})
        split_ok = bool(cert[0] == tb[0] and cert[2] >= tb[2] and cert[1] - tb[1] == cert[2] - tb[2])
        if coarse != tb or not split_ok:
            ctx.fail("TabulatedGSDShapeFamily.get_shape:textbook-counts:" + lean_id,
                     "%s[%r] is not %s (faces merged within 1e-4)" % (cls, name, how), case,
                     {"textbook": tb, "hull_1e-4": coarse, "faces": cert})
        if bool(lean_textbook_ok) != split_ok:
            ctx.disagree("c18.table:textbook-split", case, [lean_textbook_ok, cert, tb])
    if split_ok is not None:
        pass
    elif tb is None:
        ctx.fail("TabulatedGSDShapeFamily.names:%s:%s" % ("not-a-textbook-solid" if lean_id in UNITVOL else "no-spec-row",
                                                           lean_id),
                 "%s[%r] has no row in the hand-entered tables (%s): the name does not say which solid it is" % (
                     cls, name, how), case, {"name": name, "short": item["short"], "source": item["source"],
                                             "ref": item["ref"]})
    elif got != tb or cert != tb:
        ctx.fail("TabulatedGSDShapeFamily.get_shape:%s:%s" % ("johnson-counts" if lean_id == "johnson" else
                                                              "textbook-counts", lean_id),
                 "%s[%r] does not have the vertex/edge/face counts and face census of %s" % (cls, name, how), case,
                 {"textbook": tb, "hull": got, "faces": cert})
    if split_ok is None and bool(lean_textbook_ok) != (tb is not None and cert == tb):
        ctx.disagree("c18.table:textbook", case, [lean_textbook_ok, cert, tb])
    if lean_id in UNITVOL:
        vols = (hf["volume"], float(shape.volume), lean["vol6"] / 6e54)
        if any(abs(x - 1) > TOL for x in vols):
            ctx.fail("TabulatedGSDShapeFamily.get_shape:unit-volume:" + lean_id,
                     "%s[%r] does not have unit volume" % (cls, name), case, list(vols))
    if lean_id in REGULAR:
        if hf["edge_spread"] > TOL or not lean["edges"]:
            ctx.fail("TabulatedGSDShapeFamily.get_shape:equal-edges:" + lean_id,
                     "%s[%r] does not have equal edge lengths" % (cls, name), case, [hf["edge_spread"], lean["edges"]])
        if hf["reg_defect"] > TOL or not (lean["edges"] and lean["diagonals"] and lean["convex"]):
            ctx.fail("TabulatedGSDShapeFamily.get_shape:regular-faces:" + lean_id,
                     "%s[%r] has a face that is not a regular polygon" % (cls, name), case,
                     [hf["reg_defect"], lean["edges"], lean["diagonals"]])
    name_ok = True
    if lean_id == "johnson":
        k = johnson_key(item["short"])
        name_ok = k is not None and 1 <= int(k[1:]) <= 92 and JOHNSON_NAMES[int(k[1:]) - 1] == name
        if not name_ok:
            ctx.fail("TabulatedGSDShapeFamily.names:johnson-name:johnson",
                     "JohnsonFamily[%r] carries the number %s, which is not Johnson's number of that name" % (
                         name, item["short"]), case, [name, item["short"]])
        if bool(lean_name_ok) != name_ok:
            ctx.disagree("c18.table:johnson-name", case, [lean_name_ok, name_ok])
    if lean_id == "catalan":
        if hf["inradius_spread"] > TOL or hf["inradius_min"] <= 0 or not lean["insphere"]:
            ctx.fail("TabulatedGSDShapeFamily.get_shape:insphere:catalan",
                     "CatalanFamily[%r] has no insphere (face planes not at one distance from the centroid)" % name,
                     case, [hf["inradius_spread"], lean["insphere"]])
    # per-table obligation as the kernel sees it must agree with the pieces
    want = bool(lean["polyhedron"]) and bool(lean_textbook_ok)
    if lean_id in ("platonic", "archimedean"):
        want = want and bool(lean["unitvol"]) and bool(lean["edges"] and lean["diagonals"])
    elif lean_id == "catalan":
        want = want and bool(lean["unitvol"]) and bool(lean["insphere"])
    elif lean_id == "johnson":
        want = want and bool(lean["edges"] and lean["diagonals"]) and bool(lean_name_ok)
    if bool(lean_table_ok) != want:
        ctx.disagree("c18.table:obligation", case, [lean_table_ok, want])

    # ---- repository entries that cite a family
    if lean_id == "science1220869":
        src = rec.get("source")
        if src:
            ctx.count("science:cites:" + str(src))
            sid = FILE_TO_ID.get(src)
            ref = rec.get("name")
            ok = False
            detail = None
            if sid is None or sid == "science1220869" or ref not in fams[sid].names:
                detail = "cited entry %r of %r does not exist" % (ref, src)
            else:
                other = _quiet(fams[sid].get_shape, ref)
                ok = same_point_set(sv, other.vertices)
                oitem = next(it for it in entries[sid] if it["name"] == ref)
                lsame = ctx.driver.Q("c18.same", L([list(p) for p in item["verts"]]), L([list(p) for p in oitem["verts"]]))[0]
                ojv = np.array([[float(c) for c in row] for row in tables_json[sid + ":dict"][ref]["vertices"]])
                if bool(lsame) != same_point_set(jv, ojv):   # B: same records on both sides
                    ctx.disagree("c18.same", case, [lsame, same_point_set(jv, ojv)])
                detail = "vertex sets differ"
            if not ok:
                ctx.fail("DOI_SHAPE_REPOSITORIES.get_shape:cited-family-entry:science1220869",
                         "repository entry %r cites %r of %s but does not coincide with it" % (name, ref, src), case,
                         detail)
        else:
            ctx.count("science:no-source")


# ------------------------------------------------------------------------------------------ family-level checks


def eval_family(ctx, tables_json, fams, lean_id):
    """names (count, file order, no repeats) and iteration (every name once, in order, same shape as get_shape)"""
    fam = fams[lean_id]
    cls = CLASS_NAME[lean_id]
    case = {"table": lean_id, "kind": "family"}
    names = list(fam.names)
    file_names = [n for n, _ in tables_json[lean_id]]
    if len(names) != EXPECTED_SIZES[lean_id]:
        ctx.fail("TabulatedGSDShapeFamily.names:count:" + lean_id, "%s has %d entries, the property says %d" % (
            cls, len(names), EXPECTED_SIZES[lean_id]), case, len(names))
    if len(set(names)) != len(names) or len(set(file_names)) != len(file_names):
        ctx.fail("TabulatedGSDShapeFamily.names:repeated:" + lean_id, "%s lists a name twice" % cls, case,
                 [n for n in names if names.count(n) > 1][:5])
    if names != file_names:
        ctx.fail("TabulatedGSDShapeFamily.names:file-order:" + lean_id,
                 "%s.names is not the key order of the JSON file" % cls, case,
                 [a for a, b in zip(names, file_names) if a != b][:5])
    try:
        it = _quiet(lambda: list(iter(fam)))
    except Exception as e:
        ctx.fail("TabulatedGSDShapeFamily.__iter__:raises:" + lean_id, "iterating %s raised %s" % (cls, exc_kind(e)),
                 case, repr(e))
        return
    it_names = [k for k, _ in it]
    if it_names != names:
        ctx.fail("TabulatedGSDShapeFamily.__iter__:names-once-in-order:" + lean_id,
                 "iter(%s) does not yield every name once in the order of names" % cls, case,
                 {"yielded": len(it_names), "names": len(names),
                  "first_difference": next(([a, b] for a, b in zip(it_names, names) if a != b), None)})
    for k, shp in it:
        try:
            ref = _quiet(fam.get_shape, k)
            same = (type(shp) is type(ref)) and np.array_equal(np.asarray(shp.vertices), np.asarray(ref.vertices))
        except Exception as e:
            same = False
        if not same:
            ctx.fail("TabulatedGSDShapeFamily.__iter__:same-shape-as-get_shape:" + lean_id,
                     "iter(%s) yields a different shape for %r than get_shape" % (cls, k),
                     {"table": lean_id, "name": k, "kind": "family"}, k)
            break
    # B: the model's iteration over the same keys
    m_names, m_iter, _ = model_family(ctx, [(n, "ConvexPolyhedron", False) for n in file_names], "")
    if m_names != file_names or [i for _, (c, i) in m_iter] != list(range(len(file_names))) \
            or any(c != 0 for _, (c, i) in m_iter):
        ctx.disagree("c18.family:iter", case, "model iteration differs from the file order")
    if it_names == names and names == file_names and m_names != it_names:
        ctx.disagree("c18.family:iter-vs-impl", case, [m_names[:3], it_names[:3]])


def model_family(ctx, records, query):
    """records: [(name, type or None, rounding)] -> (names, [(name, (class, payload|kind))], query result)"""
    toks = [len(records)]
    for name, typ, rounding in records:
        toks += [s2codes(name), 1 if typ is not None else 0, s2codes(typ or ""), 1 if rounding else 0]
    r = ctx.driver.Q("c18.family", *toks, s2codes(query))
    pos = [0]

    def take():
        x = r[pos[0]]
        pos[0] += 1
        return x

    def take_str():
        n = take()
        return "".join(chr(take()) for _ in range(n))

    def take_shape():
        c = take()
        if c == -1:
            return (-1, take_str())
        return (c, take())

    n = take()
    it = []
    for _ in range(n):
        k = take_str()
        it.append((k, take_shape()))
    q = take_shape()
    return [k for k, _ in it], it, q


def impl_class_code(fn):
    try:
        s = _quiet(fn)
    except Exception as e:
        return (-1, exc_kind(e))
    nm = type(s).__name__
    return (0 if nm == "ConvexPolyhedron" else 1 if nm == "ConvexSpheropolyhedron" else 2, nm)


def unknown_name_probes(ctx, fams, lean_id):
    fam = fams[lean_id]
    names = list(fam.names)
    rng = ctx.rng
    probes = ["", "No Such Solid", names[0].lower(), names[0] + " ", " " + names[-1], names[0][:-1], "cube", "P00",
              "J93", "0", names[-1].upper()]
    for _ in range(ctx.budget(6, 60)):
        n = int(rng.integers(1, 12))
        probes.append("".join(chr(int(c)) for c in rng.integers(32, 127, size=n)))
    for q in probes:
        if q in names:
            continue
        case = {"table": lean_id, "name": q, "kind": "unknown-name"}
        ctx.case(case, nontrivial=False)
        ctx.count("probe:unknown-name")
        got = impl_class_code(lambda: fam.get_shape(q))
        if got != (-1, "KeyError"):
            ctx.fail("TabulatedGSDShapeFamily.get_shape:unknown-name-no-KeyError:" + lean_id,
                     "%s.get_shape(%r) did not raise KeyError" % (CLASS_NAME[lean_id], q), case, list(got))
        _, _, mq = model_family(ctx, [(n, "ConvexPolyhedron", False) for n in names], q)
        if mq != (-1, "KeyError") or (got[0] == -1 and got[1] != mq[1]):
            ctx.disagree("c18.family:unknown-name", case, [list(mq), list(got)])


def synthetic_family(ctx):
    """B for get_shape/__iter__/from_gsd_type_shapes on families built here (classes and error kinds)"""
    from coxeter.families import TabulatedGSDShapeFamily
    cube = [[x, y, z] for x in (0, 1) for y in (0, 1) for z in (0, 1)]
    tet = [[0, 0, 0], [1, 0, 0], [0, 1, 0], [0, 0, 1]]
    pool = [
        ("poly", {"type": "ConvexPolyhedron", "vertices": cube, "extra": 1}, ("ConvexPolyhedron", False)),
        ("round", {"type": "ConvexPolyhedron", "vertices": tet, "rounding_radius": 0.25}, ("ConvexPolyhedron", True)),
        ("ball", {"type": "Sphere", "diameter": 2.0}, ("Sphere", False)),
        ("egg", {"type": "Ellipsoid", "a": 1.0, "b": 2.0, "c": 3.0}, ("Ellipsoid", False)),
        ("mesh", {"type": "Mesh", "vertices": tet, "indices": [[0, 2, 1], [0, 1, 3], [0, 3, 2], [1, 2, 3]]},
         ("Mesh", False)),
        ("untyped", {"vertices": cube}, (None, False)),
        ("foo", {"type": "Foo", "vertices": cube}, ("Foo", False)),
        ("lower", {"type": "convexpolyhedron", "vertices": cube}, ("convexpolyhedron", False)),
    ]
    for _ in range(ctx.budget(4, 40)):
        k = int(ctx.rng.integers(1, len(pool) + 1))
        pick = [pool[i] for i in ctx.rng.permutation(len(pool))[:k]]
        data = {n: d for n, d, _ in pick}
        fam = TabulatedGSDShapeFamily(data)
        recs = [(n, t[0], t[1]) for n, _, t in pick]
        q = [n for n, _, _ in pool][int(ctx.rng.integers(0, len(pool)))]
        case = {"kind": "synthetic-family", "records": [n for n, _, _ in pick], "query": q}
        ctx.case(case)
        ctx.count("probe:synthetic-family")
        m_names, m_iter, m_q = model_family(ctx, recs, q)
        if m_names != list(fam.names):
            ctx.disagree("c18.family:names", case, [m_names, list(fam.names)])
        for (k_, (mc, mp)) in m_iter:
            got = impl_class_code(lambda: fam.get_shape(k_))
            if (mc, mp if mc == -1 else None) != (got[0], got[1] if got[0] == -1 else None):
                ctx.disagree("c18.family:get_shape-class", case, [k_, [mc, mp], list(got)])
        got = impl_class_code(lambda: fam.get_shape(q))
        if (m_q[0], m_q[1] if m_q[0] == -1 else None) != (got[0], got[1] if got[0] == -1 else None):
            ctx.disagree("c18.family:query", case, [q, list(m_q), list(got)])


def doi_probes(ctx):
    from coxeter import families as cf
    from coxeter.families import doi_data_repositories as ddr
    to_file = {k: list(v) for k, v in ddr._DOI_TO_FILE.items()}
    to_fam = {k: [c.__name__ for c in v] for k, v in ddr._DOI_TO_FAMILY.items()}
    known = list(to_file) + [k for k in to_fam if k not in to_file]
    unknown = ["", "10.0000/nothing", DOI + " ", DOI.upper() if DOI.upper() != DOI else DOI + "x", DOI[:-1],
               "science1220869", "10.1126/science.1220869.json", "doi:" + DOI]
    # a DOI is an opaque key: the property's "unknown DOI" is any string that is not EXACTLY a key of the two maps.
    # Strings that merely CONTAIN a known DOI (other article numbers, supplements, resolver URLs, other case or
    # white space) are different keys and must raise KeyError like any other.
    for kd in known:
        unknown += [kd + "0", kd + "1", kd + ".sm", kd + "/suppl_file", kd + "/", "1" + kd, "x" + kd, kd[1:], kd[:-1],
                    kd.replace("/", "/x", 1), " " + kd, kd + " ", "\t" + kd, kd + "\n", " " + kd + " ",
                    "doi:" + kd, "DOI:" + kd, "doi: " + kd, "https://doi.org/" + kd, "http://dx.doi.org/" + kd,
                    "https://doi.org/" + kd + "#abstract", kd.upper(), kd.lower(), kd.swapcase(), kd + kd,
                    kd.replace(".", "", 1), kd.replace("/", "%2F")]
    ctx.count("probe:doi-contains-known", 27 * len(known))
    for _ in range(ctx.budget(5, 50)):
        n = int(ctx.rng.integers(1, 25))
        unknown.append("".join(chr(int(c)) for c in ctx.rng.integers(33, 127, size=n)))
    unknown = [u for u in dict.fromkeys(unknown) if u not in known]
    # sequence through ONE fresh dictionary (the module-level one is left alone): unknown, known, unknown, known again
    seq = []
    for i, u in enumerate(unknown):
        seq.append(u)
        if i < len(known):
            seq.append(known[i])
    seq += known + unknown[:2]
    d = cf._KeyedDefaultDict(cf._doi_shape_collection_factory)
    impl = []
    for key in seq:
        case = {"kind": "doi", "key": key}
        ctx.case(case, nontrivial=key in known)
        ctx.count("probe:doi-known" if key in known else "probe:doi-unknown")
        try:
            v = _quiet(lambda: d[key])
            items = [(0, "file") if type(x).__name__ == "TabulatedGSDShapeFamily" else (1, type(x).__name__) for x in v]
            impl.append((0, items, len(d)))
            if key not in known:
                ctx.fail("DOI_SHAPE_REPOSITORIES.__getitem__:unknown-doi-no-KeyError",
                         "an unknown DOI %r did not raise KeyError" % key, case, repr(v)[:200])
            elif not items or d[key] is not v:
                ctx.fail("DOI_SHAPE_REPOSITORIES.__getitem__:known-doi", "a known DOI gives no families or is not "
                         "cached", case, key)
        except Exception as e:
            impl.append((1, exc_kind(e), len(d)))
            if key in known:
                ctx.fail("DOI_SHAPE_REPOSITORIES.__getitem__:known-doi", "known DOI %r raised %s" % (key, exc_kind(e)),
                         case, repr(e))
            elif exc_kind(e) != "KeyError":
                ctx.fail("DOI_SHAPE_REPOSITORIES.__getitem__:unknown-doi-no-KeyError",
                         "unknown DOI %r raised %s, not KeyError" % (key, exc_kind(e)), case, repr(e))
            elif key in d:
                ctx.fail("DOI_SHAPE_REPOSITORIES.__getitem__:unknown-doi-stored",
                         "a failed lookup of %r left a key in the dictionary" % key, case, key)
    # the module-level object answers the same way for unknown keys, and never lists one afterwards
    for key in ["10.0000/nothing"] + [k + sfx for k in known for sfx in ("0", ".sm")] + ["doi:" + k for k in known]:
        if key in known:
            continue
        try:
            cf.DOI_SHAPE_REPOSITORIES[key]
            ctx.fail("DOI_SHAPE_REPOSITORIES.__getitem__:unknown-doi-no-KeyError", "DOI_SHAPE_REPOSITORIES accepted "
                     "the unknown DOI %r" % key, {"kind": "doi", "key": key}, "")
        except KeyError:
            pass
        except Exception as e:
            ctx.fail("DOI_SHAPE_REPOSITORIES.__getitem__:unknown-doi-no-KeyError", "DOI_SHAPE_REPOSITORIES raised %s "
                     "for the unknown DOI %r" % (exc_kind(e), key), {"kind": "doi", "key": key}, repr(e))
    stray = [k for k in cf.DOI_SHAPE_REPOSITORIES if k not in known]
    if stray:
        ctx.fail("DOI_SHAPE_REPOSITORIES.__getitem__:unknown-doi-stored", "DOI_SHAPE_REPOSITORIES lists keys that are "
                 "not known DOIs", {"kind": "doi", "key": stray[0]}, stray[:5])
    # B: the model through the same sequence
    def mp(m):
        return L([[s2codes(k), L([s2codes(x) for x in v])] for k, v in m.items()])
    r = ctx.driver.Q("c18.doi", mp(to_file), mp(to_fam), L([s2codes(k) for k in seq]))
    pos = 0
    model = []
    for _ in seq:
        tag = r[pos]; pos += 1
        if tag == 0:
            n = r[pos]; pos += 1
            items = []
            for _ in range(n):
                kind = r[pos]; pos += 1
                ln = r[pos]; pos += 1
                sname = "".join(chr(c) for c in r[pos:pos + ln]); pos += ln
                items.append((0, "file") if kind == 0 else (1, sname))
            size = r[pos]; pos += 1
            model.append((0, items, size))
        else:
            ln = r[pos]; pos += 1
            kind = "".join(chr(c) for c in r[pos:pos + ln]); pos += ln
            size = r[pos]; pos += 1
            model.append((1, kind, size))
    if model != impl:
        k = next(i for i, (a, b) in enumerate(zip(model, impl)) if a != b)
        ctx.disagree("c18.doi", {"kind": "doi", "key": seq[k]}, {"model": repr(model[k]), "impl": repr(impl[k])})


def textbook_copies(ctx):
    """the two hand-entered copies (Spec/Textbook.lean, the tables above) must agree, row by row"""
    mine_by_which = [("platonic", TEXTBOOK["platonic"]), ("archimedean", TEXTBOOK["archimedean"]),
                     ("catalan", TEXTBOOK["catalan"]), ("johnson", JOHNSON_FULL), ("prismAntiprism", PRISM_ANTIPRISM),
                     ("pyramidDipyramid", PYRAMID_DIPYRAMID), ("otherSolids", OTHER_SOLIDS),
                     ("johnsonByName", JOHNSON_BY_NAME)]
    for which, (lean_id, mine) in enumerate(mine_by_which):
        r = ctx.driver.Q("c18.textbook", which)
        pos = 1
        rows = {}
        order = []
        for _ in range(r[0]):
            ln = r[pos]; pos += 1
            name = "".join(chr(c) for c in r[pos:pos + ln]); pos += ln
            v, e, f, nc = r[pos:pos + 4]; pos += 4
            cen = {}
            for _ in range(nc):
                cen[r[pos]] = r[pos + 1]; pos += 2
            cons = r[pos]; pos += 1
            rows[name] = (v, e, f, cen)
            order.append(name)
            if not cons:
                ctx.disagree("c18.textbook:inconsistent-row", {"kind": "textbook", "name": name}, [v, e, f, cen])
        if rows != mine or len(order) != len(mine):
            ctx.disagree("c18.textbook", {"kind": "textbook", "table": lean_id},
                         sorted(set(rows) ^ set(mine)) or [n for n in rows if rows[n] != mine[n]])
        if lean_id == "johnsonByName" and order != JOHNSON_NAMES:
            ctx.disagree("c18.textbook:johnson-names", {"kind": "textbook", "table": lean_id},
                         [a for a, b in zip(order, JOHNSON_NAMES) if a != b][:5])
        for name, (v, e, f, cen) in mine.items():   # the Python copy is internally consistent as well
            if v - e + f != 2 or sum(cen.values()) != f or sum(k * c for k, c in cen.items()) != 2 * e:
                ctx.disagree("c18.textbook:inconsistent-python-row", {"kind": "textbook", "name": name}, [v, e, f, cen])


def mutant_certificates(ctx, entries, tables_json):
    """corrupted certificates / vertices: the kernel-fast predicates must equal their reference definitions and the
    floating point copy (the `false` side of the predicates, which the real tables never exercise)"""
    rng = ctx.rng
    pool = [(lid, it) for lid in entries for it in entries[lid] if it["faces"] and len(it["verts"]) <= 40]
    n = ctx.budget(40, 600)
    rejected = 0
    for _ in range(n):
        lid, it = pool[int(rng.integers(0, len(pool)))]
        verts = [list(p) for p in it["verts"]]
        faces = [list(f) for f in it["faces"]]
        kind = ["swap", "reverse", "drop", "dup", "range", "move", "merge", "nudge"][int(rng.integers(0, 8))]
        fi = int(rng.integers(0, len(faces)))
        if kind == "swap":
            f = faces[fi]
            i, j = rng.choice(len(f), size=2, replace=False)
            f[i], f[j] = f[j], f[i]
        elif kind == "reverse":
            faces[fi] = faces[fi][::-1]
        elif kind == "drop":
            del faces[fi]
        elif kind == "dup":
            faces.append(list(faces[fi]))
        elif kind == "range":
            faces[fi][0] = len(verts) + int(rng.integers(0, 3))
        elif kind == "move":
            vi = int(rng.integers(0, len(verts)))
            s = float(rng.choice([-1, 1])) * 10.0 ** float(rng.uniform(-7, -2))
            verts[vi] = [int(round(c * (1 + s))) for c in verts[vi]]
        elif kind == "merge":
            verts.append([0, 0, 0])          # an interior point that no face uses
        elif kind == "nudge":
            vi = int(rng.integers(0, len(verts)))
            verts[vi] = [c + int(rng.integers(-500, 501)) for c in verts[vi]]   # 5e-16: far inside the tolerance
        case = {"kind": "mutant", "table": lid, "name": it["name"], "mutation": kind, "verts": verts, "faces": faces}
        ctx.case({"kind": "mutant", "table": lid, "name": it["name"], "mutation": kind, "face": fi})
        ctx.count("mutant:" + kind)
        lean = lean_check(ctx, verts, faces)
        fl, near, _ = cert_predicates(np.array(verts, dtype=float) / SCALE, faces)
        compare_lean_float(ctx, case, lean, fl, near, what="c18.check(mutant)")
        if not lean["polyhedron"]:
            rejected += 1
        if it.get("_base_ok") is None:
            it["_base_ok"] = bool(lean_check(ctx, it["verts"], it["faces"])["polyhedron"])
        if not it["_base_ok"]:
            continue   # the unmodified certificate is already broken (reported by eval_entry); nothing to expect
        if kind == "nudge" and not lean["polyhedron"]:
            ctx.disagree("c18.check(mutant):nudge-rejected", case, {k: lean[k] for k in LEAN_KEYS})
        if kind in ("reverse", "drop", "dup", "range", "merge") and lean["polyhedron"]:
            ctx.disagree("c18.check(mutant):accepted", case, kind)
    ctx.count("mutant:rejected", rejected)


# ------------------------------------------------------------------------------------------ histories
#
# The lookup of a family is a dict lookup in ITS OWN table: what it answers must not depend on what any family
# (the shipped singletons or a user-made TabulatedGSDShapeFamily) was asked before, and two answers must be
# independent objects.  A history is a list of steps over a "world" = the seven shipped families + user-made
# tables:   ["get", fam, name] | ["getmut", fam, name] (get, check, then mutate the returned shape in place)
#         | ["iter", fam].  Expected answers come from the JSON files / the user's own dict, never from a family.

SHIPPED = [lid for lid, _, _ in TABLES]


def _json_vertices(tables_json, lean_id, name):
    rec = tables_json[lean_id + ":dict"][name]
    return [[float(c) for c in row] for row in rec["vertices"]]


class HWorld:
    def __init__(self, fams, tables_json, user_specs):
        """user_specs: [[ [name, source table, source entry, scale], ... ], ...] (JSON-able)"""
        from coxeter.families import TabulatedGSDShapeFamily
        self.labels = list(SHIPPED)
        self.fams = [fams[lid] for lid in SHIPPED]
        self.records = []          # per family: ordered {name: vertices (float array)}
        for lid in SHIPPED:
            self.records.append({n: np.array(_json_vertices(tables_json, lid, n), dtype=float)
                                 for n, _ in tables_json[lid]})
        self.user_data = []
        for k, spec in enumerate(user_specs):
            data = {}
            for name, st, sn, scale in spec:
                v = (np.array(_json_vertices(tables_json, st, sn), dtype=float) * float(scale)).tolist()
                data[name] = {"type": "ConvexPolyhedron", "vertices": v}
            self.labels.append("user%d" % k)
            self.fams.append(TabulatedGSDShapeFamily(data))
            self.records.append({n: np.array(d["vertices"], dtype=float) for n, d in data.items()})
            self.user_data.append((data, json.loads(json.dumps(data))))
        self.user_specs = user_specs

    def table_label(self, i):
        return self.labels[i] if i < len(SHIPPED) else "user"

    def classify(self, i, verts, name=None):
        """which record of the world a returned vertex array is: 100000*family + position (the family's own record
        of that name first, then its other records, then the other families)"""
        verts = np.asarray(verts, dtype=float)
        own = self.records[i].get(name) if name is not None else None
        if own is not None and own.shape == verts.shape and np.array_equal(own, verts):
            return 100000 * i + list(self.records[i]).index(name)
        for j in [i] + [j for j in range(len(self.fams)) if j != i]:
            for pos, (n, v) in enumerate(self.records[j].items()):
                if v.shape == verts.shape and np.array_equal(v, verts):
                    return 100000 * j + pos
        return -2


def _mutate_in_place(shape):
    """what a user may do with a shape they were handed: rescale, move, overwrite coordinates"""
    try:
        v = shape.vertices
        if isinstance(v, np.ndarray) and v.flags.writeable:
            v *= 1.5
            v += 0.25
    except Exception:
        pass
    for attr, val in (("centroid", (7.0, -3.0, 2.0)),):
        try:
            setattr(shape, attr, val)
        except Exception:
            pass


def run_history(world, steps):
    """-> (answers, problems): answers[k] = list of (class code, payload | error kind) of step k (the observable the
    model predicts); problems = [(sig, what, step index, detail)] (implementation vs the tables themselves)."""
    answers, problems = [], []
    last = {}       # (fam, name) -> last shape handed out
    last_ok = {}    # (fam, name) -> the last answer was the table's own record
    mutated = set()
    for k, st in enumerate(steps):
        kind, i = st[0], int(st[1])
        fam, recs, lab = world.fams[i], world.records[i], world.table_label(i)
        cls = CLASS_NAME.get(world.labels[i], "TabulatedGSDShapeFamily(user table %s)" % world.labels[i])
        if kind == "iter":
            try:
                pairs = _quiet(lambda: list(iter(fam)))
            except Exception as e:
                problems.append(("TabulatedGSDShapeFamily.__iter__:raises-after-history:" + lab,
                                 "iterating %s raised %s" % (cls, exc_kind(e)), k, repr(e)))
                answers.append([(-1, exc_kind(e))])
                continue
            ans = []
            ok = [n for n, _ in pairs] == list(recs)
            for n, shp in pairs:
                code = world.classify(i, shp.vertices, n)
                ans.append((0 if type(shp).__name__ == "ConvexPolyhedron" else 2, code))
                if n not in recs or not np.array_equal(np.asarray(shp.vertices, dtype=float), recs[n]):
                    ok = False
            if not ok:
                problems.append(("TabulatedGSDShapeFamily.__iter__:not-own-records:" + lab,
                                 "iter(%s) does not yield its own table (names in order, each with the vertices stored "
                                 "under that name in THIS table) after the preceding queries" % cls, k,
                                 [n for n, _ in pairs][:5]))
            answers.append(ans)
            continue
        name = st[2]
        try:
            shp = _quiet(fam.get_shape, name)
        except Exception as e:
            answers.append([(-1, exc_kind(e))])
            if name in recs:
                problems.append(("TabulatedGSDShapeFamily.get_shape:raises-after-history:" + lab,
                                 "%s.get_shape(%r) raised %s after the preceding queries" % (cls, name, exc_kind(e)), k,
                                 repr(e)))
            elif exc_kind(e) != "KeyError":
                problems.append(("TabulatedGSDShapeFamily.get_shape:foreign-name-no-KeyError:" + lab,
                                 "%s.get_shape(%r) raised %s, not KeyError" % (cls, name, exc_kind(e)), k, repr(e)))
            continue
        verts = np.array(np.asarray(shp.vertices, dtype=float))
        code = world.classify(i, verts, name)
        answers.append([(0 if type(shp).__name__ == "ConvexPolyhedron" else 2, code)])
        if name not in recs:
            owner = world.labels[code // 100000] if code >= 0 else "?"
            problems.append(("TabulatedGSDShapeFamily.get_shape:foreign-name-no-KeyError:" + lab,
                             "%s.get_shape(%r) returned a %s with %d vertices (the record of %s) instead of raising "
                             "KeyError: %r is not a name of this table" % (cls, name, type(shp).__name__, len(verts),
                                                                           owner, name), k, {"record_of": owner}))
        elif not np.array_equal(verts, recs[name]):
            if (i, name) in mutated and last_ok.get((i, name)):
                problems.append(("TabulatedGSDShapeFamily.get_shape:result-not-independent:" + lab,
                                 "%s.get_shape(%r) returns a shape that reflects what the caller did to the shape "
                                 "returned by an earlier call" % (cls, name), k,
                                 float(np.abs(verts - recs[name]).max()) if verts.shape == recs[name].shape else None))
            else:
                owner = world.labels[code // 100000] if code >= 0 else "?"
                problems.append(("TabulatedGSDShapeFamily.get_shape:not-own-record:" + lab,
                                 "%s.get_shape(%r) does not have the vertices stored under that name in THIS table "
                                 "(it is the record of %s)" % (cls, name, owner), k, {"record_of": owner}))
        last_ok[(i, name)] = bool(name in recs and np.array_equal(verts, recs[name]))
        prev = last.get((i, name))
        if prev is not None and (prev is shp or np.shares_memory(np.asarray(prev.vertices), np.asarray(shp.vertices))):
            problems.append(("TabulatedGSDShapeFamily.get_shape:result-aliased:" + lab,
                             "two calls of %s.get_shape(%r) return the same object / the same vertex buffer" % (
                                 cls, name), k, None))
        last[(i, name)] = shp
        if kind == "getmut":
            _mutate_in_place(shp)
            mutated.add((i, name))
    # the tables themselves are untouched by the queries
    for k, (data, orig) in enumerate(world.user_data):
        fam = world.fams[len(SHIPPED) + k]
        if list(fam.names) != list(orig) or json.loads(json.dumps(data, default=jsonable_np)) != orig:
            problems.append(("TabulatedGSDShapeFamily.get_shape:table-modified:user",
                             "the queries changed the user's table (names or stored vertices)", len(steps) - 1, None))
    return answers, problems


def jsonable_np(o):
    if isinstance(o, np.ndarray):
        return o.tolist()
    if isinstance(o, (np.floating, np.integer)):
        return o.item()
    raise TypeError(repr(type(o)))


def model_history(ctx, world, steps):
    toks = [len(world.fams)]
    for recs in world.records:
        toks.append(len(recs))
        for name in recs:
            toks += [s2codes(name), 1, s2codes("ConvexPolyhedron"), 0]
    toks.append(len(steps))
    for st in steps:
        if st[0] == "iter":
            toks += [1, int(st[1])]
        else:
            toks += [0, int(st[1]), s2codes(st[2])]
    r = ctx.driver.Q("c18.session", *toks)
    pos = 0
    out = []
    for _ in steps:
        n = r[pos]; pos += 1
        ans = []
        for _ in range(n):
            c = r[pos]; pos += 1
            if c == -1:
                ln = r[pos]; pos += 1
                ans.append((-1, "".join(chr(x) for x in r[pos:pos + ln]))); pos += ln
            else:
                ans.append((c, r[pos])); pos += 1
        out.append(ans)
    return out


def _minimal_histories(steps, k, world):
    """candidate shorter histories that could show what step k shows, shortest first: one earlier step that touched
    the same name (as a plain get) + step k; then all of them + step k"""
    st = steps[k]
    if st[0] == "iter":
        names = set(world.records[int(st[1])])
    else:
        names = {st[2]}
    pre = []
    for s in steps[:k]:
        if s[0] == "iter":
            for n in sorted(names & set(world.records[int(s[1])])):
                pre.append(["get", int(s[1]), n])
        elif s[2] in names:
            pre.append(list(s))
    uniq = []
    for s in pre:
        if s not in uniq:
            uniq.append(s)
    out = [[s, list(st)] for s in uniq[:3]]
    out.append(pre + [list(st)])
    return out


def _subprocess_history(user_specs, steps):
    """run a history in a FRESH interpreter (caches of this process cannot be emptied); -> list of sigs, or None"""
    import subprocess
    import sys
    import tempfile
    from common import REPO
    with tempfile.NamedTemporaryFile("w", suffix=".json", delete=False) as f:
        json.dump({"user": user_specs, "steps": steps}, f)
        path = f.name
    try:
        env = dict(os.environ, PYTHONPATH=REPO + os.pathsep + os.path.dirname(os.path.abspath(__file__)))
        r = subprocess.run([sys.executable, os.path.abspath(__file__), "--history", path], env=env,
                           capture_output=True, text=True, timeout=300)
        return json.loads(r.stdout.strip().splitlines()[-1])
    except Exception:
        return None
    finally:
        os.unlink(path)


def check_history(ctx, fams, tables_json, user_specs, steps, label, minimise=True):
    """run one history against the implementation (C) and the model (B)"""
    world = HWorld(fams, tables_json, user_specs)
    case = {"kind": "history", "label": label, "user": user_specs, "steps": len(steps)}
    ctx.case(case)
    ctx.count("history:" + label)
    ctx.count("history-steps", len(steps))
    answers, problems = run_history(world, steps)
    seen = set()
    for sig, what, k, detail in problems:
        if sig in seen:
            continue
        seen.add(sig)
        hist = steps[:k + 1]
        if minimise:
            for cand in _minimal_histories(steps, k, world):
                if len(cand) >= len(hist):
                    continue
                got = _subprocess_history(user_specs, cand)
                if got is not None and sig in got:
                    hist = cand
                    break
        if len(hist) > 400:      # keep the replay file readable: the failing step and what preceded it by kind
            hist = [s for s in hist[:-1] if s[0] == "iter"] + [s for s in hist[:-1] if s[0] != "iter"][-50:] + hist[-1:]
        named = [[s[0], world.labels[int(s[1])]] + list(s[2:]) for s in hist]
        ctx.fail(sig, what + " — history: " + "; ".join(
            "%s(%s)" % (s[0], ", ".join(repr(x) for x in s[1:])) for s in named[-4:]),
            {"kind": "history", "label": label, "user": user_specs, "steps": hist, "steps_named": named}, detail)
    model = model_history(ctx, world, steps)
    for k, (a, m) in enumerate(zip(answers, model)):
        if a != m:
            ctx.disagree("c18.session", {"kind": "history", "label": label, "user": user_specs,
                                         "steps": steps[:k + 1] if k < 400 else [steps[k]]},
                         {"step": steps[k], "impl": repr(a[:3]), "model": repr(m[:3])})
            break
    return problems


def history_sessions(ctx, fams, tables_json, entries):
    rng = ctx.rng
    nfam = len(SHIPPED)
    names_of = [[n for n, _ in tables_json[lid]] for lid in SHIPPED]
    all_names = []
    for ns in names_of:
        for n in ns:
            if n not in all_names:
                all_names.append(n)
    # ---- 1. ordinary use first (every family iterated), THEN every family is asked for every name of every other
    #         family; a user table that reuses shipped names for other solids is asked as well, twice, with the first
    #         answer mutated
    small = [(lid, it["name"]) for lid in SHIPPED for it in entries[lid] if 4 <= len(it["verts"]) <= 24]
    def pick_src():
        return small[int(rng.integers(0, len(small)))]
    reuse = ["Cube", "Tetrahedron", "Square Pyramid", "Truncated Cube", "P03", "J01", "Triangular Prism"]
    spec0 = []
    for nm in reuse:
        st, sn = pick_src()
        while sn == nm:
            st, sn = pick_src()
        spec0.append([nm, st, sn, 2.0])
    steps = [["iter", i] for i in range(nfam)]
    for i in range(nfam):
        own = set(names_of[i])
        for n in all_names + ["Not A Solid"]:
            if n not in own:
                steps.append(["get", i, n])
    u = nfam
    for nm in reuse:
        steps += [["getmut", u, nm], ["get", u, nm]]
    steps += [["get", u, "Dodecahedron"], ["iter", u]]
    for i in range(nfam):               # and the shipped tables still answer with their own records
        n = names_of[i][int(rng.integers(0, len(names_of[i])))]
        steps += [["getmut", i, n], ["get", i, n]]
    check_history(ctx, fams, tables_json, [spec0], steps, "all-families-then-foreign-names")
    # ---- 2. random histories: several user tables that reuse names (of the shipped tables and of each other)
    pool = reuse + ["My Solid", "Octahedron", "Icosahedron", "A01", "O22", "Square Antiprism", "Snub Disphenoid"]
    for _ in range(ctx.budget(2, 12)):
        specs = []
        for _ in range(int(rng.integers(1, 4))):
            spec, used = [], set()
            for _ in range(int(rng.integers(2, 7))):
                nm = pool[int(rng.integers(0, len(pool)))]
                if nm in used:
                    continue
                used.add(nm)
                st, sn = pick_src()
                spec.append([nm, st, sn, float(rng.choice([0.5, 2.0, 3.0]))])
            specs.append(spec)
        world_names = names_of + [[r[0] for r in sp] for sp in specs]
        steps = []
        for _ in range(int(rng.integers(30, 80))):
            i = int(rng.integers(0, len(world_names)))
            if i < nfam and rng.random() < 0.5:
                i = nfam + int(rng.integers(0, len(specs)))
            x = rng.random()
            if x < 0.30 and world_names[i]:
                steps.append(["get", i, world_names[i][int(rng.integers(0, len(world_names[i])))]])
            elif x < 0.45 and world_names[i]:
                steps.append(["getmut", i, world_names[i][int(rng.integers(0, len(world_names[i])))]])
            elif x < 0.85:
                j = int(rng.integers(0, len(world_names)))
                src = world_names[j] if world_names[j] else pool
                steps.append(["get", i, src[int(rng.integers(0, len(src)))]])
            elif x < 0.92 and len(world_names[i]) <= 16:
                steps.append(["iter", i])
            else:
                steps.append(["get", i, "".join(chr(int(c)) for c in rng.integers(32, 127, size=int(rng.integers(1, 9))))])
        check_history(ctx, fams, tables_json, specs, steps, "random-user-tables")


# ------------------------------------------------------------------------------------------ live iterators
#
# `iter(family)` must create an INDEPENDENT iteration every time: a family is one module-level object, and nested /
# pairwise loops, zip(fam, fam) or an iterator kept while another pass runs have several iterations alive at once.
# Steps: ["start", fam] (it = iter(fam); iterators are numbered in order of creation) | ["next", it] |
#        ["get", fam, name] | ["len", fam] (len(fam.names)).  Expected: the k-th next of EVERY iterator is
#        (names[k], the table's record of names[k]); after len(names) items StopIteration.

def run_iterators(world, steps):
    """-> (answers, problems); answers[k] in the model's format: ("start", it) | ("item", name, class, payload) |
    ("stop",) | ("shape", class, payload|kind) | ("len", n) | ("none",)"""
    its = []            # [iterator object, family index, number of items it has yielded]
    answers, problems = [], []
    for k, st in enumerate(steps):
        kind = st[0]
        if kind == "start":
            i = int(st[1])
            its.append([_quiet(iter, world.fams[i]), i, 0])
            answers.append(("start", len(its) - 1))
        elif kind == "next":
            if int(st[1]) >= len(its):
                answers.append(("none",))
                continue
            it, i, pos = its[int(st[1])]
            recs, lab = world.records[i], world.table_label(i)
            names = list(recs)
            cls = CLASS_NAME.get(world.labels[i], "TabulatedGSDShapeFamily(user table %s)" % world.labels[i])
            try:
                item = _quiet(next, it)
            except StopIteration:
                answers.append(("stop",))
                if pos < len(names):
                    problems.append(("TabulatedGSDShapeFamily.__iter__:interleaved-iterators:" + lab,
                                     "an iterator over %s stopped after %d of %d names while other iterations over the "
                                     "same family were alive" % (cls, pos, len(names)), k,
                                     {"iterator": int(st[1]), "yielded": pos, "expected_next": names[pos]}))
                continue
            except Exception as e:
                answers.append(("shape", -1, exc_kind(e)))
                problems.append(("TabulatedGSDShapeFamily.__iter__:raises-after-history:" + lab,
                                 "next() on an iterator over %s raised %s" % (cls, exc_kind(e)), k, repr(e)))
                continue
            its[int(st[1])][2] = pos + 1
            n, shp = item
            code = world.classify(i, shp.vertices, n)
            answers.append(("item", n, 0 if type(shp).__name__ == "ConvexPolyhedron" else 2, code))
            if pos >= len(names):
                problems.append(("TabulatedGSDShapeFamily.__iter__:interleaved-iterators:" + lab,
                                 "an iterator over %s yielded a %dth item (%r); the family has %d names" % (
                                     cls, pos + 1, n, len(names)), k, {"iterator": int(st[1]), "got": n}))
            elif n != names[pos]:
                problems.append(("TabulatedGSDShapeFamily.__iter__:interleaved-iterators:" + lab,
                                 "item %d of an iterator over %s is %r, not names[%d] = %r: iterations over the same "
                                 "family that are alive at the same time are not independent" % (
                                     pos, cls, n, pos, names[pos]), k,
                                 {"iterator": int(st[1]), "got": n, "expected": names[pos]}))
            elif not np.array_equal(np.asarray(shp.vertices, dtype=float), recs[n]):
                problems.append(("TabulatedGSDShapeFamily.__iter__:not-own-records:" + lab,
                                 "item %d (%r) of an iterator over %s does not have the vertices stored under that name"
                                 % (pos, n, cls), k, {"iterator": int(st[1]), "name": n}))
        elif kind == "get":
            i, name = int(st[1]), st[2]
            try:
                shp = _quiet(world.fams[i].get_shape, name)
                answers.append(("shape", 0 if type(shp).__name__ == "ConvexPolyhedron" else 2,
                                world.classify(i, shp.vertices, name)))
            except Exception as e:
                answers.append(("shape", -1, exc_kind(e)))
        else:
            i = int(st[1])
            n = len(world.fams[i].names)
            try:
                len(world.fams[i])          # a family may or may not define __len__; it must not disturb anything
            except TypeError:
                pass
            answers.append(("len", n))
    return answers, problems


def model_iterators(ctx, world, steps):
    toks = [len(world.fams)]
    for recs in world.records:
        toks.append(len(recs))
        for name in recs:
            toks += [s2codes(name), 1, s2codes("ConvexPolyhedron"), 0]
    toks.append(len(steps))
    for st in steps:
        if st[0] == "start":
            toks += [0, int(st[1])]
        elif st[0] == "next":
            toks += [1, int(st[1])]
        elif st[0] == "get":
            toks += [2, int(st[1]), s2codes(st[2])]
        else:
            toks += [3, int(st[1])]
    r = ctx.driver.Q("c18.iters", *toks)
    pos = [0]

    def take():
        x = r[pos[0]]
        pos[0] += 1
        return x

    def take_str():
        n = take()
        return "".join(chr(take()) for _ in range(n))

    def take_shape():
        c = take()
        return (-1, take_str()) if c == -1 else (c, take())

    out = []
    for _ in steps:
        t = take()
        if t == 0:
            out.append(("start", take()))
        elif t == 1:
            n = take_str()
            out.append(("item", n) + take_shape())
        elif t == 9:
            out.append(("stop",))
        elif t == 2:
            out.append(("shape",) + take_shape())
        elif t == 3:
            out.append(("len", take()))
        else:
            out.append(("none",))
    return out


def _iter_patterns(rng, i, names, big):
    """step lists for family i: {pattern name: steps}.  Iterator numbers are local to each list."""
    n = len(names)
    pats = {}
    # (a)+(d) two live iterators advanced in a seeded random pattern, get_shape / names / len in between
    steps, left = [["start", i], ["start", i]], [n + 1, n + 1]
    while left[0] or left[1]:
        x = rng.random()
        if x < 0.12:
            steps.append(["get", i, names[int(rng.integers(0, n))]])
        elif x < 0.2:
            steps.append(["len", i])
        else:
            j = int(rng.integers(0, 2))
            if not left[j]:
                j = 1 - j
            steps.append(["next", j])
            left[j] -= 1
    pats["two-iterators-alternating"] = steps
    # (b) zip(fam, fam): lock step, stops when the first is exhausted
    steps = [["start", i], ["start", i]]
    for _ in range(n):
        steps += [["next", 0], ["next", 1]]
    steps.append(["next", 0])
    pats["zip"] = steps
    # an iterator kept while a complete other pass runs
    steps = [["start", i], ["next", 0], ["start", i]] + [["next", 1]] * (n + 1) + [["next", 0]] * n
    pats["kept-across-a-pass"] = steps
    # (c) nested loop: all n*n pairs for the small families; for the big ones the inner loop breaks after 2 items
    inner = 2 if big else n + 1
    steps = [["start", i]]
    for a in range(n):
        steps.append(["next", 0])
        steps.append(["start", i])
        steps += [["next", a + 1]] * inner
    steps.append(["next", 0])
    pats["nested-loop" + ("-inner-break" if big else "")] = steps
    return pats


MINIMAL_ITER = [["start", 0], ["start", 0], ["next", 0], ["next", 1], ["next", 0]]


def check_iterators(ctx, fams, tables_json, user_specs, steps, label, minimise=True):
    world = HWorld(fams, tables_json, user_specs)
    ctx.case({"kind": "iterators", "label": label, "user": user_specs, "steps": len(steps)})
    ctx.count("iterators:" + label.split(":")[0])
    ctx.count("iterator-steps", len(steps))
    answers, problems = run_iterators(world, steps)
    seen = set()
    for sig, what, k, detail in problems:
        if sig in seen:
            continue
        seen.add(sig)
        hist = steps[:k + 1]
        if minimise:
            # iterators are created by the steps themselves, so a shorter history can be tried in this process
            fam_i = next(int(s[1]) for s in steps if s[0] == "start")
            cand = [[s[0], fam_i] if s[0] == "start" else list(s) for s in MINIMAL_ITER]
            _, p2 = run_iterators(HWorld(fams, tables_json, user_specs), cand)
            if any(q[0] == sig for q in p2):
                hist = cand[:max(q[2] for q in p2 if q[0] == sig) + 1]
                what = next(q[1] for q in p2 if q[0] == sig)
        named = [[s[0], world.labels[int(s[1])]] + list(s[2:]) if s[0] != "next" else list(s) for s in hist]
        ctx.fail(sig, what + " — pattern %s, steps: %s" % (label, "; ".join(
            "%s(%s)" % (s[0], ", ".join(repr(x) for x in s[1:])) for s in named[-6:])),
            {"kind": "iterators", "label": label, "user": user_specs, "steps": hist, "steps_named": named}, detail)
    model = model_iterators(ctx, world, steps)
    for k, (a, m) in enumerate(zip(answers, model)):
        if tuple(a) != tuple(m):
            ctx.disagree("c18.iters", {"kind": "iterators", "label": label, "user": user_specs,
                                       "steps": steps[:k + 1]},
                         {"step": steps[k], "impl": repr(a), "model": repr(m)})
            break
    return problems


def iterator_sessions(ctx, fams, tables_json, entries):
    """every family (the seven shipped tabulated ones incl. the repository family, and a user table): several live
    iterations at once.  (The families of the other two DOIs are parametric classes, not iterable tables.)"""
    rng = ctx.rng
    small = [(lid, it["name"]) for lid in SHIPPED for it in entries[lid] if 4 <= len(it["verts"]) <= 12]
    spec = []
    for nm in ["Cube", "My Solid", "Tetrahedron", "P03"]:
        st, sn = small[int(rng.integers(0, len(small)))]
        spec.append([nm, st, sn, 2.0])
    names_of = [[n for n, _ in tables_json[lid]] for lid in SHIPPED] + [[r[0] for r in spec]]
    for i, names in enumerate(names_of):
        lab = SHIPPED[i] if i < len(SHIPPED) else "user"
        big = len(names) > 20
        for pname, steps in _iter_patterns(rng, i, names, big).items():
            if big and ctx.tier == "quick" and ctx.widen == 1 and pname == "kept-across-a-pass":
                continue        # covered by the alternating pattern; keeps the quick tier short
            check_iterators(ctx, fams, tables_json, [spec], steps, "%s:%s" % (pname, lab))


# ------------------------------------------------------------------------------------------ run / replay


def _load(ctx):
    fams = _families()
    tables_json, notes = read_json_tables()
    for lean_id in list(tables_json):
        tables_json[lean_id + ":dict"] = dict(tables_json[lean_id])
    entries, _ = table_entries(fams)
    return fams, tables_json, entries


def run(ctx):
    fams, tables_json, entries = _load(ctx)
    textbook_copies(ctx)
    for lean_id, fn, _ in TABLES:
        eval_family(ctx, tables_json, fams, lean_id)
        ctx.case({"table": lean_id, "kind": "family"})
        for name in list(fams[lean_id].names):
            ctx.case({"table": lean_id, "name": name, "kind": "entry"})
            eval_entry(ctx, tables_json, entries, fams, lean_id, name)
        if lean_id == "johnson":
            shorts = sorted(str(johnson_key(it["short"])) for it in entries[lean_id])
            if shorts != sorted(JOHNSON):
                ctx.fail("TabulatedGSDShapeFamily.names:johnson-numbers:johnson",
                         "the short_name fields of JohnsonFamily are not J1 ... J92 once each",
                         {"table": lean_id, "kind": "family"}, sorted(set(shorts) ^ set(JOHNSON))[:10])
        # textbook solids that are missing from the table
        if lean_id in TEXTBOOK:
            for tname in TEXTBOOK[lean_id]:
                if tname not in fams[lean_id].names:
                    ctx.fail("TabulatedGSDShapeFamily.names:textbook-solid-missing:" + lean_id,
                             "%s has no entry %r" % (CLASS_NAME[lean_id], tname),
                             {"table": lean_id, "name": tname, "kind": "family"}, tname)
        unknown_name_probes(ctx, fams, lean_id)
    history_sessions(ctx, fams, tables_json, entries)
    iterator_sessions(ctx, fams, tables_json, entries)
    doi_probes(ctx)
    synthetic_family(ctx)
    mutant_certificates(ctx, entries, tables_json)
    # the tables the Lean theorems of this build are about are the ones checked above
    if not ctx.obligation_breaks and getattr(ctx, "_c18_digest", None):
        os.makedirs(os.path.dirname(OK_MARK), exist_ok=True)
        with open(OK_MARK, "w") as f:
            f.write(ctx._c18_digest)


def replay(ctx, payload):
    case = payload.get("case", payload)
    if not isinstance(case, dict) or "kind" not in case or case.get("kind") == "no-failing-input-found":
        case = {}   # nothing specific to re-evaluate: run everything
    fams, tables_json, entries = _load(ctx)
    kind = case.get("kind")
    if kind == "entry" and case.get("table") in fams:
        ctx.case(case)
        eval_family(ctx, tables_json, fams, case["table"])
        eval_entry(ctx, tables_json, entries, fams, case["table"], case["name"])
    elif kind in ("family", "unknown-name") and case.get("table") in fams:
        ctx.case(case)
        eval_family(ctx, tables_json, fams, case["table"])
        if kind == "family" and case.get("name") in list(fams[case["table"]].names):
            eval_entry(ctx, tables_json, entries, fams, case["table"], case["name"])
        unknown_name_probes(ctx, fams, case["table"])
    elif kind == "history" and isinstance(case.get("steps"), list):
        check_history(ctx, fams, tables_json, case.get("user", []), case["steps"], case.get("label", "replay"),
                      minimise=False)
    elif kind == "iterators" and isinstance(case.get("steps"), list):
        check_iterators(ctx, fams, tables_json, case.get("user", []), case["steps"], case.get("label", "replay"),
                        minimise=False)
    elif kind == "doi":
        ctx.case(case)
        doi_probes(ctx)
    elif kind == "mutant":
        ctx.case({k: case[k] for k in case if k not in ("verts", "faces")})
        lean = lean_check(ctx, case["verts"], case["faces"])
        fl, near, _ = cert_predicates(np.array(case["verts"], dtype=float) / SCALE, case["faces"])
        compare_lean_float(ctx, case, lean, fl, near, what="c18.check(mutant)")
    else:
        run(ctx)


def _history_main(path):
    """fresh-interpreter runner used to confirm a minimised history: prints the JSON list of signatures it shows"""
    payload = json.load(open(path))
    fams = _families()
    tables_json, _ = read_json_tables()
    for lean_id in list(tables_json):
        tables_json[lean_id + ":dict"] = dict(tables_json[lean_id])
    world = HWorld(fams, tables_json, payload.get("user", []))
    _, problems = run_history(world, payload["steps"])
    print(json.dumps(sorted(set(p[0] for p in problems))))


if __name__ == "__main__":
    import sys
    if len(sys.argv) == 3 and sys.argv[1] == "--history":
        _history_main(sys.argv[2])
