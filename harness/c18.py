"""C18 — every tabulated family entry is the solid its name says.

translate(ctx): regenerates lean/CoxeterVerif/Generated/Tables*.lean from /repo's JSON tables (names in
file order, vertices as integers x 10^18, `source`/`name` of repository records) plus the face lists the
IMPLEMENTATION builds in this run (`family.get_shape(name).faces`, a certificate re-verified by the Lean
kernel).  run(ctx): exhaustive oracle + correspondence over all 290 entries.
"""
import hashlib
import json
import os
import warnings
from decimal import Decimal

import numpy as np
from scipy.spatial import ConvexHull

from common import L, LEAN, ModelRaise, exc_kind

RULE = ("exhaustive: every entry of platonic(5), archimedean(13), catalan(13), johnson(92), prism_antiprism(16), "
        "pyramid_dipyramid(6) and of the DOI 10.1126/science.1220869 repository (145), each through names, iter and "
        "get_shape; plus unknown names / DOIs (fixed probes + random strings). distinct = distinct (table, entry); "
        "non-trivial = entry with >= 4 vertices")
ASSUMPTIONS = [
    "tolerances are part of the statements: plane distances <= 1e-9, |volume-1| <= 1e-9, squared lengths / squared "
    "in-radius equal within 2e-9 relative (the JSON holds 16-17 digit decimals)",
    "textbook (V,E,F) and face census of the 5+13+13 solids and (V,E,F) of the 92 Johnson solids by number are entered "
    "by hand (Spec/Textbook.lean and TEXTBOOK/JOHNSON below, two separately typed copies compared with each other by "
    "the driver op c18.textbook); the Johnson counts go beyond the literal clauses of the property (DESIGN §7 C18 S)",
    "the Lean table theorems are about the JSON decimals (exact at scale 10^18) with the face lists the implementation "
    "produced in the generating run as a certificate; that get_shape(name) returns exactly those vertices is checked "
    "by the oracle on every run",
    "regular face = planar convex polygon with equal sides and equal short diagonals; insphere = all face planes at one "
    "distance from the centroid of the solid",
]

SCALE = 10 ** 18
DOI = "10.1126/science.1220869"
# (lean identifier, json file, attribute in coxeter.families or None for the DOI repository)
TABLES = [
    ("platonic", "platonic.json", "PlatonicFamily"),
    ("archimedean", "archimedean.json", "ArchimedeanFamily"),
    ("catalan", "catalan.json", "CatalanFamily"),
    ("johnson", "johnson.json", "JohnsonFamily"),
    ("prismAntiprism", "prism_antiprism.json", "PrismAntiprismFamily"),
    ("pyramidDipyramid", "pyramid_dipyramid.json", "PyramidDipyramidFamily"),
    ("science1220869", "science1220869.json", None),
]
EXPECTED_SIZES = {"platonic": 5, "archimedean": 13, "catalan": 13, "johnson": 92, "prismAntiprism": 16,
                  "pyramidDipyramid": 6, "science1220869": 145}
REGULAR = ("platonic", "archimedean", "johnson")   # equal edges + regular faces
UNITVOL = ("platonic", "archimedean", "catalan")   # textbook counts + unit volume
PREDICATE = {
    "platonic": "Tab.platonicOk", "archimedean": "Tab.archimedeanOk", "catalan": "Tab.catalanOk",
    "johnson": "Tab.johnsonOk", "prismAntiprism": "Tab.plainOk", "pyramidDipyramid": "Tab.plainOk",
    "science1220869": "Tab.repositoryOk Tables.bySource",
}
CHUNK = 30            # at most this many entries per generated Lean file
CHUNK_WEIGHT = 14000  # and at most about this many (face, vertex) plane tests (kernel: ~0.4 ms each)

# Hand-entered, independent of /repo AND of Spec/Textbook.lean (compared with it through the driver):
# name: (V, E, F, {corners: count})
TEXTBOOK = {
    "platonic": {
        "Tetrahedron": (4, 6, 4, {3: 4}), "Cube": (8, 12, 6, {4: 6}), "Octahedron": (6, 12, 8, {3: 8}),
        "Dodecahedron": (20, 30, 12, {5: 12}), "Icosahedron": (12, 30, 20, {3: 20}),
    },
    "archimedean": {
        "Truncated Tetrahedron": (12, 18, 8, {3: 4, 6: 4}),
        "Cuboctahedron": (12, 24, 14, {3: 8, 4: 6}),
        "Truncated Cube": (24, 36, 14, {3: 8, 8: 6}),
        "Truncated Octahedron": (24, 36, 14, {4: 6, 6: 8}),
        "Rhombicuboctahedron": (24, 48, 26, {3: 8, 4: 18}),
        "Truncated Cuboctahedron": (48, 72, 26, {4: 12, 6: 8, 8: 6}),
        "Snub Cuboctahedron": (24, 60, 38, {3: 32, 4: 6}),
        "Icosidodecahedron": (30, 60, 32, {3: 20, 5: 12}),
        "Truncated Dodecahedron": (60, 90, 32, {3: 20, 10: 12}),
        "Truncated Icosahedron": (60, 90, 32, {5: 12, 6: 20}),
        "Rhombicosidodecahedron": (60, 120, 62, {3: 20, 4: 30, 5: 12}),
        "Truncated Icosidodecahedron": (120, 180, 62, {4: 30, 6: 20, 10: 12}),
        "Snub Icosidodecahedron": (60, 150, 92, {3: 80, 5: 12}),
    },
    "catalan": {
        "Triakis Tetrahedron": (8, 18, 12, {3: 12}),
        "Rhombic Dodecahedron": (14, 24, 12, {4: 12}),
        "Triakis Octahedron": (14, 36, 24, {3: 24}),
        "Tetrakis Hexahedron": (14, 36, 24, {3: 24}),
        "Deltoidal Icositetrahedron": (26, 48, 24, {4: 24}),
        "Disdyakis Dodecahedron": (26, 72, 48, {3: 48}),
        "Pentagonal Icositetrahedron": (38, 60, 24, {5: 24}),
        "Rhombic Triacontahedron": (32, 60, 30, {4: 30}),
        "Triakis Icosahedron": (32, 90, 60, {3: 60}),
        "Pentakis Dodecahedron": (32, 90, 60, {3: 60}),
        "Deltoidal Hexecontahedron": (62, 120, 60, {4: 60}),
        "Disdyakis Triacontahedron": (62, 180, 120, {3: 120}),
        "Pentagonal Hexecontahedron": (92, 150, 60, {5: 60}),
    },
}

# Johnson solids by number (Johnson 1966): V, E, F — typed independently of /repo
JOHNSON = {
    "J1": (5, 8, 5), "J2": (6, 10, 6), "J3": (9, 15, 8), "J4": (12, 20, 10), "J5": (15, 25, 12),
    "J6": (20, 35, 17), "J7": (7, 12, 7), "J8": (9, 16, 9), "J9": (11, 20, 11), "J10": (9, 20, 13),
    "J11": (11, 25, 16), "J12": (5, 9, 6), "J13": (7, 15, 10), "J14": (8, 15, 9), "J15": (10, 20, 12),
    "J16": (12, 25, 15), "J17": (10, 24, 16), "J18": (15, 27, 14), "J19": (20, 36, 18), "J20": (25, 45, 22),
    "J21": (30, 55, 27), "J22": (15, 33, 20), "J23": (20, 44, 26), "J24": (25, 55, 32), "J25": (30, 65, 37),
    "J26": (8, 14, 8), "J27": (12, 24, 14), "J28": (16, 32, 18), "J29": (16, 32, 18), "J30": (20, 40, 22),
    "J31": (20, 40, 22), "J32": (25, 50, 27), "J33": (25, 50, 27), "J34": (30, 60, 32), "J35": (18, 36, 20),
    "J36": (18, 36, 20), "J37": (24, 48, 26), "J38": (30, 60, 32), "J39": (30, 60, 32), "J40": (35, 70, 37),
    "J41": (35, 70, 37), "J42": (40, 80, 42), "J43": (40, 80, 42), "J44": (18, 42, 26), "J45": (24, 56, 34),
    "J46": (30, 70, 42), "J47": (35, 80, 47), "J48": (40, 90, 52), "J49": (7, 13, 8), "J50": (8, 17, 11),
    "J51": (9, 21, 14), "J52": (11, 19, 10), "J53": (12, 23, 13), "J54": (13, 22, 11), "J55": (14, 26, 14),
    "J56": (14, 26, 14), "J57": (15, 30, 17), "J58": (21, 35, 16), "J59": (22, 40, 20), "J60": (22, 40, 20),
    "J61": (23, 45, 24), "J62": (10, 20, 12), "J63": (9, 15, 8), "J64": (10, 18, 10), "J65": (15, 27, 14),
    "J66": (28, 48, 22), "J67": (32, 60, 30), "J68": (65, 105, 42), "J69": (70, 120, 52), "J70": (70, 120, 52),
    "J71": (75, 135, 62), "J72": (60, 120, 62), "J73": (60, 120, 62), "J74": (60, 120, 62), "J75": (60, 120, 62),
    "J76": (55, 105, 52), "J77": (55, 105, 52), "J78": (55, 105, 52), "J79": (55, 105, 52), "J80": (50, 90, 42),
    "J81": (50, 90, 42), "J82": (50, 90, 42), "J83": (45, 75, 32), "J84": (8, 18, 12), "J85": (16, 40, 26),
    "J86": (10, 22, 14), "J87": (11, 26, 17), "J88": (12, 28, 18), "J89": (14, 33, 21), "J90": (16, 38, 24),
    "J91": (14, 26, 14), "J92": (18, 36, 20),
}

GEN_DIR = os.path.join(LEAN, "CoxeterVerif", "Generated")
OWN_PREFIXES = ("Tables", "Check")  # the only generated files this module writes or deletes
OK_MARK = os.path.join(LEAN, ".lake", "c18_generated_ok.sha1")


# ------------------------------------------------------------------------------------------ sources


def _families():
    with warnings.catch_warnings():
        warnings.simplefilter("ignore")
        import coxeter.families as cf
    out = {}
    for lean_id, fn, attr in TABLES:
        out[lean_id] = getattr(cf, attr) if attr else cf.DOI_SHAPE_REPOSITORIES[DOI][0]
    return out


def _data_folder():
    from coxeter.families import doi_data_repositories as ddr
    return ddr._DATA_FOLDER


def read_json_tables():
    """The JSON files read independently of the loader: {lean_id: [(name, record-as-dict with Decimal numbers)]}."""
    out = {}
    notes = []
    for lean_id, fn, _ in TABLES:
        with open(os.path.join(_data_folder(), fn)) as f:
            pairs = json.load(f, object_pairs_hook=list, parse_float=Decimal, parse_int=Decimal)
        ents = []
        for name, rec in pairs:
            rec = dict(rec)
            ents.append((name, rec))
        out[lean_id] = ents
    return out, notes


def scaled_vertices(rec, notes, where):
    vs = []
    for row in rec.get("vertices", []):
        r = []
        for x in row:
            sx = Decimal(x) * SCALE
            ix = int(sx.to_integral_value())
            if sx != ix:
                notes.append("%s: coordinate %s is not exact at 1e-18, rounded" % (where, x))
            r.append(ix)
        vs.append(tuple(r))
    return vs


def impl_faces(fam, name):
    """faces of the shape the implementation builds for `name` (None when it raises)."""
    try:
        with warnings.catch_warnings():
            warnings.simplefilter("ignore")
            s = fam.get_shape(name)
        return [[int(i) for i in f] for f in s.faces]
    except Exception:
        return None


# ------------------------------------------------------------------------------------------ translator


def _lean_str(s):
    return json.dumps(s, ensure_ascii=False)


def _int_lean(v):
    # raw constructors + raw literals: nothing to unfold for the kernel
    return ".ofNat (nat_lit %d)" % v if v >= 0 else ".negSucc (nat_lit %d)" % (-v - 1)


def _entry_lean(ident, name, typ, verts, faces, source, ref, short=""):
    vs = ", ".join("⟨%s, %s, %s⟩" % tuple(_int_lean(c) for c in v) for v in verts)
    fs = ", ".join("[" + ", ".join("nat_lit %d" % i for i in f) + "]" for f in faces)
    return ("def %s : Tab.Entry :=\n  { name := %s, type := %s, source := %s, ref := %s, short := %s,\n"
            "    verts := [%s],\n    faces := [%s] }\n" % (ident, _lean_str(name), _lean_str(typ), _lean_str(source),
                                                         _lean_str(ref), _lean_str(short), vs, fs))


def _chunks(items):
    """consecutive chunks balanced by kernel work (~ faces x vertices), at most CHUNK entries each"""
    out, cur, w = [], [], 0
    for it in items:
        wi = len(it["faces"]) * len(it["verts"]) + 50
        if cur and (w + wi > CHUNK_WEIGHT or len(cur) >= CHUNK):
            out.append(cur)
            cur, w = [], 0
        cur.append(it)
        w += wi
    if cur or not out:
        out.append(cur)
    return out


def table_entries(fams=None):
    """{lean_id: [entry dict]} : JSON read independently + the implementation's face certificate"""
    fams = fams or _families()
    tables, notes = read_json_tables()
    out = {}
    for lean_id, fn, _ in TABLES:
        items = []
        for j, (name, rec) in enumerate(tables[lean_id]):
            verts = scaled_vertices(rec, notes, "%s[%s]" % (fn, name))
            faces = impl_faces(fams[lean_id], name)
            if faces is None:
                faces = []
                notes.append("%s[%s]: get_shape raised; empty certificate" % (fn, name))
            src = rec.get("source") or ""
            ref = (rec.get("name") or "") if src else ""
            typ = rec.get("type")
            short = rec.get("short_name") or rec.get("short_code") or ""
            items.append({"short": short if isinstance(short, str) else "", "ident": "%s_%d" % (lean_id, j), "name": name, "type": typ if isinstance(typ, str) else "",
                          "verts": verts, "faces": faces, "source": src if isinstance(src, str) else "",
                          "ref": ref if isinstance(ref, str) else ""})
        out[lean_id] = items
    return out, notes


def generate(fams=None):
    """-> ({relative file name: content}, notes, sizes)"""
    entries, notes = table_entries(fams)
    files = {}
    sizes = {}
    index_imports = []
    index_defs = []
    check_imports = []
    check_thms = []
    for lean_id, fn, _ in TABLES:
        items = entries[lean_id]
        sizes[lean_id] = len(items)
        cap = lean_id[0].upper() + lean_id[1:]
        pred = PREDICATE[lean_id]
        chunk_ids = []
        for k, chunk in enumerate(_chunks(items)):
            mod = "Tables%s_%d" % (cap, k)
            body = ["import CoxeterVerif.Model.Tabulated",
                    "/-! GENERATED by harness/c18.py translate() from coxeter/families/data/%s — do not edit. -/" % fn,
                    "namespace Tables", ""]
            for it in chunk:
                body.append(_entry_lean(it["ident"], it["name"], it["type"], it["verts"], it["faces"], it["source"],
                                        it["ref"], it["short"]))
            ids = [it["ident"] for it in chunk]
            body.append("def %s_chunk%d : List Tab.Entry := [%s]" % (lean_id, k, ", ".join(ids)))
            body.append("\nend Tables\n")
            files[mod + ".lean"] = "\n".join(body)
            chunk_ids.append("%s_chunk%d" % (lean_id, k))
            index_imports.append("import CoxeterVerif.Generated." + mod)
            # the kernel-evaluated obligations of this chunk: one theorem per entry (bounded memory, and a failing
            # build names the entry), assembled into the chunk statement
            cmod = "Check%s_%d" % (cap, k)
            cb = ["import CoxeterVerif.Spec.Textbook",
                  "import CoxeterVerif.Generated." + ("Tables" if lean_id == "science1220869" else mod),
                  "/-! GENERATED by harness/c18.py translate() — do not edit.",
                  "    Kernel evaluation of the C18 obligations of one chunk of %s. -/" % fn,
                  "set_option maxRecDepth 1000000", "set_option linter.unusedSimpArgs false", "namespace Tables", ""]
            for it in chunk:
                cb.append("/-- %s -/\ntheorem %s_ok : %s %s = true := by decide +kernel" % (
                    it["name"].replace("-/", "- /"), it["ident"], pred, it["ident"]))
            cb += ["", "theorem %s_chunk%d_ok : %s_chunk%d.all (%s) = true := by" % (lean_id, k, lean_id, k, pred),
                   "  simp only [%s_chunk%d, List.all_cons, List.all_nil, Bool.and_self, Bool.and_true%s]" % (
                       lean_id, k, "".join(", %s_ok" % i for i in ids)),
                   "", "end Tables", ""]
            files[cmod + ".lean"] = "\n".join(cb)
            check_imports.append("import CoxeterVerif.Generated." + cmod)
        check_thms.append(
            "theorem %s_ok : %s.all (%s) = true := by\n  simp only [%s, List.all_append, %s, Bool.and_self]\n" % (
                lean_id, lean_id, pred, lean_id, ", ".join("%s_ok" % c for c in chunk_ids)))
        index_defs.append("/-- `%s`, %d entries in file order -/\ndef %s : List Tab.Entry := %s\n" % (
            fn, len(items), lean_id, " ++ ".join(chunk_ids) if chunk_ids else "[]"))
    # the index: whole tables, the file-name -> table map used by `source`, and the DOI maps
    from coxeter.families import doi_data_repositories as ddr
    to_file = ", ".join("(%s, [%s])" % (_lean_str(k), ", ".join(_lean_str(x) for x in v))
                        for k, v in ddr._DOI_TO_FILE.items())
    to_fam = ", ".join("(%s, [%s])" % (_lean_str(k), ", ".join(_lean_str(c.__name__) for c in v))
                       for k, v in ddr._DOI_TO_FAMILY.items())
    idx = index_imports + [
        "/-! GENERATED by harness/c18.py translate() — do not edit. -/", "namespace Tables", ""] + index_defs + [
        "/-- table named by a `source` field -/",
        "def bySource (s : String) : List Tab.Entry :=",
    ] + ["  %s s = %s then %s" % ("if" if i == 0 else "else if", _lean_str(fn), lean_id)
         for i, (lean_id, fn, _) in enumerate(TABLES)] + [
        "  else []", "",
        "/-- `_DOI_TO_FILE`, `_DOI_TO_FAMILY` (by introspection of coxeter.families.doi_data_repositories) -/",
        "def doiMaps : Tab.DoiMaps := { toFile := [%s], toFamily := [%s] }" % (to_file, to_fam),
        "", "end Tables", ""]
    files["Tables.lean"] = "\n".join(idx)
    files["Checks.lean"] = "\n".join(
        ["import CoxeterVerif.Generated.Tables"] + check_imports + [
            "/-! GENERATED by harness/c18.py translate() — do not edit.",
            "    The chunk obligations assembled into one statement per table. -/",
            "set_option linter.unusedSimpArgs false", "namespace Tables", ""]
        + check_thms + ["end Tables", ""])
    return files, notes, sizes


def _digest(files):
    h = hashlib.sha1()
    for k in sorted(files):
        h.update(k.encode())
        h.update(files[k].encode())
    return h.hexdigest()


def translate(ctx):
    files, notes, sizes = generate()
    os.makedirs(GEN_DIR, exist_ok=True)
    changed = []
    for fn, content in files.items():
        p = os.path.join(GEN_DIR, fn)
        old = open(p).read() if os.path.exists(p) else None
        if old != content:
            with open(p, "w") as f:
                f.write(content)
            changed.append(fn)
    # stale chunks of a table that shrank.  ONLY files with this property's own prefixes are ever touched:
    # other properties keep their generated files (e.g. Planes.lean of C17) in the same directory.
    for fn in os.listdir(GEN_DIR):
        if fn.endswith(".lean") and fn not in files and fn.startswith(OWN_PREFIXES):
            os.unlink(os.path.join(GEN_DIR, fn))
            changed.append(fn)
    digest = _digest(files)
    last_ok = open(OK_MARK).read().strip() if os.path.exists(OK_MARK) else ""
    # "changed" for main.py = the tables are not the ones the last successful build proved things about
    ctx.generated_changed = bool(changed) or digest != last_ok
    ctx.extra["generated"] = {"files": len(files), "rewritten": sorted(changed), "sha1": digest, "sizes": sizes,
                              "notes": notes[:20]}
    ctx._c18_digest = digest


# ------------------------------------------------------------------------------------------ oracle helpers

TOL = 1e-9
CLASS_NAME = {"platonic": "PlatonicFamily", "archimedean": "ArchimedeanFamily", "catalan": "CatalanFamily",
              "johnson": "JohnsonFamily", "prismAntiprism": "PrismAntiprismFamily",
              "pyramidDipyramid": "PyramidDipyramidFamily", "science1220869": "DOI_SHAPE_REPOSITORIES[science1220869]"}
FILE_TO_ID = {fn: lean_id for lean_id, fn, _ in TABLES}
WHICH = {"platonic": 0, "archimedean": 1, "catalan": 2, "johnson": 3}


def johnson_key(short):
    """'J5', 'J05' -> 'J5' (the JSON writes the numbers with and without a leading zero)"""
    if isinstance(short, str) and len(short) >= 2 and short[0] == "J" and short[1:].isdigit() and short.isascii():
        return "J%d" % int(short[1:])
    return None


def s2codes(s):
    return L([ord(ch) for ch in s])


def entry_tokens(verts_int, faces):
    return [L([[int(c) for c in v] for v in verts_int]), L([L([int(i) for i in f]) for f in faces])]


def _quiet(fn, *a):
    with warnings.catch_warnings():
        warnings.simplefilter("ignore")
        return fn(*a)


def _near(metric, tol):
    """(decision, near_boundary): decision = metric <= tol; near when within a decade of the tolerance"""
    return bool(metric <= tol), bool(0.1 * tol < metric < 10 * tol)


def cert_predicates(v, faces):
    """The predicates of Spec/Textbook.lean in floating point on the SAME data (vertices, face certificate).
    -> ({name: bool}, {name: near_boundary}, info)"""
    v = np.asarray(v, dtype=float)
    n = len(v)
    idx = [i for f in faces for i in f]
    out, near = {}, {}
    in_range = all(0 <= i < n for i in idx)
    out["uses"] = bool(n <= 4096 and in_range and set(idx) == set(range(n)))
    edges = [(f[i], f[(i + 1) % len(f)]) for f in faces for i in range(len(f))]
    cnt = {}
    for e in edges:
        cnt[e] = cnt.get(e, 0) + 1
    out["closed"] = bool(all(len(f) >= 3 for f in faces) and all(a != b for a, b in edges)
                         and all(c == 1 for c in cnt.values()) and all(cnt.get((b, a), 0) == 1 for a, b in edges))
    out["euler"] = bool(2 * n + 2 * len(faces) == len(edges) + 4)
    info = {"V": n, "E2": len(edges), "F": len(faces)}
    if not in_range or not faces:
        for k in ("convex", "posvol", "unitvol", "edges", "diagonals", "insphere"):
            out[k] = None
        return out, near, info
    worst = 0.0
    convex = True
    normals = []
    for f in faces:
        p = v[f]
        nv = np.zeros(3)
        for i in range(len(f)):
            nv += np.cross(p[i], p[(i + 1) % len(f)])
        nn = np.linalg.norm(nv)
        normals.append((nv, nn, p[0]))
        if nn == 0:
            convex = False
            continue
        d_all = (v - p[0]) @ nv / nn
        d_face = np.abs((p - p[0]) @ nv / nn)
        worst = max(worst, float(d_all.max()), float(d_face.max()))
    ok, nb = _near(worst, TOL)
    out["convex"], near["convex"] = bool(convex and ok), nb
    vol6 = 0.0
    cnum = np.zeros(3)
    for f in faces:
        p = v[f]
        for i in range(1, len(f) - 1):
            d = float(np.linalg.det(np.array([p[0], p[i], p[i + 1]])))
            vol6 += d
            cnum += d * (p[0] + p[i] + p[i + 1])
    info["vol6"] = vol6
    out["posvol"] = bool(vol6 > 0)
    near["posvol"] = bool(abs(vol6) < 1e-7)
    out["unitvol"], near["unitvol"] = _near(abs(vol6 / 6 - 1), TOL)

    def all_near_first(ls):
        if not ls or ls[0] <= 0:
            return False, False
        m = max(abs(l - ls[0]) for l in ls) / ls[0]
        return _near(m, 2 * TOL)

    out["edges"], near["edges"] = all_near_first([float(np.sum((v[a] - v[b]) ** 2)) for a, b in edges])
    dg, dgn = True, False
    for f in faces:
        if len(f) <= 3:
            continue
        k = len(f)
        o, nb = all_near_first([float(np.sum((v[f[i]] - v[f[(i + 2) % k]]) ** 2)) for i in range(k)])
        dg, dgn = dg and o, dgn or nb
    out["diagonals"], near["diagonals"] = dg, dgn
    if vol6 > 0:
        c = cnum / (4 * vol6)
        hs = [float(np.dot(nv, p0 - c) / nn) if nn > 0 else -1.0 for nv, nn, p0 in normals]
        if min(hs) > 0:
            m = max(abs(h * h - hs[0] * hs[0]) for h in hs) / (hs[0] * hs[0])
            out["insphere"], near["insphere"] = _near(m, 2 * TOL)
        else:
            out["insphere"], near["insphere"] = False, False
    else:
        out["insphere"], near["insphere"] = False, False
    return out, near, info


def hull_facts(v):
    """Independent facts about conv(v) from scipy's Qhull wrapper (nothing of coxeter involved):
    V (extreme points), E, F, census, volume, edge lengths, per-face regularity defect, in-radius spread."""
    v = np.asarray(v, dtype=float)
    hull = ConvexHull(v)
    groups = []
    for simp, eq in zip(hull.simplices, hull.equations):
        for g in groups:
            if np.all(np.abs(g["eq"] - eq) < 1e-9):
                g["simps"].append(simp)
                break
        else:
            groups.append({"eq": eq, "simps": [simp]})
    edges = set()
    census = {}
    reg_defect = 0.0
    # centroid of the solid from the hull's own tetrahedra (apex = interior point)
    o = v.mean(axis=0)
    tv, tc = 0.0, np.zeros(3)
    for simp in hull.simplices:
        a, b, c = v[simp]
        d = abs(float(np.linalg.det(np.array([a - o, b - o, c - o]))))
        tv += d
        tc += d * (a + b + c + o) / 4
    cen = tc / tv
    heights = []
    for g in groups:
        ec = {}
        for s in g["simps"]:
            for i in range(3):
                e = tuple(sorted((int(s[i]), int(s[(i + 1) % 3]))))
                ec[e] = ec.get(e, 0) + 1
        boundary = [e for e, c in ec.items() if c == 1]
        edges.update(boundary)
        k = len(boundary)
        census[k] = census.get(k, 0) + 1
        fv = sorted(set(i for e in boundary for i in e))
        pts = v[fv]
        fc = pts.mean(axis=0)
        r = np.linalg.norm(pts - fc, axis=1)
        sl = np.array([np.linalg.norm(v[a] - v[b]) for a, b in boundary])
        # regular polygon <=> equal sides and all corners at one distance from the face centre
        reg_defect = max(reg_defect, float((r.max() - r.min()) / r.mean()), float((sl.max() - sl.min()) / sl.mean()))
        nrm, off = g["eq"][:3], g["eq"][3]
        heights.append(-(float(np.dot(nrm, cen)) + float(off)))
    el = np.array([np.linalg.norm(v[a] - v[b]) for a, b in edges])
    heights = np.array(heights)
    return {"V": int(len(hull.vertices)), "E": len(edges), "F": len(groups), "census": census,
            "volume": float(hull.volume), "edge_spread": float((el.max() - el.min()) / el.mean()),
            "reg_defect": reg_defect,
            "inradius_spread": float((heights.max() - heights.min()) / abs(heights.mean())),
            "inradius_min": float(heights.min())}


def same_point_set(a, b, tol=TOL):
    a, b = np.asarray(a, float), np.asarray(b, float)
    if a.shape != b.shape:
        return False
    d = np.linalg.norm(a[:, None, :] - b[None, :, :], axis=2)
    return bool(np.all(d.min(axis=1) <= tol) and np.all(d.min(axis=0) <= tol))


# ------------------------------------------------------------------------------------------ per-entry check

LEAN_KEYS = ["uses", "uses_ref", "closed", "closed_ref", "euler", "convex", "convex_ref", "posvol", "unitvol",
             "edges", "diagonals", "insphere", "polyhedron"]


def lean_check(ctx, verts_int, faces):
    r = ctx.driver.Q("c18.check", *entry_tokens(verts_int, faces))
    d = dict(zip(LEAN_KEYS, r[:13]))
    d["V"], d["E2"], d["F"], d["vol6"] = r[13], r[14], r[15], r[16]
    d["census"] = r[17:30]
    return d


def compare_lean_float(ctx, case, lean, fl, near, what="c18.check"):
    """B: the Lean predicates (exact integers) against the same predicates in floating point"""
    for a, b in (("uses", "uses_ref"), ("closed", "closed_ref"), ("convex", "convex_ref")):
        if lean[a] != lean[b]:
            ctx.disagree(what + ":fast-vs-reference:" + a, case, [lean[a], lean[b]])
    for k in ("uses", "closed", "euler", "convex", "posvol", "unitvol", "edges", "diagonals", "insphere"):
        if fl.get(k) is None:
            continue
        if near.get(k):
            ctx.skipped_near_boundary += 1
            continue
        if bool(lean[k]) != bool(fl[k]):
            ctx.disagree(what + ":" + k, case, {"lean": lean[k], "float": fl[k]})


def eval_entry(ctx, tables_json, entries, fams, lean_id, name):
    """all clauses of the property for one entry; returns nothing, reports through ctx"""
    case = {"table": lean_id, "name": name, "kind": "entry"}
    fam = fams[lean_id]
    cls = CLASS_NAME[lean_id]
    rec = tables_json[lean_id + ":dict"].get(name)
    if rec is None:
        ctx.fail("TabulatedGSDShapeFamily.names:not-in-file:" + lean_id, "%s lists a name that is not a key of the JSON "
                 "file" % cls, case, name)
        return
    item = next(it for it in entries[lean_id] if it["name"] == name)
    jv = np.array([[float(c) for c in row] for row in rec["vertices"]], dtype=float)
    try:
        shape = _quiet(fam.get_shape, name)
    except Exception as e:
        ctx.fail("TabulatedGSDShapeFamily.get_shape:raises:" + lean_id, "%s.get_shape(%r) raised %s" % (
            cls, name, exc_kind(e)), case, repr(e))
        return
    if type(shape).__name__ != "ConvexPolyhedron":
        ctx.fail("TabulatedGSDShapeFamily.get_shape:not-ConvexPolyhedron:" + lean_id, "%s.get_shape(%r) is a %s" % (
            cls, name, type(shape).__name__), case, type(shape).__name__)
        return
    sv = np.asarray(shape.vertices, dtype=float)
    if sv.shape != jv.shape or not np.array_equal(sv, jv):
        ctx.fail("TabulatedGSDShapeFamily.get_shape:vertices-differ-from-record:" + lean_id,
                 "%s.get_shape(%r) does not have the vertices stored under that name" % (cls, name), case,
                 {"shape": list(sv.shape), "record": list(jv.shape),
                  "maxdiff": float(np.abs(sv - jv).max()) if sv.shape == jv.shape else None})
    faces = [[int(i) for i in f] for f in shape.faces]
    ctx.count("table:" + lean_id)
    ctx.count("vertices:%s" % ("<=12" if len(sv) <= 12 else "<=30" if len(sv) <= 30 else "<=60" if len(sv) <= 60
                               else ">60"))

    # ---- B: Lean predicates on (JSON integers, implementation's faces) vs the same in floating point
    lean = lean_check(ctx, item["verts"], faces)
    fl, near, info = cert_predicates(jv, faces)
    compare_lean_float(ctx, case, lean, fl, near)
    if (lean["V"], lean["E2"], lean["F"]) != (info["V"], info["E2"], info["F"]):
        ctx.disagree("c18.check:counts", case, [lean["V"], lean["E2"], lean["F"], info])
    if "vol6" in info and not ctx.close_enough(lean["vol6"] / 1e54, info["vol6"], 6.0):
        ctx.disagree("c18.check:vol6", case, [lean["vol6"] / 1e54, info["vol6"]])
    r = ctx.driver.Q("c18.table", WHICH.get(lean_id, 4), s2codes(name), s2codes(item["short"]),
                     *entry_tokens(item["verts"], faces))
    lean_table_ok, lean_textbook_ok = r[0], r[1]
    # the certificate clause itself (this is what the kernel proves per entry)
    if not lean["polyhedron"]:
        ctx.fail("TabulatedGSDShapeFamily.get_shape:not-closed-convex-surface:" + lean_id,
                 "the faces %s builds for %r are not a closed oriented convex surface on exactly the entry's vertices "
                 "(uses=%s closed=%s euler=%s convex=%s vol>0=%s)" % (cls, name, lean["uses"], lean["closed"],
                                                                       lean["euler"], lean["convex"], lean["posvol"]),
                 case, {k: lean[k] for k in LEAN_KEYS})

    # ---- C: independent facts about the implementation's shape
    try:
        hf = hull_facts(sv)
    except Exception as e:
        ctx.fail("TabulatedGSDShapeFamily.get_shape:degenerate:" + lean_id, "the vertices of %r have no 3-D hull" % name,
                 case, repr(e))
        return
    if hf["V"] != len(sv) or (hf["V"], 2 * hf["E"], hf["F"]) != (lean["V"], lean["E2"], lean["F"]) \
            or (shape.num_vertices, shape.num_edges, shape.num_faces) != (hf["V"], hf["E"], hf["F"]):
        ctx.fail("TabulatedGSDShapeFamily.get_shape:not-closed-convex-surface:" + lean_id,
                 "vertex/edge/face structure of %s[%r] differs from the convex hull of its vertices" % (cls, name), case,
                 {"hull": [hf["V"], hf["E"], hf["F"]], "faces": [lean["V"], lean["E2"] // 2, lean["F"]],
                  "reported": [shape.num_vertices, shape.num_edges, shape.num_faces], "stored": len(sv)})
    if lean_id in UNITVOL:
        tb = TEXTBOOK[lean_id].get(name)
        if tb is None:
            ctx.fail("TabulatedGSDShapeFamily.names:not-a-textbook-solid:" + lean_id,
                     "%r is not one of the %d %s solids" % (name, len(TEXTBOOK[lean_id]), lean_id), case, name)
        else:
            got = (hf["V"], hf["E"], hf["F"], {k: c for k, c in hf["census"].items()})
            cert = (lean["V"], lean["E2"] // 2, lean["F"], {k: c for k, c in enumerate(lean["census"]) if c})
            if got != tb or cert != tb:
                ctx.fail("TabulatedGSDShapeFamily.get_shape:textbook-counts:" + lean_id,
                         "%s[%r] does not have the textbook vertex/edge/face counts" % (cls, name), case,
                         {"textbook": tb, "hull": got, "faces": cert})
            if bool(lean_textbook_ok) != (cert == tb):
                ctx.disagree("c18.table:textbook", case, [lean_textbook_ok, cert, tb])
        vols = (hf["volume"], float(shape.volume), lean["vol6"] / 6e54)
        if any(abs(x - 1) > TOL for x in vols):
            ctx.fail("TabulatedGSDShapeFamily.get_shape:unit-volume:" + lean_id,
                     "%s[%r] does not have unit volume" % (cls, name), case, list(vols))
    if lean_id in REGULAR:
        if hf["edge_spread"] > TOL or not lean["edges"]:
            ctx.fail("TabulatedGSDShapeFamily.get_shape:equal-edges:" + lean_id,
                     "%s[%r] does not have equal edge lengths" % (cls, name), case, [hf["edge_spread"], lean["edges"]])
        if hf["reg_defect"] > TOL or not (lean["edges"] and lean["diagonals"] and lean["convex"]):
            ctx.fail("TabulatedGSDShapeFamily.get_shape:regular-faces:" + lean_id,
                     "%s[%r] has a face that is not a regular polygon" % (cls, name), case,
                     [hf["reg_defect"], lean["edges"], lean["diagonals"]])
    if lean_id == "johnson":
        tb = JOHNSON.get(johnson_key(item["short"]))
        got = (hf["V"], hf["E"], hf["F"])
        cert = (lean["V"], lean["E2"] // 2, lean["F"])
        if tb is None or got != tb or cert != tb:
            ctx.fail("TabulatedGSDShapeFamily.get_shape:johnson-counts:johnson",
                     "JohnsonFamily[%r] (%s) does not have the vertex/edge/face counts of that Johnson solid" % (
                         name, item["short"]), case, {"textbook": tb, "hull": got, "faces": cert})
        if bool(lean_textbook_ok) != (tb is not None and cert == tb):
            ctx.disagree("c18.table:johnson-counts", case, [lean_textbook_ok, cert, tb])
    if lean_id == "catalan":
        if hf["inradius_spread"] > TOL or hf["inradius_min"] <= 0 or not lean["insphere"]:
            ctx.fail("TabulatedGSDShapeFamily.get_shape:insphere:catalan",
                     "CatalanFamily[%r] has no insphere (face planes not at one distance from the centroid)" % name,
                     case, [hf["inradius_spread"], lean["insphere"]])
    # per-table obligation as the kernel sees it must agree with the pieces
    want = bool(lean["polyhedron"])
    if lean_id in ("platonic", "archimedean"):
        want = want and bool(lean_textbook_ok) and bool(lean["unitvol"]) and bool(lean["edges"] and lean["diagonals"])
    elif lean_id == "catalan":
        want = want and bool(lean_textbook_ok) and bool(lean["unitvol"]) and bool(lean["insphere"])
    elif lean_id == "johnson":
        want = want and bool(lean["edges"] and lean["diagonals"]) and bool(lean_textbook_ok)
    if bool(lean_table_ok) != want:
        ctx.disagree("c18.table:obligation", case, [lean_table_ok, want])

    # ---- repository entries that cite a family
    if lean_id == "science1220869":
        src = rec.get("source")
        if src:
            ctx.count("science:cites:" + str(src))
            sid = FILE_TO_ID.get(src)
            ref = rec.get("name")
            ok = False
            detail = None
            if sid is None or sid == "science1220869" or ref not in fams[sid].names:
                detail = "cited entry %r of %r does not exist" % (ref, src)
            else:
                other = _quiet(fams[sid].get_shape, ref)
                ok = same_point_set(sv, other.vertices)
                oitem = next(it for it in entries[sid] if it["name"] == ref)
                lsame = ctx.driver.Q("c18.same", L([list(p) for p in item["verts"]]), L([list(p) for p in oitem["verts"]]))[0]
                ojv = np.array([[float(c) for c in row] for row in tables_json[sid + ":dict"][ref]["vertices"]])
                if bool(lsame) != same_point_set(jv, ojv):   # B: same records on both sides
                    ctx.disagree("c18.same", case, [lsame, same_point_set(jv, ojv)])
                detail = "vertex sets differ"
            if not ok:
                ctx.fail("DOI_SHAPE_REPOSITORIES.get_shape:cited-family-entry:science1220869",
                         "repository entry %r cites %r of %s but does not coincide with it" % (name, ref, src), case,
                         detail)
        else:
            ctx.count("science:no-source")


# ------------------------------------------------------------------------------------------ family-level checks


def eval_family(ctx, tables_json, fams, lean_id):
    """names (count, file order, no repeats) and iteration (every name once, in order, same shape as get_shape)"""
    fam = fams[lean_id]
    cls = CLASS_NAME[lean_id]
    case = {"table": lean_id, "kind": "family"}
    names = list(fam.names)
    file_names = [n for n, _ in tables_json[lean_id]]
    if len(names) != EXPECTED_SIZES[lean_id]:
        ctx.fail("TabulatedGSDShapeFamily.names:count:" + lean_id, "%s has %d entries, the property says %d" % (
            cls, len(names), EXPECTED_SIZES[lean_id]), case, len(names))
    if len(set(names)) != len(names) or len(set(file_names)) != len(file_names):
        ctx.fail("TabulatedGSDShapeFamily.names:repeated:" + lean_id, "%s lists a name twice" % cls, case,
                 [n for n in names if names.count(n) > 1][:5])
    if names != file_names:
        ctx.fail("TabulatedGSDShapeFamily.names:file-order:" + lean_id,
                 "%s.names is not the key order of the JSON file" % cls, case,
                 [a for a, b in zip(names, file_names) if a != b][:5])
    try:
        it = _quiet(lambda: list(iter(fam)))
    except Exception as e:
        ctx.fail("TabulatedGSDShapeFamily.__iter__:raises:" + lean_id, "iterating %s raised %s" % (cls, exc_kind(e)),
                 case, repr(e))
        return
    it_names = [k for k, _ in it]
    if it_names != names:
        ctx.fail("TabulatedGSDShapeFamily.__iter__:names-once-in-order:" + lean_id,
                 "iter(%s) does not yield every name once in the order of names" % cls, case,
                 {"yielded": len(it_names), "names": len(names),
                  "first_difference": next(([a, b] for a, b in zip(it_names, names) if a != b), None)})
    for k, shp in it:
        try:
            ref = _quiet(fam.get_shape, k)
            same = (type(shp) is type(ref)) and np.array_equal(np.asarray(shp.vertices), np.asarray(ref.vertices))
        except Exception as e:
            same = False
        if not same:
            ctx.fail("TabulatedGSDShapeFamily.__iter__:same-shape-as-get_shape:" + lean_id,
                     "iter(%s) yields a different shape for %r than get_shape" % (cls, k),
                     {"table": lean_id, "name": k, "kind": "family"}, k)
            break
    # B: the model's iteration over the same keys
    m_names, m_iter, _ = model_family(ctx, [(n, "ConvexPolyhedron", False) for n in file_names], "")
    if m_names != file_names or [i for _, (c, i) in m_iter] != list(range(len(file_names))) \
            or any(c != 0 for _, (c, i) in m_iter):
        ctx.disagree("c18.family:iter", case, "model iteration differs from the file order")
    if it_names == names and names == file_names and m_names != it_names:
        ctx.disagree("c18.family:iter-vs-impl", case, [m_names[:3], it_names[:3]])


def model_family(ctx, records, query):
    """records: [(name, type or None, rounding)] -> (names, [(name, (class, payload|kind))], query result)"""
    toks = [len(records)]
    for name, typ, rounding in records:
        toks += [s2codes(name), 1 if typ is not None else 0, s2codes(typ or ""), 1 if rounding else 0]
    r = ctx.driver.Q("c18.family", *toks, s2codes(query))
    pos = [0]

    def take():
        x = r[pos[0]]
        pos[0] += 1
        return x

    def take_str():
        n = take()
        return "".join(chr(take()) for _ in range(n))

    def take_shape():
        c = take()
        if c == -1:
            return (-1, take_str())
        return (c, take())

    n = take()
    it = []
    for _ in range(n):
        k = take_str()
        it.append((k, take_shape()))
    q = take_shape()
    return [k for k, _ in it], it, q


def impl_class_code(fn):
    try:
        s = _quiet(fn)
    except Exception as e:
        return (-1, exc_kind(e))
    nm = type(s).__name__
    return (0 if nm == "ConvexPolyhedron" else 1 if nm == "ConvexSpheropolyhedron" else 2, nm)


def unknown_name_probes(ctx, fams, lean_id):
    fam = fams[lean_id]
    names = list(fam.names)
    rng = ctx.rng
    probes = ["", "No Such Solid", names[0].lower(), names[0] + " ", " " + names[-1], names[0][:-1], "cube", "P00",
              "J93", "0", names[-1].upper()]
    for _ in range(ctx.budget(6, 60)):
        n = int(rng.integers(1, 12))
        probes.append("".join(chr(int(c)) for c in rng.integers(32, 127, size=n)))
    for q in probes:
        if q in names:
            continue
        case = {"table": lean_id, "name": q, "kind": "unknown-name"}
        ctx.case(case, nontrivial=False)
        ctx.count("probe:unknown-name")
        got = impl_class_code(lambda: fam.get_shape(q))
        if got != (-1, "KeyError"):
            ctx.fail("TabulatedGSDShapeFamily.get_shape:unknown-name-no-KeyError:" + lean_id,
                     "%s.get_shape(%r) did not raise KeyError" % (CLASS_NAME[lean_id], q), case, list(got))
        _, _, mq = model_family(ctx, [(n, "ConvexPolyhedron", False) for n in names], q)
        if mq != (-1, "KeyError") or (got[0] == -1 and got[1] != mq[1]):
            ctx.disagree("c18.family:unknown-name", case, [list(mq), list(got)])


def synthetic_family(ctx):
    """B for get_shape/__iter__/from_gsd_type_shapes on families built here (classes and error kinds)"""
    from coxeter.families import TabulatedGSDShapeFamily
    cube = [[x, y, z] for x in (0, 1) for y in (0, 1) for z in (0, 1)]
    tet = [[0, 0, 0], [1, 0, 0], [0, 1, 0], [0, 0, 1]]
    pool = [
        ("poly", {"type": "ConvexPolyhedron", "vertices": cube, "extra": 1}, ("ConvexPolyhedron", False)),
        ("round", {"type": "ConvexPolyhedron", "vertices": tet, "rounding_radius": 0.25}, ("ConvexPolyhedron", True)),
        ("ball", {"type": "Sphere", "diameter": 2.0}, ("Sphere", False)),
        ("egg", {"type": "Ellipsoid", "a": 1.0, "b": 2.0, "c": 3.0}, ("Ellipsoid", False)),
        ("mesh", {"type": "Mesh", "vertices": tet, "indices": [[0, 2, 1], [0, 1, 3], [0, 3, 2], [1, 2, 3]]},
         ("Mesh", False)),
        ("untyped", {"vertices": cube}, (None, False)),
        ("foo", {"type": "Foo", "vertices": cube}, ("Foo", False)),
        ("lower", {"type": "convexpolyhedron", "vertices": cube}, ("convexpolyhedron", False)),
    ]
    for _ in range(ctx.budget(4, 40)):
        k = int(ctx.rng.integers(1, len(pool) + 1))
        pick = [pool[i] for i in ctx.rng.permutation(len(pool))[:k]]
        data = {n: d for n, d, _ in pick}
        fam = TabulatedGSDShapeFamily(data)
        recs = [(n, t[0], t[1]) for n, _, t in pick]
        q = [n for n, _, _ in pool][int(ctx.rng.integers(0, len(pool)))]
        case = {"kind": "synthetic-family", "records": [n for n, _, _ in pick], "query": q}
        ctx.case(case)
        ctx.count("probe:synthetic-family")
        m_names, m_iter, m_q = model_family(ctx, recs, q)
        if m_names != list(fam.names):
            ctx.disagree("c18.family:names", case, [m_names, list(fam.names)])
        for (k_, (mc, mp)) in m_iter:
            got = impl_class_code(lambda: fam.get_shape(k_))
            if (mc, mp if mc == -1 else None) != (got[0], got[1] if got[0] == -1 else None):
                ctx.disagree("c18.family:get_shape-class", case, [k_, [mc, mp], list(got)])
        got = impl_class_code(lambda: fam.get_shape(q))
        if (m_q[0], m_q[1] if m_q[0] == -1 else None) != (got[0], got[1] if got[0] == -1 else None):
            ctx.disagree("c18.family:query", case, [q, list(m_q), list(got)])


def doi_probes(ctx):
    from coxeter import families as cf
    from coxeter.families import doi_data_repositories as ddr
    to_file = {k: list(v) for k, v in ddr._DOI_TO_FILE.items()}
    to_fam = {k: [c.__name__ for c in v] for k, v in ddr._DOI_TO_FAMILY.items()}
    known = list(to_file) + [k for k in to_fam if k not in to_file]
    unknown = ["", "10.0000/nothing", DOI + " ", DOI.upper() if DOI.upper() != DOI else DOI + "x", DOI[:-1],
               "science1220869", "10.1126/science.1220869.json", "doi:" + DOI]
    for _ in range(ctx.budget(5, 50)):
        n = int(ctx.rng.integers(1, 25))
        unknown.append("".join(chr(int(c)) for c in ctx.rng.integers(33, 127, size=n)))
    unknown = [u for u in unknown if u not in known]
    # sequence through ONE fresh dictionary (the module-level one is left alone): unknown, known, unknown, known again
    seq = []
    for i, u in enumerate(unknown):
        seq.append(u)
        if i < len(known):
            seq.append(known[i])
    seq += known + unknown[:2]
    d = cf._KeyedDefaultDict(cf._doi_shape_collection_factory)
    impl = []
    for key in seq:
        case = {"kind": "doi", "key": key}
        ctx.case(case, nontrivial=key in known)
        ctx.count("probe:doi-known" if key in known else "probe:doi-unknown")
        try:
            v = _quiet(lambda: d[key])
            items = [(0, "file") if type(x).__name__ == "TabulatedGSDShapeFamily" else (1, type(x).__name__) for x in v]
            impl.append((0, items, len(d)))
            if key not in known:
                ctx.fail("DOI_SHAPE_REPOSITORIES.__getitem__:unknown-doi-no-KeyError",
                         "an unknown DOI %r did not raise KeyError" % key, case, repr(v)[:200])
            elif not items or d[key] is not v:
                ctx.fail("DOI_SHAPE_REPOSITORIES.__getitem__:known-doi", "a known DOI gives no families or is not "
                         "cached", case, key)
        except Exception as e:
            impl.append((1, exc_kind(e), len(d)))
            if key in known:
                ctx.fail("DOI_SHAPE_REPOSITORIES.__getitem__:known-doi", "known DOI %r raised %s" % (key, exc_kind(e)),
                         case, repr(e))
            elif exc_kind(e) != "KeyError":
                ctx.fail("DOI_SHAPE_REPOSITORIES.__getitem__:unknown-doi-no-KeyError",
                         "unknown DOI %r raised %s, not KeyError" % (key, exc_kind(e)), case, repr(e))
            elif key in d:
                ctx.fail("DOI_SHAPE_REPOSITORIES.__getitem__:unknown-doi-stored",
                         "a failed lookup of %r left a key in the dictionary" % key, case, key)
    # the module-level object answers the same way for an unknown key
    try:
        cf.DOI_SHAPE_REPOSITORIES["10.0000/nothing"]
        ctx.fail("DOI_SHAPE_REPOSITORIES.__getitem__:unknown-doi-no-KeyError", "DOI_SHAPE_REPOSITORIES accepted an "
                 "unknown DOI", {"kind": "doi", "key": "10.0000/nothing"}, "")
    except KeyError:
        pass
    # B: the model through the same sequence
    def mp(m):
        return L([[s2codes(k), L([s2codes(x) for x in v])] for k, v in m.items()])
    r = ctx.driver.Q("c18.doi", mp(to_file), mp(to_fam), L([s2codes(k) for k in seq]))
    pos = 0
    model = []
    for _ in seq:
        tag = r[pos]; pos += 1
        if tag == 0:
            n = r[pos]; pos += 1
            items = []
            for _ in range(n):
                kind = r[pos]; pos += 1
                ln = r[pos]; pos += 1
                sname = "".join(chr(c) for c in r[pos:pos + ln]); pos += ln
                items.append((0, "file") if kind == 0 else (1, sname))
            size = r[pos]; pos += 1
            model.append((0, items, size))
        else:
            ln = r[pos]; pos += 1
            kind = "".join(chr(c) for c in r[pos:pos + ln]); pos += ln
            size = r[pos]; pos += 1
            model.append((1, kind, size))
    if model != impl:
        k = next(i for i, (a, b) in enumerate(zip(model, impl)) if a != b)
        ctx.disagree("c18.doi", {"kind": "doi", "key": seq[k]}, {"model": repr(model[k]), "impl": repr(impl[k])})


def textbook_copies(ctx):
    """the two hand-entered copies (Spec/Textbook.lean, TEXTBOOK above) must agree"""
    for which, lean_id in enumerate(("platonic", "archimedean", "catalan", "johnson")):
        r = ctx.driver.Q("c18.textbook", which)
        pos = 1
        rows = {}
        for _ in range(r[0]):
            ln = r[pos]; pos += 1
            name = "".join(chr(c) for c in r[pos:pos + ln]); pos += ln
            v, e, f, nc = r[pos:pos + 4]; pos += 4
            cen = {}
            for _ in range(nc):
                cen[r[pos]] = r[pos + 1]; pos += 2
            cons = r[pos]; pos += 1
            rows[name] = (v, e, f, cen)
            if not cons:
                ctx.disagree("c18.textbook:inconsistent-row", {"kind": "textbook", "name": name}, [v, e, f, cen])
        mine = TEXTBOOK[lean_id] if lean_id in TEXTBOOK else {k: v + ({},) for k, v in JOHNSON.items()}
        if rows != mine:
            ctx.disagree("c18.textbook", {"kind": "textbook", "table": lean_id},
                         sorted(set(rows) ^ set(mine)) or [n for n in rows if rows[n] != mine[n]])


def mutant_certificates(ctx, entries, tables_json):
    """corrupted certificates / vertices: the kernel-fast predicates must equal their reference definitions and the
    floating point copy (the `false` side of the predicates, which the real tables never exercise)"""
    rng = ctx.rng
    pool = [(lid, it) for lid in entries for it in entries[lid] if it["faces"] and len(it["verts"]) <= 40]
    n = ctx.budget(40, 600)
    rejected = 0
    for _ in range(n):
        lid, it = pool[int(rng.integers(0, len(pool)))]
        verts = [list(p) for p in it["verts"]]
        faces = [list(f) for f in it["faces"]]
        kind = ["swap", "reverse", "drop", "dup", "range", "move", "merge", "nudge"][int(rng.integers(0, 8))]
        fi = int(rng.integers(0, len(faces)))
        if kind == "swap":
            f = faces[fi]
            i, j = rng.choice(len(f), size=2, replace=False)
            f[i], f[j] = f[j], f[i]
        elif kind == "reverse":
            faces[fi] = faces[fi][::-1]
        elif kind == "drop":
            del faces[fi]
        elif kind == "dup":
            faces.append(list(faces[fi]))
        elif kind == "range":
            faces[fi][0] = len(verts) + int(rng.integers(0, 3))
        elif kind == "move":
            vi = int(rng.integers(0, len(verts)))
            s = float(rng.choice([-1, 1])) * 10.0 ** float(rng.uniform(-7, -2))
            verts[vi] = [int(round(c * (1 + s))) for c in verts[vi]]
        elif kind == "merge":
            verts.append([0, 0, 0])          # an interior point that no face uses
        elif kind == "nudge":
            vi = int(rng.integers(0, len(verts)))
            verts[vi] = [c + int(rng.integers(-500, 501)) for c in verts[vi]]   # 5e-16: far inside the tolerance
        case = {"kind": "mutant", "table": lid, "name": it["name"], "mutation": kind, "verts": verts, "faces": faces}
        ctx.case({"kind": "mutant", "table": lid, "name": it["name"], "mutation": kind, "face": fi})
        ctx.count("mutant:" + kind)
        lean = lean_check(ctx, verts, faces)
        fl, near, _ = cert_predicates(np.array(verts, dtype=float) / SCALE, faces)
        compare_lean_float(ctx, case, lean, fl, near, what="c18.check(mutant)")
        if not lean["polyhedron"]:
            rejected += 1
        if it.get("_base_ok") is None:
            it["_base_ok"] = bool(lean_check(ctx, it["verts"], it["faces"])["polyhedron"])
        if not it["_base_ok"]:
            continue   # the unmodified certificate is already broken (reported by eval_entry); nothing to expect
        if kind == "nudge" and not lean["polyhedron"]:
            ctx.disagree("c18.check(mutant):nudge-rejected", case, {k: lean[k] for k in LEAN_KEYS})
        if kind in ("reverse", "drop", "dup", "range", "merge") and lean["polyhedron"]:
            ctx.disagree("c18.check(mutant):accepted", case, kind)
    ctx.count("mutant:rejected", rejected)


# ------------------------------------------------------------------------------------------ run / replay


def _load(ctx):
    fams = _families()
    tables_json, notes = read_json_tables()
    for lean_id in list(tables_json):
        tables_json[lean_id + ":dict"] = dict(tables_json[lean_id])
    entries, _ = table_entries(fams)
    return fams, tables_json, entries


def run(ctx):
    fams, tables_json, entries = _load(ctx)
    textbook_copies(ctx)
    for lean_id, fn, _ in TABLES:
        eval_family(ctx, tables_json, fams, lean_id)
        ctx.case({"table": lean_id, "kind": "family"})
        for name in list(fams[lean_id].names):
            ctx.case({"table": lean_id, "name": name, "kind": "entry"})
            eval_entry(ctx, tables_json, entries, fams, lean_id, name)
        if lean_id == "johnson":
            shorts = sorted(str(johnson_key(it["short"])) for it in entries[lean_id])
            if shorts != sorted(JOHNSON):
                ctx.fail("TabulatedGSDShapeFamily.names:johnson-numbers:johnson",
                         "the short_name fields of JohnsonFamily are not J1 ... J92 once each",
                         {"table": lean_id, "kind": "family"}, sorted(set(shorts) ^ set(JOHNSON))[:10])
        # textbook solids that are missing from the table
        if lean_id in TEXTBOOK:
            for tname in TEXTBOOK[lean_id]:
                if tname not in fams[lean_id].names:
                    ctx.fail("TabulatedGSDShapeFamily.names:textbook-solid-missing:" + lean_id,
                             "%s has no entry %r" % (CLASS_NAME[lean_id], tname),
                             {"table": lean_id, "name": tname, "kind": "family"}, tname)
        unknown_name_probes(ctx, fams, lean_id)
    doi_probes(ctx)
    synthetic_family(ctx)
    mutant_certificates(ctx, entries, tables_json)
    # the tables the Lean theorems of this build are about are the ones checked above
    if not ctx.obligation_breaks and getattr(ctx, "_c18_digest", None):
        os.makedirs(os.path.dirname(OK_MARK), exist_ok=True)
        with open(OK_MARK, "w") as f:
            f.write(ctx._c18_digest)


def replay(ctx, payload):
    case = payload.get("case", payload)
    if not isinstance(case, dict) or "kind" not in case or case.get("kind") == "no-failing-input-found":
        case = {}   # nothing specific to re-evaluate: run everything
    fams, tables_json, entries = _load(ctx)
    kind = case.get("kind")
    if kind == "entry" and case.get("table") in fams:
        ctx.case(case)
        eval_family(ctx, tables_json, fams, case["table"])
        eval_entry(ctx, tables_json, entries, fams, case["table"], case["name"])
    elif kind in ("family", "unknown-name") and case.get("table") in fams:
        ctx.case(case)
        eval_family(ctx, tables_json, fams, case["table"])
        if kind == "family" and case.get("name") in list(fams[case["table"]].names):
            eval_entry(ctx, tables_json, entries, fams, case["table"], case["name"])
        unknown_name_probes(ctx, fams, case["table"])
    elif kind == "doi":
        ctx.case(case)
        doi_probes(ctx)
    elif kind == "mutant":
        ctx.case({k: case[k] for k in case if k not in ("verts", "faces")})
        lean = lean_check(ctx, case["verts"], case["faces"])
        fl, near, _ = cert_predicates(np.array(case["verts"], dtype=float) / SCALE, case["faces"])
        compare_lean_float(ctx, case, lean, fl, near, what="c18.check(mutant)")
    else:
        run(ctx)
