"""C18 — every tabulated family entry is the solid its name says.

translate(ctx): regenerates lean/CoxeterVerif/Generated/Tables*.lean from /repo's JSON tables (names in
file order, vertices as integers x 10^18, `source`/`name` of repository records) plus the face lists the
IMPLEMENTATION builds in this run (`family.get_shape(name).faces`, a certificate re-verified by the Lean
kernel).  run(ctx): exhaustive oracle + correspondence over all 290 entries.
"""
import hashlib
import json
import os
import warnings
from decimal import Decimal

import numpy as np
from scipy.spatial import ConvexHull

from common import L, LEAN, ModelRaise, exc_kind

RULE = ("exhaustive: every entry of platonic(5), archimedean(13), catalan(13), johnson(92), prism_antiprism(16), "
        "pyramid_dipyramid(6) and of the DOI 10.1126/science.1220869 repository (145), each through names, iter and "
        "get_shape; plus unknown names / DOIs (fixed probes + random strings). distinct = distinct (table, entry); "
        "non-trivial = entry with >= 4 vertices")
ASSUMPTIONS = [
    "tolerances are part of the statements: plane distances <= 1e-9, |volume-1| <= 1e-9, squared lengths / squared "
    "in-radius equal within 2e-9 relative (the JSON holds 16-17 digit decimals)",
    "textbook (V,E,F) and face census of the 5+13+13 solids are entered by hand (Spec/Textbook.lean and TEXTBOOK "
    "below, two independent copies compared with each other by the driver op c18.textbook)",
    "the Lean table theorems are about the JSON decimals (exact at scale 10^18) with the face lists the implementation "
    "produced in the generating run as a certificate; that get_shape(name) returns exactly those vertices is checked "
    "by the oracle on every run",
    "regular face = planar convex polygon with equal sides and equal short diagonals; insphere = all face planes at one "
    "distance from the centroid of the solid",
]

SCALE = 10 ** 18
DOI = "10.1126/science.1220869"
# (lean identifier, json file, attribute in coxeter.families or None for the DOI repository)
TABLES = [
    ("platonic", "platonic.json", "PlatonicFamily"),
    ("archimedean", "archimedean.json", "ArchimedeanFamily"),
    ("catalan", "catalan.json", "CatalanFamily"),
    ("johnson", "johnson.json", "JohnsonFamily"),
    ("prismAntiprism", "prism_antiprism.json", "PrismAntiprismFamily"),
    ("pyramidDipyramid", "pyramid_dipyramid.json", "PyramidDipyramidFamily"),
    ("science1220869", "science1220869.json", None),
]
EXPECTED_SIZES = {"platonic": 5, "archimedean": 13, "catalan": 13, "johnson": 92, "prismAntiprism": 16,
                  "pyramidDipyramid": 6, "science1220869": 145}
REGULAR = ("platonic", "archimedean", "johnson")   # equal edges + regular faces
UNITVOL = ("platonic", "archimedean", "catalan")   # textbook counts + unit volume
PREDICATE = {
    "platonic": "Tab.platonicOk", "archimedean": "Tab.archimedeanOk", "catalan": "Tab.catalanOk",
    "johnson": "Tab.johnsonOk", "prismAntiprism": "Tab.plainOk", "pyramidDipyramid": "Tab.plainOk",
    "science1220869": "Tab.repositoryOk Tables.bySource",
}
CHUNK = 24  # entries per generated Lean file (keeps each file's elaboration short)

# Hand-entered, independent of /repo AND of Spec/Textbook.lean (compared with it through the driver):
# name: (V, E, F, {corners: count})
TEXTBOOK = {
    "platonic": {
        "Tetrahedron": (4, 6, 4, {3: 4}), "Cube": (8, 12, 6, {4: 6}), "Octahedron": (6, 12, 8, {3: 8}),
        "Dodecahedron": (20, 30, 12, {5: 12}), "Icosahedron": (12, 30, 20, {3: 20}),
    },
    "archimedean": {
        "Truncated Tetrahedron": (12, 18, 8, {3: 4, 6: 4}),
        "Cuboctahedron": (12, 24, 14, {3: 8, 4: 6}),
        "Truncated Cube": (24, 36, 14, {3: 8, 8: 6}),
        "Truncated Octahedron": (24, 36, 14, {4: 6, 6: 8}),
        "Rhombicuboctahedron": (24, 48, 26, {3: 8, 4: 18}),
        "Truncated Cuboctahedron": (48, 72, 26, {4: 12, 6: 8, 8: 6}),
        "Snub Cuboctahedron": (24, 60, 38, {3: 32, 4: 6}),
        "Icosidodecahedron": (30, 60, 32, {3: 20, 5: 12}),
        "Truncated Dodecahedron": (60, 90, 32, {3: 20, 10: 12}),
        "Truncated Icosahedron": (60, 90, 32, {5: 12, 6: 20}),
        "Rhombicosidodecahedron": (60, 120, 62, {3: 20, 4: 30, 5: 12}),
        "Truncated Icosidodecahedron": (120, 180, 62, {4: 30, 6: 20, 10: 12}),
        "Snub Icosidodecahedron": (60, 150, 92, {3: 80, 5: 12}),
    },
    "catalan": {
        "Triakis Tetrahedron": (8, 18, 12, {3: 12}),
        "Rhombic Dodecahedron": (14, 24, 12, {4: 12}),
        "Triakis Octahedron": (14, 36, 24, {3: 24}),
        "Tetrakis Hexahedron": (14, 36, 24, {3: 24}),
        "Deltoidal Icositetrahedron": (26, 48, 24, {4: 24}),
        "Disdyakis Dodecahedron": (26, 72, 48, {3: 48}),
        "Pentagonal Icositetrahedron": (38, 60, 24, {5: 24}),
        "Rhombic Triacontahedron": (32, 60, 30, {4: 30}),
        "Triakis Icosahedron": (32, 90, 60, {3: 60}),
        "Pentakis Dodecahedron": (32, 90, 60, {3: 60}),
        "Deltoidal Hexecontahedron": (62, 120, 60, {4: 60}),
        "Disdyakis Triacontahedron": (62, 180, 120, {3: 120}),
        "Pentagonal Hexecontahedron": (92, 150, 60, {5: 60}),
    },
}

GEN_DIR = os.path.join(LEAN, "CoxeterVerif", "Generated")
OK_MARK = os.path.join(LEAN, ".lake", "c18_generated_ok.sha1")


# ------------------------------------------------------------------------------------------ sources


def _families():
    with warnings.catch_warnings():
        warnings.simplefilter("ignore")
        import coxeter.families as cf
    out = {}
    for lean_id, fn, attr in TABLES:
        out[lean_id] = getattr(cf, attr) if attr else cf.DOI_SHAPE_REPOSITORIES[DOI][0]
    return out


def _data_folder():
    from coxeter.families import doi_data_repositories as ddr
    return ddr._DATA_FOLDER


def read_json_tables():
    """The JSON files read independently of the loader: {lean_id: [(name, record-as-dict with Decimal numbers)]}."""
    out = {}
    notes = []
    for lean_id, fn, _ in TABLES:
        with open(os.path.join(_data_folder(), fn)) as f:
            pairs = json.load(f, object_pairs_hook=list, parse_float=Decimal, parse_int=Decimal)
        ents = []
        for name, rec in pairs:
            rec = dict(rec)
            ents.append((name, rec))
        out[lean_id] = ents
    return out, notes


def scaled_vertices(rec, notes, where):
    vs = []
    for row in rec.get("vertices", []):
        r = []
        for x in row:
            sx = Decimal(x) * SCALE
            ix = int(sx.to_integral_value())
            if sx != ix:
                notes.append("%s: coordinate %s is not exact at 1e-18, rounded" % (where, x))
            r.append(ix)
        vs.append(tuple(r))
    return vs


def impl_faces(fam, name):
    """faces of the shape the implementation builds for `name` (None when it raises)."""
    try:
        with warnings.catch_warnings():
            warnings.simplefilter("ignore")
            s = fam.get_shape(name)
        return [[int(i) for i in f] for f in s.faces]
    except Exception:
        return None


# ------------------------------------------------------------------------------------------ translator


def _lean_str(s):
    return json.dumps(s, ensure_ascii=False)


def _int_lean(v):
    # raw constructors + raw literals: nothing to unfold for the kernel
    return ".ofNat (nat_lit %d)" % v if v >= 0 else ".negSucc (nat_lit %d)" % (-v - 1)


def _entry_lean(ident, name, typ, verts, faces, source, ref):
    vs = ", ".join("⟨%s, %s, %s⟩" % tuple(_int_lean(c) for c in v) for v in verts)
    fs = ", ".join("[" + ", ".join("nat_lit %d" % i for i in f) + "]" for f in faces)
    return ("def %s : Tab.Entry :=\n  { name := %s, type := %s, source := %s, ref := %s,\n    verts := [%s],\n"
            "    faces := [%s] }\n" % (ident, _lean_str(name), _lean_str(typ), _lean_str(source), _lean_str(ref), vs, fs))


def generate(fams=None):
    """-> ({relative file name: content}, notes, sizes)"""
    fams = fams or _families()
    tables, notes = read_json_tables()
    files = {}
    sizes = {}
    index_imports = []
    index_defs = []
    check_imports = []
    check_thms = []
    for lean_id, fn, _ in TABLES:
        ents = tables[lean_id]
        sizes[lean_id] = len(ents)
        cap = lean_id[0].upper() + lean_id[1:]
        chunk_ids = []
        for c0 in range(0, max(len(ents), 1), CHUNK):
            k = c0 // CHUNK
            mod = "Tables%s_%d" % (cap, k)
            body = ["import CoxeterVerif.Model.Tabulated",
                    "/-! GENERATED by harness/c18.py translate() from coxeter/families/data/%s — do not edit. -/" % fn,
                    "namespace Tables", ""]
            ids = []
            for j, (name, rec) in enumerate(ents[c0:c0 + CHUNK]):
                ident = "%s_%d" % (lean_id, c0 + j)
                verts = scaled_vertices(rec, notes, "%s[%s]" % (fn, name))
                faces = impl_faces(fams[lean_id], name)
                if faces is None:
                    faces = []
                    notes.append("%s[%s]: get_shape raised; empty certificate" % (fn, name))
                src = rec.get("source") or ""
                ref = (rec.get("name") or "") if src else ""
                typ = rec.get("type")
                body.append(_entry_lean(ident, name, typ if isinstance(typ, str) else "", verts, faces,
                                        src if isinstance(src, str) else "", ref if isinstance(ref, str) else ""))
                ids.append(ident)
            body.append("def %s_chunk%d : List Tab.Entry := [%s]" % (lean_id, k, ", ".join(ids)))
            body.append("\nend Tables\n")
            files[mod + ".lean"] = "\n".join(body)
            chunk_ids.append("%s_chunk%d" % (lean_id, k))
            index_imports.append("import CoxeterVerif.Generated." + mod)
            # the kernel-evaluated obligation of this chunk
            pred = PREDICATE[lean_id]
            cmod = "Check%s_%d" % (cap, k)
            files[cmod + ".lean"] = "\n".join([
                "import CoxeterVerif.Spec.Textbook",
                "import CoxeterVerif.Generated." + ("Tables" if lean_id == "science1220869" else mod),
                "/-! GENERATED by harness/c18.py translate() — do not edit.",
                "    Kernel evaluation of the C18 obligations of one chunk of %s. -/" % fn,
                "set_option maxRecDepth 1000000", "namespace Tables", "",
                "theorem %s_chunk%d_ok : %s_chunk%d.all (%s) = true := by decide +kernel" % (lean_id, k, lean_id, k, pred),
                "", "end Tables", ""])
            check_imports.append("import CoxeterVerif.Generated." + cmod)
        check_thms.append(
            "theorem %s_ok : %s.all (%s) = true := by\n  simp only [%s, List.all_append, %s, Bool.and_self]\n" % (
                lean_id, lean_id, PREDICATE[lean_id], lean_id,
                ", ".join("%s_ok" % c for c in chunk_ids)))
        index_defs.append("/-- `%s`, %d entries in file order -/\ndef %s : List Tab.Entry := %s\n" % (
            fn, len(ents), lean_id, " ++ ".join(chunk_ids) if chunk_ids else "[]"))
    # the index: whole tables, the file-name -> table map used by `source`, and the DOI maps
    from coxeter.families import doi_data_repositories as ddr
    to_file = ", ".join("(%s, [%s])" % (_lean_str(k), ", ".join(_lean_str(x) for x in v))
                        for k, v in ddr._DOI_TO_FILE.items())
    to_fam = ", ".join("(%s, [%s])" % (_lean_str(k), ", ".join(_lean_str(c.__name__) for c in v))
                       for k, v in ddr._DOI_TO_FAMILY.items())
    idx = index_imports + [
        "/-! GENERATED by harness/c18.py translate() — do not edit. -/", "namespace Tables", ""] + index_defs + [
        "/-- table named by a `source` field -/",
        "def bySource (s : String) : List Tab.Entry :=",
    ] + ["  %s s = %s then %s" % ("if" if i == 0 else "else if", _lean_str(fn), lean_id)
         for i, (lean_id, fn, _) in enumerate(TABLES)] + [
        "  else []", "",
        "/-- `_DOI_TO_FILE`, `_DOI_TO_FAMILY` (by introspection of coxeter.families.doi_data_repositories) -/",
        "def doiMaps : Tab.DoiMaps := { toFile := [%s], toFamily := [%s] }" % (to_file, to_fam),
        "", "end Tables", ""]
    files["Tables.lean"] = "\n".join(idx)
    files["Checks.lean"] = "\n".join(
        ["import CoxeterVerif.Generated.Tables"] + check_imports + [
            "/-! GENERATED by harness/c18.py translate() — do not edit.",
            "    The chunk obligations assembled into one statement per table. -/", "namespace Tables", ""]
        + check_thms + ["end Tables", ""])
    return files, notes, sizes


def _digest(files):
    h = hashlib.sha1()
    for k in sorted(files):
        h.update(k.encode())
        h.update(files[k].encode())
    return h.hexdigest()


def translate(ctx):
    files, notes, sizes = generate()
    os.makedirs(GEN_DIR, exist_ok=True)
    changed = []
    for fn, content in files.items():
        p = os.path.join(GEN_DIR, fn)
        old = open(p).read() if os.path.exists(p) else None
        if old != content:
            with open(p, "w") as f:
                f.write(content)
            changed.append(fn)
    for fn in os.listdir(GEN_DIR):  # stale chunks of a table that shrank
        if fn.endswith(".lean") and fn not in files:
            os.unlink(os.path.join(GEN_DIR, fn))
            changed.append(fn)
    digest = _digest(files)
    last_ok = open(OK_MARK).read().strip() if os.path.exists(OK_MARK) else ""
    # "changed" for main.py = the tables are not the ones the last successful build proved things about
    ctx.generated_changed = bool(changed) or digest != last_ok
    ctx.extra["generated"] = {"files": len(files), "rewritten": sorted(changed), "sha1": digest, "sizes": sizes,
                              "notes": notes[:20]}
    ctx._c18_digest = digest
