"""Fingerprints of coxeter's sources (AST without docstrings/comments/formatting), used to notice that the code a
model mirrors has changed since the model was last validated against it.

  /venv/bin/python harness/fingerprint.py --write     (lead only: after a fix: commit in /repo, on a green tree)

A changed fingerprint is NOT a violation and not even a disagreement: the check merely searches harder (more
generated cases, every generator class) when the files a property is anchored in differ from the recorded ones,
because that is when the hand-written model is most likely to have drifted from the code."""
import ast
import hashlib
import json
import os
import sys

HERE = os.path.dirname(os.path.abspath(__file__))
BASELINE = os.path.join(HERE, "fingerprints.json")


def _strip_docstrings(tree):
    for node in ast.walk(tree):
        if isinstance(node, (ast.FunctionDef, ast.AsyncFunctionDef, ast.ClassDef, ast.Module)):
            body = node.body
            if body and isinstance(body[0], ast.Expr) and isinstance(getattr(body[0], "value", None), ast.Constant) \
                    and isinstance(body[0].value.value, str):
                node.body = body[1:] or [ast.Pass()]
    return tree


def file_fingerprint(path):
    data = open(path, "rb").read()
    if path.endswith(".py"):
        try:
            tree = _strip_docstrings(ast.parse(data.decode("utf-8")))
            data = ast.dump(tree, include_attributes=False).encode()
        except Exception:
            pass
    return hashlib.sha1(data).hexdigest()


def fingerprints(repo):
    out = {}
    root = os.path.join(repo, "coxeter")
    for d, _, files in os.walk(root):
        if "__pycache__" in d:
            continue
        for fn in files:
            if fn.endswith((".py", ".json")):
                p = os.path.join(d, fn)
                out[os.path.relpath(p, repo)] = file_fingerprint(p)
    return out


def changed_files(repo):
    """relative paths whose fingerprint differs from the recorded baseline (added and removed files included)"""
    if not os.path.exists(BASELINE):
        return []
    base = json.load(open(BASELINE))["files"]
    now = fingerprints(repo)
    return sorted(f for f in set(base) | set(now) if base.get(f) != now.get(f))


def relevant(pid, changed, verif):
    """the changed files that matter for property pid: those among its anchors, and those that are in NO property's
    anchors (shared base classes, helpers: they may matter to everyone)"""
    anchors = {}
    for line in open(os.path.join(verif, "properties.jsonl")):
        p = json.loads(line)
        anchors[p["id"]] = set(p.get("anchors", {}).get("files", []))
    everyone = set().union(*anchors.values())
    mine = anchors.get(pid, set())
    return [f for f in changed if f in mine or f not in everyone]


if __name__ == "__main__":
    repo = os.environ.get("COXETER_REPO", "/repo")
    if "--write" in sys.argv:
        import subprocess
        head = subprocess.run("git -C %s rev-parse HEAD" % repo, shell=True, capture_output=True, text=True).stdout.strip()
        json.dump({"repo_head": head, "files": fingerprints(repo)}, open(BASELINE, "w"), indent=1, sort_keys=True)
        print("wrote", BASELINE, head)
    else:
        print(changed_files(repo))
