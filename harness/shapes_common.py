"""Shared by C03 / C08 (lead): builders for all shape classes, reflection over public members,
canonical observation of a live object and comparison with a freshly constructed one."""
import inspect
import re
import warnings

import numpy as np

import gen
from common import exc_kind

warnings.filterwarnings("ignore")

SKIP_MEMBERS = {
    # not observables of the geometry / need optional packages / only warn and forward
    "plot", "to_plato_scene", "save", "bounding_sphere", "bounding_circle", "insphere_from_center",
    "circumsphere_from_center", "incircle_from_center", "polygon", "polyhedron",
}
VERTEX_CLASSES = ["ConvexPolyhedron", "Polyhedron", "ConvexSpheropolyhedron", "Polygon", "ConvexPolygon",
                  "ConvexSpheropolygon"]
CURVED_CLASSES = ["Circle", "Ellipse", "Sphere", "Ellipsoid"]


def shapes_mod():
    import coxeter
    return coxeter.shapes


def fresh_of(obj):
    """A freshly constructed shape with the same current vertices (and faces, normal, radius)."""
    S = shapes_mod()
    name = type(obj).__name__
    if name == "ConvexPolyhedron":
        return S.ConvexPolyhedron(np.array(obj.vertices))
    if name == "Polyhedron":
        return S.Polyhedron(np.array(obj.vertices), [np.array(f) for f in obj.faces], faces_are_convex=obj._faces_are_convex)
    if name == "ConvexSpheropolyhedron":
        return S.ConvexSpheropolyhedron(np.array(obj.vertices), obj.radius)
    if name == "Polygon":
        return S.Polygon(np.array(obj.vertices), normal=np.array(obj.normal))
    if name == "ConvexPolygon":
        return S.ConvexPolygon(np.array(obj.vertices), normal=np.array(obj.normal))
    if name == "ConvexSpheropolygon":
        return S.ConvexSpheropolygon(np.array(obj.vertices), obj.radius, normal=np.array(obj.normal))
    if name == "Circle":
        return S.Circle(obj.radius, np.array(obj.centroid))
    if name == "Sphere":
        return S.Sphere(obj.radius, np.array(obj.centroid))
    if name == "Ellipse":
        return S.Ellipse(obj.a, obj.b, np.array(obj.centroid))
    if name == "Ellipsoid":
        return S.Ellipsoid(obj.a, obj.b, obj.c, np.array(obj.centroid))
    raise ValueError(name)


def public_properties(cls):
    out = []
    for name, member in inspect.getmembers(cls):
        if name.startswith("_") or name in SKIP_MEMBERS:
            continue
        if isinstance(member, property) or type(member).__name__ == "cached_property":
            out.append(name)
    return out


def settable_properties(cls):
    out = []
    for name, member in inspect.getmembers(cls):
        if name.startswith("_") or name in SKIP_MEMBERS:
            continue
        if isinstance(member, property) and member.fset is not None:
            out.append(name)
    return out


def _canon_cycle(f):
    f = [int(i) for i in f]
    k = f.index(min(f))
    return tuple(f[k:] + f[:k])


def probe_points(obj):
    """deterministic probe points for is_inside, derived from the current vertices only."""
    v = np.asarray(obj.vertices, dtype=float) if hasattr(obj, "vertices") else None
    if v is None:
        c = np.asarray(obj.centroid, dtype=float)
        r = max(getattr(obj, n) for n in ("radius", "a", "b", "c") if hasattr(obj, n))
        v = c + r * np.array([[1, 0, 0], [-1, 0, 0], [0, 1, 0], [0, -1, 0], [0, 0, 1], [0, 0, -1.0]])
    c = v.mean(axis=0)
    pts = [c + t * (p - c) for p in v[:6] for t in (0.37, 0.83, 1.21, 1.9)]
    return np.array(pts)


def observe(obj, order_rng=None, json_names=None):
    """dict name -> canonical value; exceptions are recorded by kind. Face-indexed data are keyed by
    the face's vertex set so that a different (but equivalent) face order does not matter.
    order_rng: read the members in an order drawn from it (a query that refreshes a lazily cached attribute would
    otherwise always run before the query that would have shown the stale value).
    json_names: the attributes to export through to_json (None = every public property; pass the same list for the two
    observations that are to be compared)."""
    out = {}
    cls = type(obj)
    faces = None
    if hasattr(obj, "faces"):
        try:
            faces = [tuple(int(i) for i in f) for f in obj.faces]
        except Exception:
            faces = None
    names = public_properties(cls)
    methods_first = False
    if order_rng is not None:
        names = [names[i] for i in order_rng.permutation(len(names))]
        methods_first = bool(order_rng.random() < 0.5)
    if methods_first:
        _observe_methods(obj, faces, out, json_names)
    for name in names:
        try:
            if name in LOOSE:
                with _seeded_globals():
                    val = getattr(obj, name)
            else:
                val = getattr(obj, name)
        except Exception as e:
            out[name] = ("raise", exc_kind(e))
            continue
        out[name] = canon(name, val, faces)
    if "planar_moments_inertia" in out and hasattr(obj, "normal"):
        # the planar moments refer to the frame chosen by kabsch(n -> z), which for a tilted plane is an
        # arbitrary (SVD-dependent) in-plane frame; only the xy-plane case is a stable observable
        nz = float(np.asarray(obj.normal, dtype=float)[2])
        if abs(abs(nz) - 1.0) > 1e-12:
            del out["planar_moments_inertia"]
    if not methods_first:
        _observe_methods(obj, faces, out, json_names)
    return out


class _seeded_globals:
    """miniball picks its pivots with Python's global `random`, and on a LinAlgError coxeter retries after perturbing
    with `rowan.random.rand`, i.e. numpy's GLOBAL generator: both are seeded right before a LOOSE member is read (the
    numpy state is put back afterwards), for the live and the fresh object alike."""

    def __enter__(self):
        import random
        random.seed(20240917)
        self.state = np.random.get_state()
        np.random.seed(20240917)
        return self

    def __exit__(self, *exc):
        np.random.set_state(self.state)
        return False


def _observe_methods(obj, faces, out, json_names=None):
    cls = type(obj)
    # queries that take arguments (methods): lazily cached per-face / per-simplex data hide behind these
    if callable(getattr(obj, "get_face_area", None)) and faces is not None:
        try:
            arr = np.asarray(obj.get_face_area(), dtype=float)
            out["get_face_area()"] = ("byface", {frozenset(faces[i]): arr[i] for i in range(len(faces))})
            out["get_face_area(total)"] = ("num", np.float64(np.sum(np.asarray(obj.get_face_area(list(range(len(faces)))), dtype=float))))
        except Exception as e:
            out["get_face_area()"] = ("raise", exc_kind(e))
    if callable(getattr(obj, "get_dihedral", None)) and faces is not None:
        try:
            dih = {}
            for i, nb in enumerate(obj.neighbors):
                for j in nb:
                    if i < int(j):
                        # compared through the cosine: the angle itself is ill-conditioned (sqrt of the rounding
                        # error) for coplanar neighbours, where acos is evaluated at -1
                        dih[frozenset([frozenset(faces[i]), frozenset(faces[int(j)])])] = np.cos(np.float64(obj.get_dihedral(i, int(j))))
            out["cos get_dihedral(neighbours)"] = ("byface", dih)
        except Exception as e:
            out["cos get_dihedral(neighbours)"] = ("raise", exc_kind(e))
    if callable(getattr(obj, "compute_form_factor_amplitude", None)):
        ffname = "form_factor_area(q)" if (hasattr(obj, "normal") or hasattr(obj, "polygon")) else "form_factor_volume(q)"
        try:
            c0 = np.asarray(obj.vertices, dtype=float).mean(axis=0) if hasattr(obj, "vertices") else np.zeros(3)
            sz = max(size_of(obj) - float(np.linalg.norm(c0)), 1e-300)
            q = np.array([[0.7, -0.4, 0.9], [0.0, 0.0, 1.3], [2.1, 0.6, -0.2], [0.0, 0.0, 0.0]]) / sz
            ff = np.asarray(obj.compute_form_factor_amplitude(q))
            out[ffname] = ("num", np.r_[ff.real, ff.imag])
        except NotImplementedError:
            pass
        except Exception as e:
            out[ffname] = ("raise", exc_kind(e))
    if callable(getattr(obj, "distance_to_surface", None)) and hasattr(obj, "normal" if not hasattr(obj, "polygon") else "polygon"):
        nrm = np.asarray((obj.polygon if hasattr(obj, "polygon") else obj).normal, dtype=float)
        if abs(abs(float(nrm[2])) - 1.0) <= 1e-12:     # tilted planes: the in-plane frame is not a stable observable
            try:
                out["distance_to_surface(angles)"] = ("num", np.asarray(obj.distance_to_surface(
                    np.array([0.1, 1.3, 2.9, 4.4, 5.8, -0.7])), dtype=float))
            except NotImplementedError:
                pass
            except Exception as e:
                out["distance_to_surface(angles)"] = ("raise", exc_kind(e))
    # what a user can print or export: repr(obj) and to_json([...]) must follow the mutations like everything else
    try:
        out["repr()"] = canon_repr(repr(obj))
    except Exception as e:
        out["repr()"] = ("raise", exc_kind(e))
    if callable(getattr(obj, "to_json", None)):
        tilted = False
        if hasattr(obj, "normal"):
            tilted = abs(abs(float(np.asarray(obj.normal, dtype=float)[2])) - 1.0) > 1e-12
        for name in (public_properties(cls) if json_names is None else json_names):
            if name == "planar_moments_inertia" and tilted:
                continue        # see observe(): not a stable observable for a tilted plane
            try:
                if name in LOOSE:
                    with _seeded_globals():
                        val = obj.to_json([name])[name]
                else:
                    val = obj.to_json([name])[name]
            except Exception as e:
                out["to_json:" + name] = ("raise", exc_kind(e))
                continue
            out["to_json:" + name] = canon(name, val, faces)
    # queries
    try:
        pts = probe_points(obj)
        if cls.__name__ in ("Polygon", "ConvexPolygon"):
            # in-plane probes
            pass
        ans = np.asarray(obj.is_inside(pts)).ravel()
        # a probe whose answer changes when it is nudged by 1e-7 of the size sits on the boundary (it happens for non-convex
        # solids, whose faces the centre-to-vertex rays may graze): its answer is not an observable -> None
        sz = float(np.max(np.linalg.norm(pts - pts.mean(axis=0), axis=1))) + 1e-300
        stable = np.ones(len(pts), dtype=bool)
        for dlt in (np.array([1.0, 0.7, -0.4]), np.array([-0.6, 1.0, 0.8]), np.array([0.5, -0.9, 1.0])):
            for sgn in (1.0, -1.0):
                stable &= (np.asarray(obj.is_inside(pts + sgn * 1e-7 * sz * dlt)).ravel() == ans)
        out["is_inside(probes)"] = ("bools", tuple((bool(b) if ok else None) for b, ok in zip(ans, stable)))
    except NotImplementedError:
        pass
    except Exception as e:
        out["is_inside(probes)"] = ("raise", exc_kind(e))
    return out


def canon(name, val, faces):
    cname = type(val).__name__
    if cname in ("Sphere", "Circle"):
        return ("ball", float(val.radius), tuple(np.asarray(val.centroid, dtype=float).ravel()))
    if name == "faces":
        return ("set", frozenset(_canon_cycle(f) for f in val))
    if name == "neighbors" and faces is not None:
        rel = set()
        for i, nb in enumerate(val):
            for j in nb:
                rel.add(frozenset([frozenset(faces[i]), frozenset(faces[int(j)])]))
        return ("set", frozenset(rel))
    if name in ("equations", "normals") and faces is not None:
        arr = np.asarray(val, dtype=float)
        return ("byface", {frozenset(faces[i]): arr[i] for i in range(len(faces))})
    if name == "face_centroids" and faces is not None:
        arr = np.asarray(val, dtype=float)
        return ("byface", {frozenset(faces[i]): arr[i] for i in range(len(faces))})
    if name == "simplices":
        # which diagonal triangulates a non-triangular face is not determined: keep only what the property
        # requires (every simplex inside one face, the right number of them)
        simp = [frozenset(int(i) for i in f) for f in np.asarray(val)]
        ok = faces is not None and all(any(sx <= frozenset(f) for f in faces) for sx in simp)
        want = sum(len(f) - 2 for f in faces) if faces is not None else -1
        return ("repr", "simplices: inside-faces=%s count-ok=%s" % (ok, len(simp) == want))
    if name == "edges":
        return ("set", frozenset(tuple(int(i) for i in e) for e in np.asarray(val)))
    if name in ("edge_vectors", "edge_lengths"):
        arr = np.asarray(val, dtype=float)
        key = np.lexsort(np.round(arr.reshape(len(arr), -1), 9).T[::-1]) if len(arr) else []
        return ("num", arr[key] if len(arr) else arr)
    if name == "gsd_shape_spec":
        d = dict(val)
        d.pop("indices", None)
        return ("spec", {k: (np.asarray(v, dtype=float) if not isinstance(v, str) else v) for k, v in d.items()})
    if isinstance(val, (int, float, np.integer, np.floating)):
        return ("num", np.float64(val))
    if isinstance(val, (tuple, list, np.ndarray)):
        try:
            return ("num", np.asarray(val, dtype=float))
        except Exception:
            return ("repr", repr(val))
    return ("repr", repr(val))


_NUM = re.compile(r"(?<![A-Za-z_])[-+]?(?:\d+\.?\d*(?:[eE][-+]?\d+)?|nan|inf)")


def canon_repr(text):
    """repr(obj) split into its text skeleton and the numbers in it (compared numerically: a fresh object may store
    a re-normalised normal that differs in the last bit). The `faces=` part of a Polyhedron / ConvexPolyhedron repr
    is reduced to the set of canonical cycles (face order is not part of the property)."""
    faces = None
    k = text.find(", faces=[[")
    if k >= 0 and text.endswith(")"):
        import ast
        try:
            faces = frozenset(_canon_cycle(f) for f in ast.literal_eval(text[k + len(", faces="):-1]))
            text = text[:k] + ")"
        except Exception:
            faces = None
    nums = np.array([float(x) for x in _NUM.findall(text)], dtype=float)
    return ("reprnum", _NUM.sub("#", text), nums, faces)


def base_name(name):
    """observable name without the access path prefix (`to_json:volume` -> `volume`)."""
    return name.split(":", 1)[1] if name.startswith("to_json:") else name


LOOSE = {"minimal_bounding_sphere", "minimal_bounding_circle", "minimal_bounding_sphere_radius",
         "minimal_bounding_circle_radius"}


def num_close(a, b, scale, tol):
    a = np.asarray(a, dtype=float)
    b = np.asarray(b, dtype=float)
    if a.shape != b.shape:
        return False
    fa, fb = np.isfinite(a), np.isfinite(b)
    if not np.array_equal(fa, fb):
        return False
    return bool(np.all(np.abs(a[fa] - b[fb]) <= tol * scale))


def degree(name):
    """length-dimension of an observable (for the comparison scale)."""
    name = base_name(name)
    if "inertia" in name or name == "planar_moments_inertia":
        return 5 if "polar" not in name and "planar" not in name else 4
    if name == "form_factor_volume(q)":
        return 3
    if "volume" in name:
        return 3
    if "area" in name:
        return 2
    if name in ("iq", "tau", "asphericity", "eccentricity", "normals", "normal", "num_vertices", "num_faces",
                "num_edges"):
        return 0
    return 1


def compare(obs_a, obs_b, size, tol=1e-9, cond=1.0):
    """list of (name, a, b) where the two observations differ.
    cond: conditioning of the dimensionless observables, (diameter + distance from the origin) / diameter: the
    coordinates of a small shape far from the origin carry a rounding error of 1e-16*distance, i.e. a RELATIVE
    distortion of the shape of 1e-16*cond, which every dimensionless quantity (angles, iq, asphericity, normals)
    inherits — their tolerance is tol*max(1, cond), as that of the dimensional ones is tol*size**degree."""
    diffs = []
    for name in sorted(set(obs_a) | set(obs_b)):
        if name not in obs_a or name not in obs_b:
            diffs.append((name, obs_a.get(name), obs_b.get(name)))
            continue
        a, b = obs_a[name], obs_b[name]
        t = 1e-6 if base_name(name) in LOOSE else tol
        if base_name(name) in LOOSE:
            # the external, randomised miniball sometimes returns a non-minimal ball (minimality is C13's business, with
            # a certificate). What a mutation must not do is leave a ball of the OLD geometry behind: the ball of
            # `obs_a` (the live object) must contain all its CURRENT vertices and have a radius within 25 % of the
            # other one's — a ball that missed a size setter (factors 0.31 … 2.0), a move or a rotation fails that.
            if a[0] != b[0] or (a[0] == "raise" and a[1] != b[1]) or a[0] not in ("raise", "ball", "num"):
                diffs.append((name, a, b))
            elif a[0] != "raise":
                ra, rb = float(np.ravel(a[1])[0]), float(np.ravel(b[1])[0])
                same = num_close(a[1], b[1], size, t) and (a[0] != "ball" or num_close(a[2], b[2], size, t))
                if same:
                    # same vertices + same seeds = same answer, whatever its quality (miniball has been seen to return
                    # balls that miss vertices by several per cent of the size: C13's business)
                    continue
                ok = np.isfinite(ra) and np.isfinite(rb) and abs(ra - rb) <= 0.25 * abs(rb)
                va = obs_a.get("vertices")
                if ok and a[0] == "ball" and va is not None and va[0] == "num":
                    pts = np.asarray(va[1], dtype=float).reshape(-1, 3)
                    dist = np.linalg.norm(pts - np.asarray(a[2], dtype=float), axis=1)
                    ok = bool(np.all(dist <= ra + 1e-9 * max(size, 1e-300)))
                if not ok:
                    diffs.append((name, a, b))
            continue
        if a[0] != b[0]:
            diffs.append((name, a, b))
            continue
        kind = a[0]
        sc = max(size, 1e-300) ** degree(name) if degree(name) else max(1.0, cond)
        if kind == "bools":
            if len(a[1]) != len(b[1]) or any(x is not None and y is not None and x != y for x, y in zip(a[1], b[1])):
                diffs.append((name, a, b))
        elif kind == "raise" or kind == "repr" or kind == "set":
            if a[1] != b[1]:
                diffs.append((name, a, b))
        elif kind == "num":
            if not num_close(a[1], b[1], sc, t):
                diffs.append((name, a, b))
        elif kind == "ball":
            if not (num_close(a[1], b[1], size, t) and num_close(a[2], b[2], size, t)):
                diffs.append((name, a, b))
        elif kind == "byface":
            if set(a[1]) != set(b[1]):
                diffs.append((name, "face sets differ", ""))
            else:
                for k in a[1]:
                    s2 = size if base_name(name) in ("equations", "face_centroids") else (
                        size ** 2 if name == "get_face_area()" else max(1.0, cond))
                    if not num_close(a[1][k], b[1][k], s2, t):
                        diffs.append((name, a[1][k], b[1][k]))
                        break
        elif kind == "reprnum":
            if a[1] != b[1] or a[3] != b[3] or not num_close(a[2], b[2], max(size, 1.0), t):
                diffs.append((name, a, b))
        elif kind == "spec":
            if set(a[1]) != set(b[1]):
                diffs.append((name, a, b))
            else:
                for k in a[1]:
                    if isinstance(a[1][k], str):
                        if a[1][k] != b[1][k]:
                            diffs.append((name, a, b))
                    elif not num_close(a[1][k], b[1][k], size, t):
                        diffs.append((name, a, b))
    return diffs


def cond_of(obj):
    """(diameter + distance of the vertex mean from the origin) / diameter (1 for a centred shape)."""
    if not hasattr(obj, "vertices"):
        return 1.0
    v = np.asarray(obj.vertices, dtype=float)
    if not np.all(np.isfinite(v)):
        return 1.0
    d = float(gen.diameter(v))
    return float((d + np.linalg.norm(v.mean(axis=0))) / d) if d > 0 else 1.0


def size_of(obj):
    if hasattr(obj, "vertices"):
        v = np.asarray(obj.vertices, dtype=float)
        return float(gen.diameter(v) + np.linalg.norm(v.mean(axis=0)))
    c = np.asarray(obj.centroid, dtype=float)
    r = max(getattr(obj, n) for n in ("radius", "a", "b", "c") if hasattr(obj, n))
    return float(r + np.linalg.norm(c))


# ------------------------------------------------------------------ base shapes


def base_shape(rng, cls, flavour):
    """flavour 'regular': has circum-/in-balls (box, square); 'generic': chiral, off-origin, none of them."""
    S = shapes_mod()
    off = rng.uniform(-1, 1, size=3) * 3 + np.array([2.0, -1.0, 1.5])
    if cls == "Polyhedron" and flavour == "nonconvex-face":
        # right prism over an L / U / Z polygon with the caps given as ONE non-convex face each (faces_are_convex False):
        # centroid and is_inside work, volume / surface_area / inertia raise - so do the exports that ask for them. An
        # operation that raises half-way must leave the (off-origin) shape as it was.
        outline = [[(0, 0), (3, 0), (3, 1), (1, 1), (1, 2), (0, 2)],
                   [(0, 0), (3, 0), (3, 2), (2, 2), (2, 1), (1, 1), (1, 2), (0, 2)],
                   [(1.5, 1), (1, 1), (1, 0), (0, 0), (0, 1), (.5, 1), (.5, 2), (1.5, 2)]][int(rng.integers(3))]
        n = len(outline)
        h = float(rng.uniform(0.5, 2.0))
        V = np.array([(x, y, 0.0) for x, y in outline] + [(x, y, h) for x, y in outline])
        V = V @ gen.random_rotation(rng).T + off * float(rng.uniform(1.0, 3.0))
        F = [list(range(n - 1, -1, -1)), list(range(n, 2 * n))] + [[i, (i + 1) % n, n + (i + 1) % n, n + i] for i in range(n)]
        return S.Polyhedron(V, F)
    if cls in ("ConvexPolyhedron", "Polyhedron", "ConvexSpheropolyhedron") and flavour == "aligned-centred":
        # centred at the origin with the principal axes along the coordinate axes (cuboid, square prisms with two equal
        # moments, a D2-symmetric chiral twisted cuboid): eigh returns signed permutation matrices here, the corner where
        # a sign convention in diagonalize_inertia turns a rotation into a reflection
        import itertools
        kind = int(rng.integers(4))
        a, b, c = [(1.0, 2.0, 3.0), (1.0, 1.0, 2.5), (2.0, 2.0, 0.5), (1.0, 1.6, 2.3)][kind]
        perm = rng.permutation(3)
        v = np.array(list(itertools.product([-1, 1], repeat=3)), dtype=float) * np.array([a, b, c])[perm] / 2
        if kind == 3:
            # twist the top face against the bottom one about z (keeps the three two-fold axes, destroys the mirrors)
            t = 0.35
            Rz = np.array([[np.cos(t), -np.sin(t), 0], [np.sin(t), np.cos(t), 0], [0, 0, 1.0]])
            v = np.where(v[:, 2:3] > 0, v @ Rz.T, v @ Rz)
        if cls == "ConvexPolyhedron":
            return S.ConvexPolyhedron(v)
        if cls == "ConvexSpheropolyhedron":
            return S.ConvexSpheropolyhedron(v, float(rng.uniform(0.1, 0.5)))
        cp = S.ConvexPolyhedron(v)
        return S.Polyhedron(np.array(cp.vertices), [np.array(f) for f in cp.faces], faces_are_convex=True)
    if cls in ("ConvexPolyhedron", "Polyhedron", "ConvexSpheropolyhedron"):
        if flavour in ("regular", "triangulated"):
            import itertools
            v = np.array(list(itertools.product([-1, 1], repeat=3)), dtype=float)
            v = v @ gen.random_rotation(rng).T + off
        elif flavour in ("lattice", "lattice-triangulated"):
            # integer coordinates (box or right prism over a lattice polygon, integer offset): planarity of the faces,
            # closure of the area vectors etc. hold EXACTLY, so that the sqrt-free certificate of the Lean invariant
            # (`closedPolyCheck`, evaluated over Q by the driver) can be checked on the object's own data
            a, b, c = (int(x) for x in rng.integers(1, 5, size=3))
            if rng.random() < 0.5:
                ring = np.array([[0, 0], [a, 0], [a, b], [0, b]], dtype=float)
            else:
                ring = np.array([[0, 0], [a + 1, 0], [a + 2, b], [1, b + 1], [-1, b]], dtype=float)
            n = len(ring)
            v = np.r_[np.c_[ring, np.zeros(n)], np.c_[ring, c * np.ones(n)]] + np.round(off)
            v = v[rng.permutation(2 * n)]
        elif flavour == "near-coplanar":
            # a box with one corner pushed outwards by ~1e-10 of its size: the face opposite splits into two triangles
            # whose planes agree to ~1e-10 — inside the default tolerance of merge_faces (1e-8), far outside the
            # 2e-15 of ConvexPolyhedron._combine_simplices
            import itertools
            v = np.array(list(itertools.product([-1, 1], repeat=3)), dtype=float) * np.array(
                [1.0, float(rng.uniform(0.7, 1.3)), float(rng.uniform(0.7, 1.3))])
            k = int(rng.integers(8))
            v[k] *= 1.0 + float(rng.choice([1e-9, 3e-10, 1e-10, 1e-11]))
            v = v @ gen.random_rotation(rng).T + off
        elif flavour == "triangulated-shuffled":
            # box or n-gonal prism; vertices relabelled below, faces fan-triangulated from a random corner, face order
            # shuffled, cycles rotated: whether merge_faces / sort_faces need a global flip, which face they start
            # from and which cached data they must drop all depend on these accidents
            n = int(rng.integers(3, 8))
            ang = 2 * np.pi * (np.arange(n) + float(rng.uniform(0, 1))) / n
            ring = np.c_[np.cos(ang), np.sin(ang)] * np.array([1.0, float(rng.uniform(0.6, 1.0))])
            h = float(rng.uniform(0.5, 1.5))
            v = np.r_[np.c_[ring, -h * np.ones(n)], np.c_[ring, h * np.ones(n)]]
            v = (v @ gen.random_rotation(rng).T + off)[rng.permutation(2 * n)]
        else:
            while True:
                v, _ = gen.convex_solid(rng, kind="ellipsoid", scale=1.0, offset_diams=0.0)
                if 6 <= len(v) <= 14:
                    break
            v = v * np.array([1.0, 0.8, 0.6]) + off
            if not gen.in_convex_position(v):
                return base_shape(rng, cls, flavour)
        if cls == "ConvexPolyhedron":
            return S.ConvexPolyhedron(v)
        if cls == "ConvexSpheropolyhedron":
            return S.ConvexSpheropolyhedron(v, float(rng.uniform(0.1, 0.5)))
        cp = S.ConvexPolyhedron(v)
        faces = [np.array(f) for f in cp.faces]
        if flavour in ("triangulated", "lattice-triangulated"):
            # fan-triangulated faces: merge_faces has real work to do
            faces = [np.array([f[0], f[i], f[i + 1]]) for f in cp.faces for i in range(1, len(f) - 1)]
        if flavour == "triangulated-shuffled":
            tri = []
            for f in cp.faces:
                f = np.roll(np.asarray(f), -int(rng.integers(len(f))))
                for i in range(1, len(f) - 1):
                    t = np.array([f[0], f[i], f[i + 1]])
                    tri.append(np.roll(t, -int(rng.integers(3))))
            faces = [tri[i] for i in rng.permutation(len(tri))]
        return S.Polyhedron(np.array(cp.vertices), faces, faces_are_convex=True)
    # 2-D classes
    if flavour == "regular":
        p2 = gen.ngon(4, r=1.0, phase=0.3)
    else:
        _, p2 = gen.polygon2d(rng, "convex" if cls != "Polygon" else ["star", "comb", "convex"][int(rng.integers(3))])
    plane = "xy" if cls == "ConvexSpheropolygon" or rng.random() < 0.5 else "random"
    v, fr = gen.embed_polygon(rng, p2, plane=plane, offset_diams=float(rng.uniform(0.5, 3)))
    if cls == "Polygon":
        return S.Polygon(v)
    if cls == "ConvexPolygon":
        return S.ConvexPolygon(v)
    return S.ConvexSpheropolygon(v, float(rng.uniform(0.1, 0.5)))


def curved_shape(rng, cls):
    S = shapes_mod()
    c = rng.uniform(-3, 3, size=3)
    if cls in ("Circle", "Ellipse"):
        c[2] = 0.0
    ax = np.exp(rng.uniform(-1, 1, size=3))
    if cls == "Circle":
        return S.Circle(ax[0], c)
    if cls == "Sphere":
        return S.Sphere(ax[0], c)
    if cls == "Ellipse":
        return S.Ellipse(ax[0], ax[1], c)
    return S.Ellipsoid(ax[0], ax[1], ax[2], c)
