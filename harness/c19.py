"""C19 — GSD, repr and HOOMD representations round-trip the shape.

B (correspondence): the Lean model `Model/Codec.lean` (gsdSpec, fromGsd, reprCall, evalCall, toJson,
mapDictKeys, toHoomdRaw) is run by the driver on the same inputs as the implementation and compared
(key order, class, vertices, radii, exception kinds, which returned array is the live one).
C (oracle): real objects are pushed through the real decoders / `eval` / `to_json` / `to_hoomd` and the
results are compared with independently recomputed observables.
"""
import ast
import inspect
import warnings

import numpy as np

import gen
import history
from common import I, ModelRaise, exc_kind, f2h, read_shuffled

RULE = ("all ten shape classes: convex vertex sets from gen.convex_solid (always offset 0.5..10 diameters), "
        "Polyhedron copies of them and extruded L/star prisms with fan-triangulated caps, c19_polygon (convex / star / comb / L cycles, 3..24 "
        "vertices, both orientations, default / explicit / opposing normal, flat or in a random plane, offset "
        "0.5..10 diameters, scale 1e-2..1e2), c19_dispatch_cases (convex cycles listed clockwise, with explicit -z normal, in the "
        "xz- and yz-plane, tilted by 0.7 and 2.4 rad, in an almost flat plane (gen.near_axis_rotation), given as (N,2) arrays; each as "
        "ConvexPolygon, Polygon and ConvexSpheropolygon incl. rounding radius 0), c19_curved (radii log-uniform 1e-3..1e3 incl. near "
        "ties, centres with distinct non-zero components); a third of the shapes REACHED THROUGH MUTATORS (history.maybe_via_history), "
        "the four representations asked in an order drawn per case, GSD and repr once more after to_hoomd / centroid-setter moves; "
        "to_hoomd asked four times per object (first, again at once, after other queries, after a centroid-setter move); every "
        "GSD type string plus missing-key and unknown-type variants, both values of `dimensions`; random attribute requests; random key "
        "dicts; eight shapes with a non-finite parameter (repr text only, correspondence). distinct = distinct case dicts; "
        "non-trivial = a constructed shape off the origin or a dict with >= 1 key")
ASSUMPTIONS = [
    "independent observables: polygon area/centroid/polar moment from fan triangles of the ordered cycle, polyhedron "
    "volume/centroid/inertia from signed tetrahedra over the fan-triangulated (outward) faces, sphere/ellipsoid closed "
    "forms; compared at 1e-9 * natural scale",
    "the inertia tensor of a Polygon is coxeter's convention J_c * n n^T (polar moment about the centroid along the "
    "normal); its exactness is C04's subject, here it only has to be that of the returned (centred) vertices",
    "ConvexSpheropolyhedron volume / ConvexSpheropolygon area in to_hoomd are compared with the same getter read "
    "before the call (translation invariant; the Steiner formulas themselves are C11)",
    "Ext answers sent to the model (planarity, simplicity, convexity of an ordered cycle, hull membership) are computed "
    "by the harness for generated inputs; cycles within 1e-7 of a convexity tie are dropped",
    "GSD clause 'missing or unknown type -> ValueError' is an oracle clause; other missing keys (KeyError) and a spec read with "
    "the non-matching `dimensions` are correspondence only",
    "hypotheses of the measured to_hoomd theorems are decided per object: Closed / Closed0 = chainCheck over Q of the object's own "
    "simplices (ConvexPolyhedron._simplices; for a Polyhedron the polytri triangles matched back to vertex indices) against the "
    "cone from the vertex mean + sign of the cone's volume (driver op chain.check, sound by C01's chainCheck_rat_sound / "
    "cone_closed); IsFrame R n for the kabsch matrix numerically (1e-12); planarity / triangulation certificates of a polygon are "
    "C04's per-run checks",
    "the digits float.__repr__ chooses are outside the model: checked as float(str(x)) == x for every printed number; the model "
    "keeps the token structure (unary minus, bare names inf / nan, nested list displays, integer literals)",
    "a to_hoomd failure of a clause that the FIRST call on the object already violated is not reported again for the later calls "
    "(same defect); failures that only later calls show carry the suffix :repeat / :after-queries / :after-move",
]

CLS = ["Circle", "Sphere", "Ellipse", "Ellipsoid", "Polygon", "ConvexPolygon", "ConvexSpheropolygon",
       "Polyhedron", "ConvexPolyhedron", "ConvexSpheropolyhedron"]
TAG = {n: i for i, n in enumerate(CLS)}
GSD_TYPES = ["Sphere", "Ellipsoid", "Polygon", "ConvexPolyhedron", "Mesh"]
HOOMD_KEYS = {
    "Polygon": ["vertices", "centroid", "sweep_radius", "area", "moment_inertia"],
    "ConvexPolygon": ["vertices", "centroid", "sweep_radius", "area", "moment_inertia"],
    "Polyhedron": ["vertices", "faces", "centroid", "sweep_radius", "volume", "moment_inertia"],
    "ConvexPolyhedron": ["vertices", "faces", "centroid", "sweep_radius", "volume", "moment_inertia"],
    "ConvexSpheropolygon": ["vertices", "centroid", "sweep_radius", "area"],
    "ConvexSpheropolyhedron": ["vertices", "centroid", "sweep_radius", "volume"],
    "Sphere": ["diameter", "centroid", "volume", "moment_inertia"],
    "Ellipsoid": ["a", "b", "c", "centroid", "volume", "moment_inertia"],
}
SPEC_MAPPING = {"inertia_tensor": "moment_inertia", "radius": "sweep_radius"}
BASE = {"ConvexPolygon": "Polygon", "ConvexPolyhedron": "Polyhedron"}
SAFE_ATTRS = ["vertices", "centroid", "center", "area", "perimeter", "volume", "surface_area", "radius", "a", "b", "c",
              "normal", "faces", "num_vertices", "num_faces", "inertia_tensor", "iq", "gsd_shape_spec", "signed_area",
              "diameter", "circumference", "eccentricity", "polygon", "polyhedron"]


def shapes():
    import coxeter
    return coxeter.shapes


class ImplRaise(Exception):
    """the implementation raised where the property says it returns (-> a failure, never a crash)"""

    def __init__(self, what, exc):
        super().__init__(what)
        self.what = what
        self.exc = exc


def impl(what, fn, *a, **k):
    try:
        with warnings.catch_warnings():
            warnings.simplefilter("ignore")
            return fn(*a, **k)
    except Exception as e:  # noqa: BLE001
        raise ImplRaise(what, e)


# --------------------------------------------------------------------------- wire format


def t_str(s):
    return [I(len(s))] + [I(ord(ch)) for ch in s]


def t_scs(xs):
    xs = [float(x) for x in xs]
    return [I(len(xs))] + [f2h(x) for x in xs]


def t_rows(m):
    m = [list(r) for r in m]
    out = [I(len(m))]
    for r in m:
        out += t_scs(r)
    return out


def t_idx(f):
    out = [I(len(f))]
    for r in f:
        out += [I(len(r))] + [I(int(i)) for i in r]
    return out


def t_val(v):
    """python value -> val tokens.  ("live",) marks the live array."""
    if isinstance(v, tuple) and v == ("live",):
        return [I(5)]
    if isinstance(v, tuple) and v and v[0] == "idx":
        return [I(4)] + t_idx(v[1])
    if isinstance(v, str):
        return [I(0)] + t_str(v)
    if isinstance(v, (bool, np.bool_)):
        raise TypeError("bool value")
    if isinstance(v, (int, float, np.integer, np.floating)):
        return [I(1), f2h(float(v))]
    a = np.asarray(v, dtype=float)
    if a.ndim == 1:
        return [I(2)] + t_scs(a)
    if a.ndim == 2:
        return [I(3)] + t_rows(a.tolist())
    raise TypeError("cannot encode value %r" % (v,))


def t_dict(items):
    out = [I(len(items))]
    for k, v in items:
        out += t_str(k) + t_val(v)
    return out


def t_v3s(vs):
    vs = np.asarray(vs, dtype=float).reshape(-1, 3)
    return [I(len(vs))] + [f2h(x) for x in vs.ravel().tolist()]


def t_shape(rec):
    """rec: dict(cls, radii, center, verts, normal, faces)"""
    c = rec["cls"]
    t = [I(TAG[c])]
    if c in ("Circle", "Sphere", "Ellipse", "Ellipsoid"):
        t += [f2h(x) for x in rec["radii"]] + [f2h(x) for x in rec["center"]]
    elif c in ("Polygon", "ConvexPolygon"):
        t += t_v3s(rec["verts"]) + [f2h(x) for x in rec["normal"]]
    elif c == "ConvexSpheropolygon":
        t += t_v3s(rec["verts"]) + [f2h(rec["radii"][0])] + [f2h(x) for x in rec["normal"]]
    elif c in ("Polyhedron", "ConvexPolyhedron"):
        t += t_v3s(rec["verts"]) + t_idx(rec["faces"])
    else:
        t += t_v3s(rec["verts"]) + [f2h(rec["radii"][0])]
    return t


def t_ext(planar=True, simple=True, convex=True, normal_ok=True, hull_all=True, reorder=(), hull_faces=()):
    return ([I(int(b)) for b in (planar, simple, convex, normal_ok, hull_all)]
            + t_v3s(np.asarray(reorder, dtype=float).reshape(-1, 3)) + t_idx(list(hull_faces)))


class Cur:
    def __init__(self, toks):
        self.t = toks
        self.i = 0

    def nxt(self):
        v = self.t[self.i]
        self.i += 1
        return v

    def int(self):
        v = self.nxt()
        if not isinstance(v, int) or isinstance(v, bool):
            raise ValueError("expected int in reply, got %r" % (v,))
        return v

    def sc(self):
        return float(self.nxt())

    def str(self):
        n = self.int()
        return "".join(chr(self.int()) for _ in range(n))

    def scs(self):
        return [self.sc() for _ in range(self.int())]

    def val(self):
        tag = self.int()
        if tag == 0:
            return self.str()
        if tag == 1:
            return self.sc()
        if tag == 2:
            return ("vec", self.scs())
        if tag == 3:
            return ("mat", [self.scs() for _ in range(self.int())])
        if tag == 4:
            return ("idx", [[self.int() for _ in range(self.int())] for _ in range(self.int())])
        if tag == 5:
            return ("live",)
        raise ValueError("bad val tag")

    def dict(self):
        return [(self.str(), self.val()) for _ in range(self.int())]

    def v3s(self):
        n = self.int()
        return np.array([[self.sc(), self.sc(), self.sc()] for _ in range(n)], dtype=float).reshape(n, 3)

    def shape(self):
        c = CLS[self.int()]
        rec = {"cls": c, "radii": [], "center": None, "verts": None, "normal": None, "faces": None}
        if c in ("Circle", "Sphere"):
            rec["radii"] = [self.sc()]
            rec["center"] = [self.sc() for _ in range(3)]
        elif c == "Ellipse":
            rec["radii"] = [self.sc(), self.sc()]
            rec["center"] = [self.sc() for _ in range(3)]
        elif c == "Ellipsoid":
            rec["radii"] = [self.sc(), self.sc(), self.sc()]
            rec["center"] = [self.sc() for _ in range(3)]
        elif c in ("Polygon", "ConvexPolygon"):
            rec["verts"] = self.v3s()
            rec["normal"] = [self.sc() for _ in range(3)]
        elif c == "ConvexSpheropolygon":
            rec["verts"] = self.v3s()
            rec["radii"] = [self.sc()]
            rec["normal"] = [self.sc() for _ in range(3)]
        elif c in ("Polyhedron", "ConvexPolyhedron"):
            rec["verts"] = self.v3s()
            rec["faces"] = [[self.int() for _ in range(self.int())] for _ in range(self.int())]
        else:
            rec["verts"] = self.v3s()
            rec["radii"] = [self.sc()]
        return rec


# --------------------------------------------------------------------------- records of real objects


def record(s):
    """observable state of a real shape object, in the model's vocabulary"""
    c = type(s).__name__
    rec = {"cls": c, "radii": [], "center": None, "verts": None, "normal": None, "faces": None}
    if c in ("Circle", "Sphere"):
        rec["radii"] = [float(s.radius)]
        rec["center"] = [float(x) for x in s.centroid]
    elif c == "Ellipse":
        rec["radii"] = [float(s.a), float(s.b)]
        rec["center"] = [float(x) for x in s.centroid]
    elif c == "Ellipsoid":
        rec["radii"] = [float(s.a), float(s.b), float(s.c)]
        rec["center"] = [float(x) for x in s.centroid]
    elif c in ("Polygon", "ConvexPolygon"):
        rec["verts"] = np.array(s.vertices, dtype=float)
        rec["normal"] = [float(x) for x in s.normal]
    elif c == "ConvexSpheropolygon":
        rec["verts"] = np.array(s.vertices, dtype=float)
        rec["radii"] = [float(s.radius)]
        rec["normal"] = [float(x) for x in s.normal]
    elif c in ("Polyhedron", "ConvexPolyhedron"):
        rec["verts"] = np.array(s.vertices, dtype=float)
        rec["faces"] = [[int(i) for i in f] for f in s.faces]
    elif c == "ConvexSpheropolyhedron":
        rec["verts"] = np.array(s.vertices, dtype=float)
        rec["radii"] = [float(s.radius)]
    else:
        raise TypeError(c)
    return rec


def measures(s):
    """translation invariant measures used to compare two objects of (nearly) the same class"""
    out = {}
    with warnings.catch_warnings():
        warnings.simplefilter("ignore")
        for k in ("area", "perimeter", "volume", "surface_area"):
            try:
                out[k] = float(getattr(s, k))
            except (AttributeError, NotImplementedError):
                pass
    return out


def rec_diff(a, b, normal_tol=None, center=True, faces=True):
    """first difference between two records (exact on numbers unless a tolerance is given)"""
    if a["cls"] != b["cls"]:
        return "class %s != %s" % (a["cls"], b["cls"])
    if (a["verts"] is None) != (b["verts"] is None):
        return "vertices presence"
    if a["verts"] is not None and not (a["verts"].shape == b["verts"].shape and np.array_equal(a["verts"], b["verts"])):
        return "vertices differ"
    if list(a["radii"]) != list(b["radii"]):
        return "radii %r != %r" % (a["radii"], b["radii"])
    if faces and a["faces"] != b["faces"]:
        return "faces differ"
    if center and a["center"] != b["center"]:
        return "center %r != %r" % (a["center"], b["center"])
    if normal_tol is not None and a["normal"] is not None:
        if b["normal"] is None or not np.allclose(a["normal"], b["normal"], rtol=0, atol=normal_tol):
            return "normal %r != %r" % (a["normal"], b["normal"])
    return None


def build(case):
    """real object from a JSON-able case"""
    sh = shapes()
    c = case["cls"]
    if c == "Circle":
        return sh.Circle(case["radii"][0], case["center"])
    if c == "Sphere":
        return sh.Sphere(case["radii"][0], case["center"])
    if c == "Ellipse":
        return sh.Ellipse(case["radii"][0], case["radii"][1], case["center"])
    if c == "Ellipsoid":
        return sh.Ellipsoid(*case["radii"], case["center"])
    v = np.array(case["vertices"], dtype=float)
    if c == "Polygon":
        return sh.Polygon(v, normal=case.get("normal"))
    if c == "ConvexPolygon":
        return sh.ConvexPolygon(v, normal=case.get("normal"))
    if c == "ConvexSpheropolygon":
        return sh.ConvexSpheropolygon(v, case["radii"][0], normal=case.get("normal"))
    if c == "Polyhedron":
        if case.get("faces_np"):
            return sh.Polyhedron(v, [np.array(f, dtype=np.int32) for f in case["faces"]])
        return sh.Polyhedron(v, [list(f) for f in case["faces"]])
    if c == "ConvexPolyhedron":
        return sh.ConvexPolyhedron(v)
    if c == "ConvexSpheropolyhedron":
        return sh.ConvexSpheropolyhedron(v, case["radii"][0])
    raise ValueError(c)


# --------------------------------------------------------------------------- independent geometry


def poly_measures(v):
    """ordered planar cycle in 3-space -> (area, unit normal of the cycle, centroid, polar moment about centroid)"""
    v = np.asarray(v, dtype=float)
    ref = v.mean(axis=0)
    w = v - ref
    nxt = np.roll(w, -1, axis=0)
    A = 0.5 * np.cross(w, nxt).sum(axis=0)
    area = float(np.linalg.norm(A))
    n = A / area
    st = 0.5 * np.cross(w, nxt) @ n                       # signed areas of the fan (ref, v_i, v_i+1)
    cen = ((st[:, None] * (w + nxt) / 3.0).sum(axis=0)) / st.sum() + ref
    a = v - cen
    b = np.roll(a, -1, axis=0)
    s2 = 0.5 * np.cross(a, b) @ n
    J = float((s2 / 6.0 * ((a * a).sum(1) + (b * b).sum(1) + (a * b).sum(1))).sum())
    return area, n, cen, J


def solid_measures(v, faces):
    """outward oriented faces -> (volume, centroid, inertia tensor about the ORIGIN)"""
    v = np.asarray(v, dtype=float)
    ref = v.mean(axis=0)
    w = v - ref
    vol = 0.0
    first = np.zeros(3)
    M = np.zeros((3, 3))
    for f in faces:
        f = list(f)
        for k in range(1, len(f) - 1):
            a, b, c = w[f[0]], w[f[k]], w[f[k + 1]]
            d = float(np.dot(a, np.cross(b, c)))
            vol += d / 6.0
            s = a + b + c
            first += d / 24.0 * s
            M += d / 120.0 * (np.outer(a, a) + np.outer(b, b) + np.outer(c, c) + np.outer(s, s))
    cen_rel = first / vol
    # second moments about the origin: shift from the reference point
    Mo = M + vol * (np.outer(ref, cen_rel) + np.outer(cen_rel, ref) + np.outer(ref, ref))
    inertia = np.trace(Mo) * np.eye(3) - Mo
    return float(vol), cen_rel + ref, inertia


def cycle_convexity(v):
    """+1 strictly convex ordered cycle, -1 clearly non-convex, 0 too close to call"""
    v = np.asarray(v, dtype=float)
    _, n, _, _ = poly_measures(v)
    e1 = v - np.roll(v, 1, axis=0)
    e2 = np.roll(v, -1, axis=0) - v
    turn = np.cross(e1, e2) @ n / (np.linalg.norm(e1, axis=1) * np.linalg.norm(e2, axis=1))
    if np.any(np.abs(turn) < 1e-7):
        return 0
    return 1 if np.all(turn > 0) else -1


# --------------------------------------------------------------------------- generators (new, C19 only)


def _cross2(a, b):
    return float(a[0] * b[1] - a[1] * b[0])


def c19_cycle(rng, kind):
    """a simple cycle around the origin in the plane, counter-clockwise, O(1) size"""
    if kind == "convex":
        n = int(rng.integers(3, 13))
        for _ in range(100):
            t = np.sort(rng.uniform(0, 2 * np.pi, n))
            gaps = np.diff(np.r_[t, t[0] + 2 * np.pi])
            if gaps.min() > 0.15 and gaps.max() < np.pi - 0.2:
                break
        else:
            t = 2 * np.pi * np.arange(n) / n
        ab = np.exp(rng.uniform(-0.7, 0.7, size=2))
        return np.c_[ab[0] * np.cos(t), ab[1] * np.sin(t)]
    if kind == "star":
        k = int(rng.integers(3, 9))
        t = 2 * np.pi * np.arange(2 * k) / (2 * k) + rng.uniform(0, 1)
        # inner radius below the chord of neighbouring tips, so that every inner vertex is reflex
        r = np.where(np.arange(2 * k) % 2 == 0, 1.0, rng.uniform(0.2, 0.75 * np.cos(np.pi / k)))
        return np.c_[r * np.cos(t), r * np.sin(t)]
    if kind == "comb":
        k = int(rng.integers(2, 6))
        pts = [[0.0, 0.0]]
        for i in range(k):
            pts += [[2 * i + 1.0, 0.0], [2 * i + 1.0, -1.0 - 0.3 * i], [2 * i + 2.0, -1.0 - 0.3 * i], [2 * i + 2.0, 0.0]]
        pts += [[2 * k + 1.0, 0.0], [2 * k + 1.0, 1.0], [0.0, 1.0]]
        # drop collinear interior points of the base line (keep turning points only)
        p = np.array(pts)
        keep = [i for i in range(len(p))
                if abs(_cross2(p[i] - p[i - 1], p[(i + 1) % len(p)] - p[i])) > 1e-9]
        p = p[keep]
        p = p[::-1]  # built clockwise; make it counter-clockwise
        return (p - p.mean(axis=0)) / k
    if kind == "L":
        a, b = rng.uniform(0.3, 0.7, size=2)
        p = np.array([[0, 0], [1, 0], [1, b], [a, b], [a, 1], [0, 1]], dtype=float)
        return p - p.mean(axis=0)
    raise ValueError(kind)


def c19_polygon(rng, kind=None, orientation=None):
    """(vertices (N,3), info): a cycle placed off the origin, flat or in a random plane"""
    kind = kind or ["convex", "star", "comb", "L"][int(rng.integers(4))]
    p = c19_cycle(rng, kind)
    ccw = bool(rng.integers(2)) if orientation is None else orientation == "ccw"
    if not ccw:
        p = p[::-1]
    start = int(rng.integers(len(p)))
    p = np.roll(p, -start, axis=0)
    scale = 1.0 if rng.random() < 0.6 else float(10 ** rng.uniform(-2, 2))
    v = np.c_[p, np.zeros(len(p))] * scale
    place = ["flat", "flat-z", "tilted"][int(rng.integers(3))]
    d = gen.diameter(v)
    off = rng.normal(size=3)
    if place == "flat":
        off[2] = 0.0
    off = off / np.linalg.norm(off) * float(rng.uniform(0.5, 10)) * d
    if place == "tilted":
        v = v @ gen.random_rotation(rng).T
    v = v + off
    return v, {"kind": kind, "ccw": ccw, "place": place, "scale": scale, "n": len(v)}


def c19_curved(rng, k):
    """k radii (log-uniform, sometimes tied / nearly tied, any order) and an off-origin centre"""
    r = np.exp(rng.uniform(np.log(1e-3), np.log(1e3), size=k))
    mode = int(rng.integers(4))
    if mode == 1 and k > 1:
        r[1] = r[0]
    elif mode == 2 and k > 1:
        r[1] = r[0] * (1 + float(10 ** rng.uniform(-15, -3)))
    elif mode == 3 and k > 2:
        r[2] = r[1]
    r = r[rng.permutation(k)]
    c = rng.uniform(0.5, 10, size=3) * rng.choice([-1, 1], size=3) * float(r.max())
    return [float(x) for x in r], [float(x) for x in c]


def c19_prism(rng, kind):
    """extruded non-convex cycle (star-shaped: kind 'star' or 'L'): vertices and outward faces; the two
    caps are fan-triangulated from a kernel point (general Polyhedron measures need convex faces)"""
    p = c19_cycle(rng, kind)
    n = len(p)
    if kind == "star":
        ker = np.zeros(2)
    else:
        q = p - p[0]
        ker = p[0] + np.array([q[3][0] / 2.0, q[2][1] / 2.0])
    h = float(rng.uniform(0.3, 1.5))
    v = np.vstack([np.c_[p, np.zeros(n)], np.c_[p, h * np.ones(n)], [[ker[0], ker[1], 0.0]], [[ker[0], ker[1], h]]])
    cb, ct = 2 * n, 2 * n + 1
    faces = []
    for i in range(n):
        j = (i + 1) % n
        faces.append([cb, j, i])            # bottom cap, outward = -z
        faces.append([ct, n + i, n + j])    # top cap, outward = +z
        faces.append([i, j, n + j, n + i])  # side
    v = v @ gen.random_rotation(rng).T
    d = gen.diameter(v)
    off = rng.normal(size=3)
    v = v + off / np.linalg.norm(off) * float(rng.uniform(0.5, 10)) * d
    return v, faces


def c19_radius(rng, d):
    # a rounding radius of exactly 0 is legal (only negative radii are refused) and sits on the branch boundary of
    # every "has a radius" test
    if rng.random() < 0.25:
        return 0.0
    return float(d * 10 ** rng.uniform(-2, 0.3))


def c19_dispatch_cases(rng):
    """Convex cycles in the placements where a shortcut for the ConvexPolygon / Polygon decision of
    from_gsd_type_shapes goes wrong: listed clockwise, explicit -z normal (the class then STORES them clockwise),
    vertical planes (xy-projection degenerate), planes tilted beyond 90 degrees (xy-projection clockwise), almost flat
    planes, (N,2) input.  Each for ConvexPolygon, Polygon and ConvexSpheropolygon (rounding radius 0 included)."""
    out = []
    for place in ("xy-ccw", "xy-cw", "xy-normal-minus-z", "xz-plane", "yz-plane", "tilt-0.7-cw", "tilt-2.4",
                  "neartilt", "n2-cw", "n2-ccw"):
        for cls in ("ConvexPolygon", "Polygon", "ConvexSpheropolygon"):
            p = c19_cycle(rng, "convex")
            scale = 1.0 if rng.random() < 0.6 else float(10 ** rng.uniform(-2, 2))
            p = p * scale
            d = float(np.max(np.linalg.norm(p[:, None] - p[None], axis=-1)))
            off = rng.normal(size=3)
            off = off / np.linalg.norm(off) * float(rng.uniform(0.5, 10)) * d
            v = np.c_[p, np.zeros(len(p))]
            normal = None
            if place in ("xy-cw", "tilt-0.7-cw", "n2-cw"):
                v = v[::-1]
            if place == "xy-normal-minus-z":
                normal = [0.0, 0.0, -1.0]
            if place == "xz-plane":
                v = v[:, [0, 2, 1]]
            elif place == "yz-plane":
                v = v[:, [2, 0, 1]]
            elif place in ("tilt-0.7-cw", "tilt-2.4"):
                ang = 0.7 if place == "tilt-0.7-cw" else 2.4
                ax = np.array([np.cos(0.4), np.sin(0.4), 0.0])
                K = np.array([[0, -ax[2], ax[1]], [ax[2], 0, -ax[0]], [-ax[1], ax[0], 0]])
                R = np.eye(3) + np.sin(ang) * K + (1 - np.cos(ang)) * (K @ K)
                v = v @ R.T
            elif place == "neartilt":
                v = v @ gen.near_axis_rotation(rng).T
            if place in ("n2-cw", "n2-ccw"):
                v = (v + np.r_[off[:2], 0.0])[:, :2]
            else:
                if place.startswith("xy"):
                    off[2] = 0.0 if rng.random() < 0.5 else off[2]
                v = v + off
            case = {"kind": "shape", "cls": cls, "vertices": v.tolist(),
                    "info": {"kind": "convex", "place": place, "scale": scale, "n": len(v)}}
            if normal is not None:
                case["normal"] = normal
            if cls == "ConvexSpheropolygon":
                case["radii"] = [c19_radius(rng, d)]
            out.append(case)
    return out


def make_shape_case(rng, ctx, cls):
    if cls in ("Circle", "Sphere"):
        r, c = c19_curved(rng, 1)
        case = {"kind": "shape", "cls": cls, "radii": r, "center": c}
    elif cls == "Ellipse":
        r, c = c19_curved(rng, 2)
        case = {"kind": "shape", "cls": cls, "radii": r, "center": c}
    elif cls == "Ellipsoid":
        r, c = c19_curved(rng, 3)
        case = {"kind": "shape", "cls": cls, "radii": r, "center": c}
    elif cls in ("Polygon", "ConvexPolygon", "ConvexSpheropolygon"):
        kind = "convex" if cls != "Polygon" else None
        v, info = c19_polygon(rng, kind)
        ctx.count("polygon:" + info["kind"])
        ctx.count("polygon:" + ("ccw" if info["ccw"] else "cw"))
        ctx.count("polygon:" + info["place"])
        case = {"kind": "shape", "cls": cls, "vertices": v.tolist(), "info": info}
        nm = int(rng.integers(3))
        if nm:
            _, n, _, _ = poly_measures(v)
            # Polygon's computed normal is the cycle normal up to sign; explicit (=1) or opposing (=2)
            e = np.cross(v[2] - v[1], v[0] - v[1])
            comp = n if np.dot(e, n) > 0 else -n
            case["normal"] = (comp if nm == 1 else -comp).tolist()
        ctx.count("normal:" + ["default", "explicit", "opposing"][nm])
        if cls == "ConvexSpheropolygon":
            case["radii"] = [c19_radius(rng, gen.diameter(v))]
    elif cls == "Polyhedron":
        if rng.random() < 0.5:
            v, info = gen.convex_solid(rng, offset_diams=float(rng.uniform(0.5, 10)))
            faces = [[int(i) for i in f] for f in shapes().ConvexPolyhedron(v).faces]
            ctx.count("polyhedron:convex-copy")
        else:
            kind = ["star", "L"][int(rng.integers(2))]
            v, faces = c19_prism(rng, kind)
            ctx.count("polyhedron:prism-" + kind)
        case = {"kind": "shape", "cls": cls, "vertices": v.tolist(), "faces": faces, "faces_np": bool(rng.integers(2))}
        ctx.count("polyhedron:faces-as-" + ("arrays" if case["faces_np"] else "lists"))
    else:
        v, info = gen.convex_solid(rng, offset_diams=float(rng.uniform(0.5, 10)))
        ctx.count("solid:" + info["kind"])
        case = {"kind": "shape", "cls": cls, "vertices": v.tolist()}
        if cls == "ConvexSpheropolyhedron":
            case["radii"] = [c19_radius(rng, gen.diameter(v))]
    return case


# --------------------------------------------------------------------------- helpers


def scale_of(rec):
    if rec["verts"] is not None:
        v = rec["verts"]
        return gen.diameter(v) + float(np.linalg.norm(v.mean(axis=0)))
    return float(max(rec["radii"])) + float(np.linalg.norm(rec["center"]))


def numbers_in(obj):
    if isinstance(obj, dict):
        for v in obj.values():
            yield from numbers_in(v)
    elif isinstance(obj, (list, tuple)):
        for v in obj:
            yield from numbers_in(v)
    elif isinstance(obj, np.ndarray):
        yield from obj.ravel().tolist()
    elif isinstance(obj, (int, float, np.integer, np.floating)) and not isinstance(obj, bool):
        yield obj


def gsd_items(spec):
    """impl GSD dict -> ordered items in the model's value vocabulary"""
    items = []
    for k, v in spec.items():
        if k == "indices":
            items.append((k, ("idx", [[int(i) for i in f] for f in v])))
        else:
            items.append((k, v))
    return items


def model_items_equal(model_items, impl_items):
    """exact comparison of a model dict (decoded) with impl items (python values)"""
    if [k for k, _ in model_items] != [k for k, _ in impl_items]:
        return "keys %r != %r" % ([k for k, _ in model_items], [k for k, _ in impl_items])
    for (k, mv), (_, iv) in zip(model_items, impl_items):
        if isinstance(iv, str):
            ok = mv == iv
        elif isinstance(iv, tuple) and iv[0] == "idx":
            ok = mv == ("idx", iv[1])
        elif isinstance(iv, (int, float, np.integer, np.floating)):
            ok = isinstance(mv, float) and mv == float(iv)
        else:
            a = np.asarray(iv, dtype=float)
            ok = (isinstance(mv, tuple) and mv[0] in ("vec", "mat")
                  and np.asarray(mv[1], dtype=float).shape == a.shape and np.array_equal(np.asarray(mv[1], dtype=float), a))
        if not ok:
            return "value of %r: model %r impl %r" % (k, mv, iv)
    return None


def ext_for(verts, cls_hint=None, faces=None, hull_all=True, simple=True, planar=True):
    conv = True
    if verts is not None and cls_hint in ("Polygon", "ConvexPolygon", "ConvexSpheropolygon"):
        conv = cycle_convexity(verts) > 0
    return t_ext(planar=planar, simple=simple, convex=conv, hull_all=hull_all, hull_faces=faces or [])


def expected_gsd_class(rec):
    if rec["cls"] == "Polygon":
        c = cycle_convexity(rec["verts"])
        if c == 0:
            return None
        return "ConvexPolygon" if c > 0 else "Polygon"
    return rec["cls"]


def dim_of(cls):
    return 2 if cls in ("Circle", "Ellipse") else 3


# --------------------------------------------------------------------------- checks on one shape


def check_gsd(ctx, case, s):
    from coxeter.shape_getters import from_gsd_type_shapes
    rec = impl("attributes", record, s)
    cls = rec["cls"]
    spec = impl("gsd_shape_spec", lambda: s.gsd_shape_spec)
    # emitted numbers survive str()
    for x in numbers_in(spec):
        if float(str(x)) != x:
            ctx.fail("%s.gsd_shape_spec:number-format" % cls, "float(str(x)) != x for an emitted number", case, repr(x))
            break
    if spec.get("type") not in GSD_TYPES:
        ctx.fail("%s.gsd_shape_spec:type" % cls, "type string outside the GSD schema", case, repr(spec.get("type")))
    # ---- B: model encoder
    items = gsd_items(spec)
    try:
        m = Cur(ctx.driver.F("c19.gsd", t_shape(rec))).dict()
        d = model_items_equal(m, items)
        if d:
            ctx.disagree("c19.gsd", case, d)
    except ModelRaise as e:
        ctx.disagree("c19.gsd", case, "model raised " + e.kind)
    # ---- decode
    want = expected_gsd_class(rec)
    if want is None:
        ctx.skipped_near_boundary += 1
        return
    dim = dim_of(cls)
    if cls not in ("Circle", "Sphere", "Ellipse", "Ellipsoid"):
        # the `dimensions` argument must be ignored for every vertex based class: ask with 2 or 3
        dim = 2 + (case.get("json_ints") or [1])[0] % 2
        ctx.count("gsd:dimensions=%d:vertex-class" % dim)
    else:
        # B only: the same spec read with the OTHER dimensionality (Sphere <-> Circle, Ellipsoid -> Ellipse, the two-key
        # spec of an Ellipse read as an Ellipsoid: KeyError)
        other = 5 - dim
        try:
            with warnings.catch_warnings():
                warnings.simplefilter("ignore")
                got = ("ok", record(from_gsd_type_shapes(spec, dimensions=other)))
        except Exception as e:  # noqa: BLE001
            got = ("raise", exc_kind(e))
        try:
            mk = ("ok", Cur(ctx.driver.F("c19.fromgsd", t_dict(gsd_items(spec)), I(other), ext_for(None))).shape())
        except ModelRaise as e:
            mk = ("raise", e.kind)
        if mk[0] != got[0] or (mk[0] == "raise" and mk[1] != got[1]) or (mk[0] == "ok" and rec_diff(mk[1], got[1])):
            ctx.disagree("c19.fromgsd:other-dimension", case, [str(mk)[:200], str(got)[:200]])
    try:
        s2 = from_gsd_type_shapes(spec, dimensions=dim)
    except Exception as e:
        ctx.fail("from_gsd_type_shapes:raises:" + cls, "decoding a shape's own GSD spec raised " + exc_kind(e), case, repr(e))
        s2 = None
    if s2 is not None:
        rec2 = record(s2)
        if rec2["cls"] != want:
            ctx.fail("from_gsd_type_shapes:class:" + cls, "GSD round trip gives class %s, expected %s" % (rec2["cls"], want),
                     case, rec2["cls"])
        else:
            if rec2["verts"] is not None and not np.array_equal(rec2["verts"], rec["verts"]):
                ctx.fail("from_gsd_type_shapes:vertices:" + cls, "GSD round trip changes the vertices", case,
                         float(np.max(np.abs(rec2["verts"] - rec["verts"]))) if rec2["verts"].shape == rec["verts"].shape else "shape")
            if rec2["radii"] != rec["radii"]:
                ctx.fail("from_gsd_type_shapes:radii:" + cls, "GSD round trip changes radii / semi-axes", case,
                         [rec["radii"], rec2["radii"]])
            if cls == "Polyhedron" and rec2["faces"] != rec["faces"]:
                ctx.fail("from_gsd_type_shapes:faces:" + cls, "GSD round trip changes the faces", case, None)
            m1, m2 = impl("measures", measures, s), impl("measures", measures, s2)
            for k in m1:
                if k not in m2 or not ctx.close_enough(m1[k], m2[k], abs(m1[k]) + 1e-300):
                    ctx.fail("from_gsd_type_shapes:measures:" + cls, "GSD round trip changes " + k, case, [m1[k], m2.get(k)])
                    break
    # ---- B: model decoder on the same dict
    faces2 = record(s2)["faces"] if (s2 is not None and type(s2).__name__ == "ConvexPolyhedron") else None
    try:
        r = ctx.driver.F("c19.fromgsd", t_dict(items), I(dim), ext_for(rec["verts"], cls, faces=faces2))
        mrec = Cur(r).shape()
        if s2 is None:
            ctx.disagree("c19.fromgsd", case, "impl raised, model returned " + mrec["cls"])
        else:
            d = rec_diff(mrec, record(s2), normal_tol=1e-9)
            if d:
                ctx.disagree("c19.fromgsd", case, d)
    except ModelRaise as e:
        if s2 is not None:
            ctx.disagree("c19.fromgsd", case, "model raised %s, impl returned" % e.kind)


def parse_repr(text):
    """`coxeter.shapes.X(k=v, ...)` -> (dotted name, [(k, python value)])"""
    node = ast.parse(text, mode="eval").body
    if not isinstance(node, ast.Call) or node.args:
        raise ValueError("repr is not a keyword-only call")
    parts = []
    f = node.func
    while isinstance(f, ast.Attribute):
        parts.append(f.attr)
        f = f.value
    parts.append(f.id)
    return ".".join(reversed(parts)), [(kw.arg, ast.literal_eval(kw.value)) for kw in node.keywords]


def kw_items(kwargs):
    out = []
    for k, v in kwargs:
        if k == "faces":
            out.append((k, ("idx", [[int(i) for i in f] for f in v])))
        else:
            out.append((k, v))
    return out


def repr_tokens(text):
    """the printed text as the model's tokens: ('name', dotted) | 'lpar' ... | ('num', float) | ('int', n).
    A dotted name is one token; a NUMBER with a point / exponent is a float literal, otherwise an integer."""
    import io
    import tokenize
    punct = {"(": "lpar", ")": "rpar", "[": "lbr", "]": "rbr", ",": "comma", "=": "eq", "-": "minus"}
    out = []
    for tok in tokenize.generate_tokens(io.StringIO(text).readline):
        if tok.type in (tokenize.NEWLINE, tokenize.NL, tokenize.ENDMARKER):
            continue
        if tok.type == tokenize.NAME:
            if len(out) >= 2 and out[-1] == "dot" and isinstance(out[-2], tuple) and out[-2][0] == "name":
                out.pop()
                out[-1] = ("name", out[-1][1] + "." + tok.string)
            else:
                out.append(("name", tok.string))
        elif tok.type == tokenize.NUMBER:
            t = tok.string
            if any(ch in t for ch in ".eE") and not t.lower().startswith("0x"):
                out.append(("num", float(t)))
            else:
                out.append(("int", int(t)))
        elif tok.type == tokenize.OP and tok.string == ".":
            out.append("dot")
        elif tok.type == tokenize.OP and tok.string in punct:
            out.append(punct[tok.string])
        else:
            raise ValueError("token outside the repr grammar: %r" % (tok.string,))
    if "dot" in out:
        raise ValueError("stray dot")
    return out


TOKTAG = {"lpar": 1, "rpar": 2, "lbr": 3, "rbr": 4, "comma": 5, "eq": 6, "minus": 7}


def t_toks(toks):
    out = [I(len(toks))]
    for t in toks:
        if isinstance(t, tuple) and t[0] == "name":
            out += [I(0)] + t_str(t[1])
        elif isinstance(t, tuple) and t[0] == "num":
            out += [I(8), f2h(t[1])]
        elif isinstance(t, tuple) and t[0] == "int":
            out += [I(9), I(t[1])]
        else:
            out.append(I(TOKTAG[t]))
    return out


def rd_toks(cur):
    inv = {v: k for k, v in TOKTAG.items()}
    out = []
    for _ in range(cur.int()):
        tag = cur.int()
        if tag == 0:
            out.append(("name", cur.str()))
        elif tag == 8:
            out.append(("num", cur.sc()))
        elif tag == 9:
            out.append(("int", cur.int()))
        else:
            out.append(inv[tag])
    return out


def toks_diff(model, impl_toks):
    """first difference; numbers by value and sign bit (an int literal where the model prints a float — a radius that
    was given as an int — is the same number)"""
    if len(model) != len(impl_toks):
        return "token count %d != %d" % (len(model), len(impl_toks))
    for i, (a, b) in enumerate(zip(model, impl_toks)):
        if isinstance(a, tuple) and isinstance(b, tuple) and a[0] in ("num", "int") and b[0] in ("num", "int"):
            x, y = float(a[1]), float(b[1])
            if not (x == y and np.signbit(x) == np.signbit(y)):
                return "token %d: number %r != %r" % (i, a, b)
        elif a != b:
            return "token %d: %r != %r" % (i, a, b)
    return None


def check_repr_text(ctx, case, rec, text, s2, err_kind):
    """B at the level of the printed TEXT: the model prints the same tokens, and the model's evaluator run on the
    implementation's own tokens returns what eval() returned (same object, or the same exception kind)."""
    cls = rec["cls"]
    try:
        toks = repr_tokens(text)
    except Exception as e:  # noqa: BLE001
        ctx.fail("%s.__repr__:syntax" % cls, "repr contains a token outside `name(k=v, ...)` with list / number values", case,
                 repr(e)[:200])
        return
    try:
        m = rd_toks(Cur(ctx.driver.F("c19.reprtext", t_shape(rec))))
        d = toks_diff(m, toks)
        if d:
            ctx.disagree("c19.reprtext", case, d)
    except ModelRaise as e:
        ctx.disagree("c19.reprtext", case, "model raised " + e.kind)
    try:
        r = ctx.driver.F("c19.evaltext", t_toks(toks), ext_for(rec["verts"], cls))
        mrec = Cur(r).shape()
        if s2 is None:
            ctx.disagree("c19.evaltext", case, "impl raised %s, model returned %s" % (err_kind, mrec["cls"]))
        else:
            d = rec_diff(mrec, record(s2), normal_tol=1e-9)
            if d:
                ctx.disagree("c19.evaltext", case, d)
    except ModelRaise as e:
        if s2 is not None:
            ctx.disagree("c19.evaltext", case, "model raised %s, impl returned" % e.kind)
        elif err_kind is not None and e.kind != err_kind:
            ctx.disagree("c19.evaltext", case, "exception kind: model %s impl %s" % (e.kind, err_kind))


def check_repr(ctx, case, s):
    import coxeter
    rec = impl("attributes", record, s)
    cls = rec["cls"]
    text = impl("__repr__", repr, s)
    err_kind = None
    try:
        s2 = eval(text, {"coxeter": coxeter})
    except Exception as e:
        err_kind = type(e).__name__
        if not case.get("nonfinite"):
            ctx.fail("%s.__repr__:eval-raises" % cls, "eval(repr(shape)) raised %s in an environment with only coxeter" %
                     type(e).__name__, case, repr(e)[:300])
        s2 = None
    check_repr_text(ctx, case, rec, text, s2, err_kind)
    if case.get("nonfinite"):
        return
    if s2 is not None:
        rec2 = record(s2)
        if rec2["cls"] not in (cls, BASE.get(cls)):
            ctx.fail("%s.__repr__:class" % cls, "eval(repr(shape)) is neither the class nor its general base class", case,
                     rec2["cls"])
        else:
            cmp_rec = dict(rec, cls=rec2["cls"])
            d = rec_diff(rec2, cmp_rec, normal_tol=1e-12)
            if d:
                ctx.fail("%s.__repr__:state" % cls, "eval(repr(shape)) differs: " + d.split(" ")[0], case, d)
            m1, m2 = impl("measures", measures, s), impl("measures", measures, s2)
            for k in m1:
                if k not in m2 or not ctx.close_enough(m1[k], m2[k], abs(m1[k]) + 1e-300):
                    ctx.fail("%s.__repr__:measures" % cls, "eval(repr(shape)) changes " + k, case, [m1[k], m2.get(k)])
                    break
    # ---- B: the printed call is the model's call; the model evaluates it to the same object
    try:
        fn, kwargs = parse_repr(text)
    except Exception as e:
        ctx.fail("%s.__repr__:syntax" % cls, "repr is not a keyword-only constructor call of literals", case, repr(e)[:200])
        return
    for x in numbers_in([v for _, v in kwargs]):
        if float(str(x)) != x:
            ctx.fail("%s.__repr__:number-format" % cls, "float(str(x)) != x for a printed number", case, repr(x))
            break
    items = kw_items(kwargs)
    try:
        cur = Cur(ctx.driver.F("c19.repr", t_shape(rec)))
        mfn, mkw = cur.str(), cur.dict()
        d = None if mfn == fn else "function %r != %r" % (mfn, fn)
        d = d or model_items_equal(mkw, items)
        if d:
            ctx.disagree("c19.repr", case, d)
    except ModelRaise as e:
        ctx.disagree("c19.repr", case, "model raised " + e.kind)
    try:
        r = ctx.driver.F("c19.eval", t_str(fn), t_dict(items), ext_for(rec["verts"], cls))
        mrec = Cur(r).shape()
        if s2 is None:
            ctx.disagree("c19.eval", case, "impl raised, model returned " + mrec["cls"])
        else:
            d = rec_diff(mrec, record(s2), normal_tol=1e-9)
            if d:
                ctx.disagree("c19.eval", case, d)
    except ModelRaise as e:
        if s2 is not None:
            ctx.disagree("c19.eval", case, "model raised %s, impl returned" % e.kind)


_ATTR_TABLE = {}


def attr_table(s):
    """per class: {public property name: 'ok' | exception kind}, by introspection of a sample object"""
    c = type(s).__name__
    if c in _ATTR_TABLE:
        return _ATTR_TABLE[c]
    tab = {}
    with warnings.catch_warnings():
        warnings.simplefilter("ignore")
        for name in dir(s):
            if name.startswith("_"):
                continue
            if not isinstance(inspect.getattr_static(type(s), name, None), property):
                continue
            try:
                getattr(s, name)
                tab[name] = "ok"
            except Exception as e:
                tab[name] = exc_kind(e)
    _ATTR_TABLE[c] = tab
    return tab


def same_value(a, b):
    if a is b:
        return True
    try:
        if isinstance(a, (list, tuple)) and isinstance(b, (list, tuple)):
            return len(a) == len(b) and all(same_value(x, y) for x, y in zip(a, b))
        if isinstance(a, dict) and isinstance(b, dict):
            return a.keys() == b.keys() and all(same_value(a[k], b[k]) for k in a)
        if isinstance(a, (np.ndarray, float, int, np.floating, np.integer)):
            return bool(np.array_equal(np.asarray(a), np.asarray(b)))
        if hasattr(a, "vertices") and hasattr(b, "vertices"):
            return bool(np.array_equal(a.vertices, b.vertices))
        return bool(a == b)
    except Exception:
        return False


def check_to_json(ctx, case, s, rng_ints):
    cls = type(s).__name__
    tab = attr_table(s)
    good = [a for a in SAFE_ATTRS if tab.get(a) == "ok"]
    notimpl = sorted(a for a, k in tab.items() if k == "NotImplementedError")
    known = list(dir(s))
    raising = [(a, "NotImplementedError") for a in notimpl]
    it = iter(rng_ints)

    def pick(lst):
        return lst[next(it) % len(lst)]

    k = 1 + next(it) % 4
    req = [pick(good) for _ in range(k)]
    if next(it) % 3 == 0:
        req.append(req[0])                       # a repeated request
    requests = [("plain", list(req))]
    bad = pick(["colour", "Vertices", "volume ", "", "to_hoomd_", "__nope__", "inertia"])
    if bad not in known:
        pos = next(it) % (len(req) + 1)
        requests.append(("unknown", req[:pos] + [bad] + req[pos:]))
    if notimpl:
        pos = next(it) % (len(req) + 1)
        requests.append(("raising", req[:pos] + [pick(notimpl)] + req[pos:]))
    requests.append(("empty", []))
    for tag, attrs in requests:
        ctx.count("to_json:" + tag)
        with warnings.catch_warnings():
            warnings.simplefilter("ignore")
            try:
                out = s.to_json(list(attrs))
                got = ("ok", list(out.keys()))
            except Exception as e:
                out = None
                got = ("raise", exc_kind(e))
        sub = dict(case, request=attrs)
        # ---- C
        if tag in ("plain", "empty"):
            want_keys = list(dict.fromkeys(attrs))
            if got[0] != "ok":
                ctx.fail("%s.to_json:raises" % cls, "to_json raised %s for valid attributes" % got[1], sub, attrs)
            elif got[1] != want_keys:
                ctx.fail("%s.to_json:keys" % cls, "to_json keys are not exactly the requested attributes", sub, [got[1], want_keys])
            else:
                for a in want_keys:
                    if True:
                        if not same_value(out[a], impl(a, getattr, s, a)):
                            ctx.fail("%s.to_json:value" % cls, "to_json value differs from getattr for " + a, sub, a)
                            break
        elif tag == "unknown":
            if got != ("raise", "AttributeError"):
                ctx.fail("%s.to_json:unknown-attribute" % cls, "unknown attribute did not raise AttributeError", sub, got)
        # ---- B
        try:
            r = ctx.driver.F("c19.tojson", [I(len(known))] + [t for n in known for t in t_str(n)],
                             [I(len(raising))] + [t for n, kd in raising for t in (t_str(n) + t_str(kd))],
                             [I(len(attrs))] + [t for n in attrs for t in t_str(n)])
            cur = Cur(r)
            mk = ("ok", [cur.str() for _ in range(cur.int())])
        except ModelRaise as e:
            mk = ("raise", e.kind)
        if mk != got:
            ctx.disagree("c19.tojson", sub, [mk, got])


def hoomd_expect(s, rec):
    """independent description of the centred shape: (centroid, centred vertices, size, inertia-or-None)"""
    cls = rec["cls"]
    v = rec["verts"]
    if cls in ("Polygon", "ConvexPolygon", "ConvexSpheropolygon"):
        area, n, cen, J = poly_measures(v)
        return cen, v - cen, area, J * np.outer(n, n)
    if cls in ("Polyhedron", "ConvexPolyhedron"):
        vol, cen, _ = solid_measures(v, rec["faces"])
        _, _, I0 = solid_measures(v - cen, rec["faces"])
        return cen, v - cen, vol, I0
    # spheropolyhedron: faces of the core from an independent hull
    tets, tris, hull = gen.cone_tets(v)
    vol, cen, _ = solid_measures(np.vstack([t for t in tris]), [[3 * i, 3 * i + 1, 3 * i + 2] for i in range(len(tris))])
    return cen, v - cen, vol, None


def t_triples(tr):
    return [I(len(tr))] + [I(int(i)) for t in tr for i in t]


def obj_state(core):
    """what the measure getters of the object read: vertices plus the caches, in the layout of driver op c19.hoomdobj"""
    name = type(core).__name__
    if name == "ConvexPolyhedron":
        return {"kind": 0, "verts": np.array(core._vertices, dtype=float),
                "simplices": [[int(i) for i in t] for t in core._simplices],
                "faces": [[int(i) for i in f] for f in core.faces],
                "centroid": np.array(core._centroid, dtype=float), "volume": float(core._volume),
                "snormals": np.array(core._simplex_equations[:, :3], dtype=float)}
    if name == "Polyhedron":
        from coxeter.extern.polytri import polytri
        V = np.array(core._vertices, dtype=float)
        tri = []
        for f in core.faces:
            f = [int(i) for i in f]
            fv = V[f]
            for t in polytri.triangulate(fv):
                tri.append([f[int(np.where((fv == np.asarray(p)).all(axis=1))[0][0])] for p in t])
        return {"kind": 1, "verts": V, "faces": [[int(i) for i in f] for f in core.faces], "tri": tri,
                "eqs": np.array(core._equations, dtype=float)}
    if name in ("Polygon", "ConvexPolygon"):
        import rowan
        n = np.array(core.normal, dtype=float)
        R = np.asarray(rowan.mapping.kabsch([n, -n], [[0, 0, 1], [0, 0, -1]])[0], dtype=float)
        z = np.array([0.0, 0.0, 1.0])
        R2 = np.asarray(rowan.mapping.kabsch([z, -z], [[0, 0, 1], [0, 0, -1]])[0], dtype=float)
        return {"kind": 2, "verts": np.array(core._vertices, dtype=float), "normal": n, "R": R, "R2": R2}
    return None


def t_obj(st, extra=()):
    k = st["kind"]
    if k in (0, 3):
        return ([I(k)] + t_v3s(st["verts"]) + t_triples(st["simplices"]) + t_idx(st["faces"])
                + [f2h(x) for x in st["centroid"]] + [f2h(st["volume"])] + t_v3s(st["snormals"]) + list(extra))
    if k == 1:
        return ([I(1)] + t_v3s(st["verts"]) + t_idx(st["faces"]) + t_triples(st["tri"])
                + [I(len(st["eqs"]))] + [f2h(float(x)) for x in np.asarray(st["eqs"]).ravel()])
    return ([I(2)] + t_v3s(st["verts"]) + [f2h(float(x)) for x in st["normal"]]
            + [f2h(float(x)) for x in st["R"].ravel()] + [f2h(float(x)) for x in st["R2"].ravel()])


def rd_obj(cur, kind):
    st = {"verts": cur.v3s()}
    if kind in (0, 3):
        st["centroid"] = np.array([cur.sc(), cur.sc(), cur.sc()])
        st["volume"] = cur.sc()
        st["snormals"] = cur.v3s()
    elif kind == 1:
        st["eqs"] = np.array([[cur.sc() for _ in range(4)] for _ in range(cur.int())], dtype=float).reshape(-1, 4)
    return st


def check_hoomd_measured(ctx, case, cls, pre, calls):
    """B, numerically: the object WITH ITS CACHES as it was before the first call is given to the model whose getters
    are the measure models of C01 / C02 / C04 (driver op c19.hoomdobj: to_hoomd twice in a row).  Both returned dicts
    (vertices, centroid, area / volume, moment_inertia, sweep_radius, key order) and both states the object is left in
    (vertices, _centroid, _volume, simplex normals / _equations) are compared with the implementation's."""
    if pre is None:
        return
    kind = pre["kind"]
    extra = []
    if cls == "ConvexSpheropolyhedron":
        pre = dict(pre, kind=3)
        kind = 3
        extra = [f2h(float(calls[0][0]["sweep_radius"])), f2h(float(calls[0][0]["volume"]))]
    V = pre["verts"]
    d = gen.diameter(V)
    Ls = d + float(np.linalg.norm(V.mean(axis=0)))
    size_key = "area" if kind == 2 else "volume"
    p = 2 if kind == 2 else 3
    ctx.count("hoomdobj:" + cls)
    # ---- the hypotheses of the `…_measured` / `…_history` theorems, decided for THIS object
    if kind in (0, 1, 3):
        # Closed / Closed0: the object's own triangles bound the cone over them from the vertex mean (chainCheck over Q,
        # sound by chainCheck_rat_sound / cone_closed of C01) and the cone has positive (non-zero) volume
        from common import L
        S = [V[list(t)] for t in (pre["simplices"] if kind != 1 else pre["tri"])]
        apex = V.mean(axis=0)
        ck = ctx.driver.Q("chain.check", L([np.asarray(t, dtype=float) for t in S]),
                          L([np.array([apex, t[0], t[1], t[2]]) for t in S]))
        ok = bool(ck[0]) and (ck[3] > 0 if kind != 1 else ck[3] != 0)
        ctx.count("hoomdobj:closed-surface-" + ("holds" if ok else "FAILS"))
        if not ok:
            ctx.contract_failures.append({"contract": "Closed (hypothesis of hoomd_*_measured): the object's triangles "
                                          "bound a solid (exact, Q)", "got": [bool(ck[0]), float(ck[3])], "class": cls})
    else:
        R, n = pre["R"], pre["normal"]
        ok = (np.allclose(R @ R.T, np.eye(3), atol=1e-12) and abs(np.linalg.det(R) - 1) < 1e-12
              and np.allclose(R @ n, [0, 0, 1], atol=1e-12))
        ctx.count("hoomdobj:kabsch-frame-" + ("holds" if ok else "FAILS"))
        if not ok:
            ctx.contract_failures.append({"contract": "IsFrame R n (hypothesis of hoomd_centred_polygon_certified)",
                                          "normal": n.tolist()})
    try:
        cur = Cur(ctx.driver.F("c19.hoomdobj", t_obj(pre, extra)))
        for n, (out, post) in enumerate(calls):
            tag = "call %d: " % (n + 1)
            md, mst = cur.dict(), rd_obj(cur, kind)
            if [k for k, _ in md] != list(out.keys()):
                ctx.disagree("c19.hoomdobj:keys", case, [tag, [k for k, _ in md], list(out.keys())])
                return
            for k, mv in md:
                iv = out[k]
                if k == "faces":
                    ok = mv == ("idx", [[int(i) for i in f] for f in iv])
                elif k in ("vertices", "centroid"):
                    ok = ctx.close_enough(np.asarray(mv[1], dtype=float), np.asarray(iv, dtype=float), Ls)
                elif k == "moment_inertia":
                    ok = ctx.close_enough(np.asarray(mv[1], dtype=float), np.asarray(iv, dtype=float), d ** (p + 2))
                elif k == "sweep_radius":
                    ok = mv == float(iv)
                else:
                    ok = ctx.close_enough(float(mv), float(iv), d ** p if k == size_key else abs(float(iv)))
                if not ok:
                    ctx.disagree("c19.hoomdobj:" + k, case, [tag, mv if k != "vertices" else "vertices", np.asarray(iv).tolist()
                                                            if k != "vertices" else None])
            if post is None:
                continue
            if not ctx.close_enough(mst["verts"], post["verts"], Ls):
                ctx.disagree("c19.hoomdobj:state-vertices", case, tag + "vertices the object is left with")
            if kind in (0, 3):
                if not ctx.close_enough(mst["centroid"], post["centroid"], Ls):
                    ctx.disagree("c19.hoomdobj:state-_centroid", case, [tag, mst["centroid"].tolist(), post["centroid"].tolist()])
                if not ctx.close_enough(mst["volume"], post["volume"], d ** 3):
                    ctx.disagree("c19.hoomdobj:state-_volume", case, [tag, mst["volume"], post["volume"]])
                if not ctx.close_enough(mst["snormals"], post["snormals"], 1.0, tol=1e-7):
                    ctx.disagree("c19.hoomdobj:state-simplex-normals", case, tag)
            elif kind == 1:
                sc = np.array([1.0, 1.0, 1.0, Ls])
                if mst["eqs"].shape != post["eqs"].shape or not np.all(np.abs(mst["eqs"] - post["eqs"]) <= 1e-7 * sc):
                    ctx.disagree("c19.hoomdobj:state-_equations", case, tag)
    except ModelRaise as e:
        ctx.disagree("c19.hoomdobj", case, "model raised " + e.kind)


def curved_judge(ctx, case, s, cls, out, rec, tag, skip=()):
    """one Sphere/Ellipsoid to_hoomd result against the closed forms of the shape `rec` centred at the origin"""
    failed = set()

    def fail(clause, what, detail):
        failed.add(clause)
        if clause not in skip:
            ctx.fail("%s.to_hoomd:%s%s" % (cls, clause, tag), what, case, detail)

    keys = list(out.keys())
    if sorted(keys) != sorted(HOOMD_KEYS[cls]):
        fail("keys", "keys are not the documented ones", keys)
        return failed
    r = rec["radii"]
    abc = [r[0]] * 3 if cls == "Sphere" else r
    vol = 4.0 / 3.0 * np.pi * abc[0] * abc[1] * abc[2]
    I0 = vol / 5.0 * np.diag([abc[1] ** 2 + abc[2] ** 2, abc[0] ** 2 + abc[2] ** 2, abc[0] ** 2 + abc[1] ** 2])
    if not np.array_equal(np.asarray(out["centroid"], dtype=float), np.zeros(3)):
        fail("centroid-field", "centroid is not (0,0,0)", np.asarray(out["centroid"], dtype=float).tolist())
    if not ctx.close_enough(out["volume"], vol, vol):
        fail("volume", "volume is not that of the shape", [float(out["volume"]), vol])
    if not ctx.close_enough(out["moment_inertia"], I0, vol * max(abc) ** 2):
        fail("inertia", "moment_inertia is not the tensor about the centre",
             [np.asarray(out["moment_inertia"]).tolist(), I0.tolist()])
    sizes = {"diameter": 2 * r[0]} if cls == "Sphere" else {"a": r[0], "b": r[1], "c": r[2]}
    for k, x in sizes.items():
        if float(out[k]) != x:
            fail("size", "size parameter changed", [k, float(out[k]), x])
    if not np.array_equal(np.asarray(s.centroid, dtype=float), np.asarray(rec["center"], dtype=float)):
        fail("shape-moved", "the shape is not where it was after to_hoomd",
             [rec["center"], np.asarray(s.centroid).tolist()])
    return failed


def check_hoomd_curved(ctx, case, s, rec):
    cls = rec["cls"]
    out = impl("to_hoomd", s.to_hoomd)
    failed = curved_judge(ctx, case, s, cls, out, rec, "")
    if "keys" in failed:
        return
    keys = list(out.keys())
    r = rec["radii"]
    sizes = {"diameter": 2 * r[0]} if cls == "Sphere" else {"a": r[0], "b": r[1], "c": r[2]}
    # B
    try:
        cur = Cur(ctx.driver.F("c19.tohoomd", t_shape(rec), [f2h(0.0)] * 3,
                               [I(1)] + t_str("volume") + [f2h(float(out["volume"]))],
                               t_rows(np.asarray(out["moment_inertia"], dtype=float).tolist())))
        md, mfinal = cur.dict(), cur.shape()
        if [k for k, _ in md] != keys:
            ctx.disagree("c19.tohoomd", case, ["key order", [k for k, _ in md], keys])
        for k, mv in md:
            if k in sizes and mv != float(out[k]):
                ctx.disagree("c19.tohoomd", case, [k, mv, float(out[k])])
            if k == "centroid" and list(mv[1]) != [float(x) for x in out["centroid"]]:
                ctx.disagree("c19.tohoomd", case, ["centroid", mv, out["centroid"]])
        d = rec_diff(mfinal, record(s))
        if d:
            ctx.disagree("c19.tohoomd", case, "final state: " + d)
    except ModelRaise as e:
        ctx.disagree("c19.tohoomd", case, "model raised " + e.kind)
    # the same question again, after other queries, and after the shape was moved with its own setter
    ctx.count("to_hoomd:repeat")
    out2 = impl("to_hoomd(second call)", s.to_hoomd)
    failed |= curved_judge(ctx, case, s, cls, out2, impl("attributes", record, s), ":repeat", skip=failed)
    read_shuffled({"volume": lambda: s.volume, "inertia_tensor": lambda: s.inertia_tensor, "repr": lambda: repr(s),
                   "gsd": lambda: s.gsd_shape_spec, "surface_area": lambda: s.surface_area, "iq": lambda: s.iq},
                  [cls, rec["radii"], rec["center"], "hoomd"])
    out3 = impl("to_hoomd(after queries)", s.to_hoomd)
    failed |= curved_judge(ctx, case, s, cls, out3, impl("attributes", record, s), ":after-queries", skip=failed)
    c_new = [float(x) for x in (np.asarray(rec["center"], dtype=float) * np.array([-0.5, 2.0, 1.25]) + max(r))]

    def move():
        s.centroid = np.array(c_new)
    impl("centroid setter", move)
    ctx.count("to_hoomd:after-move")
    out4 = impl("to_hoomd(after move)", s.to_hoomd)
    curved_judge(ctx, case, s, cls, out4, impl("attributes", record, s), ":after-move", skip=failed)


def hoomd_judge(ctx, case, s, core, out, rec, size_before, tag, skip=()):
    """Judge ONE to_hoomd result of a vertex based shape against the independent description of the shape `rec`
    (recorded just before the call) translated so that its centroid is the origin.  Returns (violated clauses, snapshot
    of the returned data).  `tag` names the history in the signature ('' = first call on the object as generated,
    ':repeat' = asked again at once, ':after-queries', ':after-move'); a clause in `skip` was already violated by an
    earlier call on the same object (the same defect) and is not reported again."""
    cls = rec["cls"]
    failed = set()

    def fail(clause, what, detail):
        failed.add(clause)
        if clause not in skip:
            ctx.fail("%s.to_hoomd:%s%s" % (cls, clause, tag), what, case, detail)

    keys = list(out.keys())
    if sorted(keys) != sorted(HOOMD_KEYS[cls]):
        fail("keys", "keys are not the documented ones", keys)
        return failed, None
    Ls = scale_of(rec)
    v0 = rec["verts"]
    size_key = "area" if cls in ("Polygon", "ConvexPolygon", "ConvexSpheropolygon") else "volume"
    cen, centred, size_indep, inertia = hoomd_expect(s, rec)
    snap = {k: (np.array(val, dtype=float, copy=True) if k != "faces" else [[int(i) for i in f] for f in val])
            for k, val in out.items()}
    ov = snap["vertices"]
    cols = ov.shape[1] if ov.ndim == 2 else -1
    d = gen.diameter(v0)
    # (1) vertices = original - centroid (first 2 or 3 coordinates)
    ok_v = ov.ndim == 2 and cols in (2, 3) and ov.shape[0] == len(v0) and ctx.close_enough(ov, centred[:, :cols], Ls)
    if not ok_v:
        dev = float(np.max(np.abs(ov - centred[:, :cols]))) if (ov.ndim == 2 and ov.shape[0] == len(v0) and cols in (2, 3)) else "shape"
        fail("not-centred", "returned vertices are not the original ones minus the centroid",
             {"max_dev": dev, "centroid": cen.tolist()})
    else:
        # (1b) the RETURNED vertices, on their own, have centroid 0 / the stated size / the stated inertia
        rv = np.c_[ov, np.zeros(len(ov))] if cols == 2 else ov
        flat = cls in ("Polygon", "ConvexPolygon", "ConvexSpheropolygon")
        in_plane = (not flat) or float(np.max(np.abs(centred[:, 2]))) <= 1e-12 * Ls or cols == 3
        if flat and in_plane:
            a2, n2, c2, J2 = poly_measures(rv)
            if not ctx.close_enough(c2, np.zeros(3), Ls):
                fail("not-centred", "centroid of the returned vertices is not the origin", c2.tolist())
            if not ctx.close_enough(float(out[size_key]) if cls != "ConvexSpheropolygon" else a2, a2, d * d):
                fail("area", "area is not that of the returned vertices", [float(out["area"]), a2])
            if "moment_inertia" in out and not ctx.close_enough(out["moment_inertia"], J2 * np.outer(n2, n2), d ** 4):
                fail("inertia", "moment_inertia is not that of the returned vertices",
                     [np.asarray(out["moment_inertia"]).tolist(), (J2 * np.outer(n2, n2)).tolist()])
        elif cls in ("Polyhedron", "ConvexPolyhedron"):
            vol2, c2, I2 = solid_measures(rv, rec["faces"])
            if not ctx.close_enough(c2, np.zeros(3), Ls):
                fail("not-centred", "centroid of the returned vertices is not the origin", c2.tolist())
            if not ctx.close_enough(float(out["volume"]), vol2, d ** 3):
                fail("volume", "volume is not that of the returned vertices", [float(out["volume"]), vol2])
            if not ctx.close_enough(out["moment_inertia"], I2, d ** 5):
                fail("inertia", "moment_inertia is not that of the returned vertices",
                     [np.asarray(out["moment_inertia"]).tolist(), I2.tolist()])
    # (2) centroid field
    if not ctx.close_enough(np.asarray(out["centroid"], dtype=float), np.zeros(3), Ls):
        fail("centroid-field", "centroid is not (0,0,0)", np.asarray(out["centroid"], dtype=float).tolist())
    # (3) size and inertia against the independent values of the centred original
    if cls in ("Polygon", "ConvexPolygon", "Polyhedron", "ConvexPolyhedron"):
        p = 2 if size_key == "area" else 3
        if not ctx.close_enough(float(out[size_key]), size_indep, d ** p):
            fail(size_key, size_key + " is not that of the shape", [float(out[size_key]), size_indep])
        if not ctx.close_enough(out["moment_inertia"], inertia, d ** (p + 2)):
            fail("inertia", "moment_inertia is not the tensor of the centred shape",
                 [np.asarray(out["moment_inertia"]).tolist(), inertia.tolist()])
    else:
        if not ctx.close_enough(float(out[size_key]), size_before, abs(size_before)):
            fail(size_key, size_key + " differs from the shape's " + size_key, [float(out[size_key]), size_before])
    # (4) sweep radius, faces
    want_r = rec["radii"][0] if rec["radii"] else 0.0
    if float(out["sweep_radius"]) != want_r:
        fail("sweep_radius", "sweep_radius is not the rounding radius", [float(out["sweep_radius"]), want_r])
    if "faces" in out and snap["faces"] != rec["faces"]:
        fail("faces", "faces differ from the shape's faces", None)
    # (5) the shape is back where it was: vertices AND what its own getters say about it
    if not ctx.close_enough(np.asarray(core.vertices, dtype=float), v0, Ls):
        fail("shape-moved", "the shape is not where it was after to_hoomd",
             float(np.max(np.abs(np.asarray(core.vertices) - v0))))
    else:
        c_after = np.array(impl("centroid", lambda: core.centroid), dtype=float)
        if not ctx.close_enough(c_after, cen, Ls):
            fail("shape-moved", "after to_hoomd the shape reports a centroid that is not the centroid of its vertices",
                 {"centroid": c_after.tolist(), "expected": cen.tolist()})
    return failed, snap


def snap_of(out, snap):
    """the first call's result as it was when it was returned"""
    return {k: (snap[k] if k in snap else out[k]) for k in out}


def check_hoomd(ctx, case, s):
    rec = impl("attributes", record, s)
    cls = rec["cls"]
    if cls in ("Circle", "Ellipse"):
        has = hasattr(s, "to_hoomd")
        try:
            ctx.driver.F("c19.tohoomd", t_shape(rec), [f2h(0.0)] * 3, I(0), I(0))
            model_has = True
        except ModelRaise as e:
            model_has = e.kind != "AttributeError"
        if has != model_has:
            ctx.disagree("c19.tohoomd", case, "to_hoomd presence: impl %r model %r" % (has, model_has))
        return
    if cls in ("Sphere", "Ellipsoid"):
        check_hoomd_curved(ctx, case, s, rec)
        return

    # ---------------- vertex based classes
    Ls = scale_of(rec)
    v0 = rec["verts"].copy()
    core = s.polygon if cls == "ConvexSpheropolygon" else (s.polyhedron if cls == "ConvexSpheropolyhedron" else s)
    c_impl = np.array(impl("centroid", lambda: core.centroid), dtype=float)
    size_key = "area" if cls in ("Polygon", "ConvexPolygon", "ConvexSpheropolygon") else "volume"
    size_before = float(impl(size_key, getattr, s, size_key))
    measured = cls != "ConvexSpheropolygon"          # (that class's to_hoomd is the known finding; no cache either)
    pre = impl("object state", obj_state, core) if measured else None
    out = impl("to_hoomd", s.to_hoomd)
    post1 = impl("object state", obj_state, core) if measured else None
    live = bool(np.shares_memory(np.asarray(out.get("vertices", np.zeros(1))), core.vertices))
    failed, snap = hoomd_judge(ctx, case, s, core, out, rec, size_before, "")
    if snap is None:
        return
    keys = list(out.keys())
    ov = snap["vertices"]
    cols = ov.shape[1] if ov.ndim == 2 else -1
    d = gen.diameter(v0)
    v_after = np.array(core.vertices, dtype=float)
    # ---- B (before the shape is used again)
    try:
        delta = c_impl - v0.mean(axis=0)
        scal = [I(1)] + t_str(size_key) + [f2h(float(out[size_key]))]
        tens = t_rows(np.asarray(out["moment_inertia"], dtype=float).tolist()) if "moment_inertia" in out else [I(0)]
        cur = Cur(ctx.driver.F("c19.tohoomd", t_shape(rec), [f2h(x) for x in delta], scal, tens))
        md, mfinal = cur.dict(), cur.shape()
        if [k for k, _ in md] != keys:
            ctx.disagree("c19.tohoomd", case, ["key order", [k for k, _ in md], keys])
        else:
            for k, mv in md:
                if k == "vertices":
                    m_live = mv == ("live",)
                    if m_live != live:
                        ctx.disagree("c19.tohoomd", case, "returned vertices alias the live array: impl %r model %r" % (live, m_live))
                    mvv = mfinal["verts"] if m_live else np.asarray(mv[1], dtype=float)
                    if mvv.shape != ov.shape or not ctx.close_enough(mvv, ov, Ls):
                        ctx.disagree("c19.tohoomd:vertices", case, "model vertices differ from impl")
                elif k == "centroid":
                    if not ctx.close_enough(np.asarray(mv[1], dtype=float), snap["centroid"], Ls):
                        ctx.disagree("c19.tohoomd:centroid", case, [mv, snap["centroid"].tolist()])
                elif k == "faces":
                    if mv != ("idx", rec["faces"]):
                        ctx.disagree("c19.tohoomd:faces", case, "faces")
                elif k == "sweep_radius":
                    if mv != float(out["sweep_radius"]):
                        ctx.disagree("c19.tohoomd:sweep_radius", case, [mv, float(out["sweep_radius"])])
            if mfinal["cls"] != cls or not ctx.close_enough(mfinal["verts"], v_after, Ls):
                ctx.disagree("c19.tohoomd:final-state", case, "model final vertices differ from impl")
    except ModelRaise as e:
        ctx.disagree("c19.tohoomd", case, "model raised " + e.kind)
    # ---- the same question asked again: at once, after other queries, after the shape was moved with its own setter.
    # Every answer is judged against the shape as it is THEN (to_hoomd twice = once; nothing an earlier call or query
    # left behind may show).
    def again(tag, label):
        r_now = impl("attributes", record, s)
        sb = float(impl(size_key, getattr, s, size_key))
        o = impl("to_hoomd(%s)" % label, s.to_hoomd)
        f, _ = hoomd_judge(ctx, case, s, core, o, r_now, sb, tag, skip=failed)
        failed.update(f)
        return o

    ctx.count("to_hoomd:repeat")
    out2 = again(":repeat", "second call")
    # ---- B: the object with its caches, getters = the measure models, two calls in a row
    if measured and sorted(out2.keys()) == sorted(HOOMD_KEYS[cls]):
        check_hoomd_measured(ctx, case, cls, pre, [(snap_of(out, snap), post1), (out2, impl("object state", obj_state, core))])
    getters = {"centroid": lambda: core.centroid, size_key: lambda: getattr(s, size_key), "repr": lambda: repr(s),
               "gsd": lambda: s.gsd_shape_spec}
    if cls in ("Polygon", "ConvexPolygon", "Polyhedron", "ConvexPolyhedron"):
        getters["inertia_tensor"] = lambda: s.inertia_tensor
    if cls in ("Polyhedron", "ConvexPolyhedron", "ConvexSpheropolyhedron"):
        getters["surface_area"] = lambda: s.surface_area
    else:
        getters["perimeter"] = lambda: s.perimeter
    impl("queries", read_shuffled, getters, [cls, v0.tolist(), "hoomd"])
    ctx.count("to_hoomd:after-queries")
    again(":after-queries", "after queries")

    def move():
        core.centroid = np.asarray(core.centroid) + d * np.array([1.0, -2.0, 0.5 if cols == 3 else 0.0])
    impl("centroid setter", move)
    ctx.count("to_hoomd:after-move")
    again(":after-move", "after move")
    if cls in ("Polygon", "ConvexPolygon", "Polyhedron", "ConvexPolyhedron"):
        impl("inertia_tensor", lambda: s.inertia_tensor)
    # (6) returned data must not have changed while the shape was used (classes that centre)
    if cls != "ConvexSpheropolygon":
        for k, val in out.items():
            now = np.array(val, dtype=float) if k != "faces" else [[int(i) for i in f] for f in val]
            same = (now == snap[k]) if k == "faces" else np.array_equal(now, snap[k])
            if not same:
                ctx.fail("%s.to_hoomd:aliases-live-array" % cls, "returned %s changed when the shape was used afterwards" % k,
                         case, k)
                break


def eval_shape_case(ctx, case):
    try:
        s = build(case)
    except Exception as e:
        ctx.fail("%s.__init__:raises" % case["cls"], "constructor raised %s on a generated valid shape" % exc_kind(e), case, repr(e)[:300])
        return
    ctx.count("class:" + case["cls"])
    # a third of the shapes are examined on an object that REACHED this geometry through its mutators (scaled / shifted
    # copy -> every member read once, incl. to_hoomd and repr -> size setter -> centre / radius setters)
    key = [case["cls"], case.get("vertices"), case.get("radii"), case.get("center"), case.get("normal")]
    hrng = history.rng_for(key)
    s, how = history.maybe_via_history(s, hrng, 0.33, ctx)
    seed_ints = case.get("json_ints") or list(range(3, 40))
    checks = {"gsd": lambda: check_gsd(ctx, case, s), "repr": lambda: check_repr(ctx, case, s),
              "to_json": lambda: check_to_json(ctx, case, s, seed_ints), "to_hoomd": lambda: check_hoomd(ctx, case, s)}
    # the four representations are asked in an order drawn per case; GSD and repr are asked once more at the end, i.e.
    # also AFTER to_hoomd was called several times and the shape was moved with its centroid setter
    order = [list(checks)[i] for i in hrng.permutation(len(checks))]
    ctx.count("order:first-" + order[0])
    for name in order + ["gsd", "repr"]:
        try:
            checks[name]()
        except ImplRaise as e:
            ctx.fail("%s.%s:raises" % (case["cls"], e.what), "%s raised %s on a valid shape" % (e.what, type(e.exc).__name__),
                     case, repr(e.exc)[:300])


# --------------------------------------------------------------------------- GSD dict variants


def eval_gsd_variant(ctx, case):
    """a dict (ordered items) that is not necessarily a valid spec: impl vs model, and the ValueError clauses"""
    from coxeter.shape_getters import from_gsd_type_shapes
    items = [(k, (("idx", v[1]) if isinstance(v, list) and v and v[0] == "idx" else v)) for k, v in case["items"]]
    params = {}
    for k, v in items:
        params[k] = v[1] if isinstance(v, tuple) and v[0] == "idx" else v
    dim = case["dim"]
    ext = case.get("ext", {})
    with warnings.catch_warnings():
        warnings.simplefilter("ignore")
        try:
            s2 = from_gsd_type_shapes(params, dimensions=dim)
            got = ("ok", record(s2))
        except Exception as e:
            got = ("raise", exc_kind(e))
    expect = case.get("expect")
    ctx.count("gsd-variant:" + case["variant"])
    if expect == "ValueError" and got != ("raise", "ValueError"):
        ctx.fail("from_gsd_type_shapes:%s" % case["variant"], "a spec with %s did not raise ValueError" % case["variant"],
                 case, got[1] if got[0] == "raise" else got[1]["cls"])
    if expect == "Polygon" and not (got[0] == "ok" and got[1]["cls"] == "Polygon"):
        ctx.fail("from_gsd_type_shapes:nonconvex-polygon", "a non-convex cycle in a Polygon spec did not give a Polygon", case,
                 got[1] if got[0] == "raise" else got[1]["cls"])
    faces = got[1]["faces"] if (got[0] == "ok" and got[1]["cls"] == "ConvexPolyhedron") else []
    try:
        r = ctx.driver.F("c19.fromgsd", t_dict(items), I(dim),
                         t_ext(planar=ext.get("planar", True), simple=ext.get("simple", True),
                               convex=ext.get("convex", True), hull_all=ext.get("hull_all", True), hull_faces=faces))
        mk = ("ok", Cur(r).shape())
    except ModelRaise as e:
        mk = ("raise", e.kind)
    if mk[0] != got[0]:
        ctx.disagree("c19.fromgsd", case, [mk[0], mk[1] if mk[0] == "raise" else mk[1]["cls"], got[0],
                                           got[1] if got[0] == "raise" else got[1]["cls"]])
    elif mk[0] == "raise":
        if mk[1] != got[1]:
            ctx.disagree("c19.fromgsd", case, ["exception kind", mk[1], got[1]])
    else:
        d = rec_diff(mk[1], got[1], normal_tol=1e-9)
        if d:
            ctx.disagree("c19.fromgsd", case, d)


def jsonable_items(items):
    out = []
    for k, v in items:
        if isinstance(v, tuple) and v[0] == "idx":
            out.append([k, ["idx", v[1]]])
        elif isinstance(v, np.ndarray):
            out.append([k, v.tolist()])
        elif isinstance(v, (np.floating, np.integer)):
            out.append([k, float(v)])
        else:
            out.append([k, v])
    return out


def gsd_variant_cases(rng, ctx):
    """valid specs of all five types, then missing-key / unknown-type / invalid-geometry variants"""
    cases = []
    base = {}
    r1, _ = c19_curved(rng, 1)
    base["Sphere"] = ([("type", "Sphere"), ("diameter", 2 * r1[0])], {})
    r3, _ = c19_curved(rng, 3)
    base["Ellipsoid"] = ([("type", "Ellipsoid"), ("a", r3[0]), ("b", r3[1]), ("c", r3[2])], {})
    pv, _ = c19_polygon(rng, "convex")
    base["Polygon"] = ([("type", "Polygon"), ("vertices", pv.tolist())], {"convex": True})
    base["Polygon+r"] = ([("type", "Polygon"), ("vertices", pv.tolist()), ("rounding_radius", 0.25 * gen.diameter(pv))],
                         {"convex": True})
    cv, _ = gen.convex_solid(rng, offset_diams=float(rng.uniform(0.5, 10)))
    base["ConvexPolyhedron"] = ([("type", "ConvexPolyhedron"), ("vertices", cv.tolist())], {})
    base["ConvexPolyhedron+r"] = ([("type", "ConvexPolyhedron"), ("vertices", cv.tolist()),
                                   ("rounding_radius", 0.1 * gen.diameter(cv))], {})
    base["Polygon+r0"] = ([("type", "Polygon"), ("vertices", pv.tolist()), ("rounding_radius", 0.0)], {"convex": True})
    base["ConvexPolyhedron+r0"] = ([("type", "ConvexPolyhedron"), ("vertices", cv.tolist()), ("rounding_radius", 0.0)], {})
    mv, mf = c19_prism(rng, "L")
    base["Mesh"] = ([("type", "Mesh"), ("vertices", mv.tolist()), ("indices", ("idx", mf))], {})
    for name, (items, ext) in base.items():
        for dim in (2, 3):
            cases.append({"variant": "valid:" + name, "items": items, "dim": dim, "ext": ext})
        # type key missing -> ValueError, whatever else is there
        cases.append({"variant": "missing-type", "items": [kv for kv in items if kv[0] != "type"], "dim": 3, "ext": ext,
                      "expect": "ValueError"})
        # each other key missing -> correspondence (KeyError as coded)
        for k, _ in items:
            if k != "type":
                cases.append({"variant": "missing-key", "items": [kv for kv in items if kv[0] != k],
                              "dim": int(rng.integers(2, 4)), "ext": ext})
        # unknown type strings
        for bad in ("sphere", "Cylinder", "", "ConvexPolygon", "Polyhedron", "mesh", "Polygon ", "Ellipse", "Circle"):
            if rng.random() < 0.35:
                cases.append({"variant": "unknown-type", "items": [("type", bad)] + [kv for kv in items if kv[0] != "type"],
                              "dim": int(rng.integers(2, 4)), "ext": ext, "expect": "ValueError"})
    cases.append({"variant": "unknown-type", "items": [("type", "Torus")], "dim": 3, "ext": {}, "expect": "ValueError"})
    cases.append({"variant": "missing-type", "items": [], "dim": 3, "ext": {}, "expect": "ValueError"})
    # non-convex cycles -> Polygon
    for kind in ("star", "L", "comb"):
        for orient in ("ccw", "cw"):
            v, info = c19_polygon(rng, kind, orient)
            if cycle_convexity(v) >= 0:
                ctx.skipped_near_boundary += 1
                continue
            cases.append({"variant": "nonconvex:" + kind + ":" + orient, "items": [("type", "Polygon"), ("vertices", v.tolist())],
                          "dim": int(rng.integers(2, 4)), "ext": {"convex": False}, "expect": "Polygon"})
    # invalid geometry (all -> ValueError as coded): bow-tie, non-positive sizes, interior point
    # self-intersecting cycle whose points are NOT in convex position (a bow-tie of 4 hull points would be
    # silently re-ordered into a convex quadrilateral by ConvexPolygon)
    bow = np.array([[0, 0, 0], [2, 2, 0], [2, 0, 0], [0, 2, 0], [1, 0.4, 0]], dtype=float) + rng.uniform(1, 5, size=3) * [1, 1, 0]
    cases.append({"variant": "invalid:bow-tie", "items": [("type", "Polygon"), ("vertices", bow.tolist())], "dim": 3,
                  "ext": {"convex": False, "simple": False}})
    cases.append({"variant": "invalid:diameter<=0", "items": [("type", "Sphere"), ("diameter", -2.0 * r1[0])],
                  "dim": int(rng.integers(2, 4)), "ext": {}})
    cases.append({"variant": "invalid:a<=0", "items": [("type", "Ellipsoid"), ("a", 0.0), ("b", r3[1]), ("c", r3[2])],
                  "dim": int(rng.integers(2, 4)), "ext": {}})
    cases.append({"variant": "invalid:radius<0", "items": base["Polygon"][0] + [("rounding_radius", -0.5)], "dim": 3,
                  "ext": {"convex": True}})
    cases.append({"variant": "invalid:radius<0", "items": base["ConvexPolyhedron"][0] + [("rounding_radius", -0.5)], "dim": 3,
                  "ext": {}})
    inner = np.vstack([cv, cv.mean(axis=0)])
    cases.append({"variant": "invalid:interior-point", "items": [("type", "ConvexPolyhedron"), ("vertices", inner.tolist())],
                  "dim": 3, "ext": {"hull_all": False}})
    for c in cases:
        c["kind"] = "gsd-variant"
        c["items"] = jsonable_items(c["items"])
    return cases


# --------------------------------------------------------------------------- key renaming


def eval_mapkeys(ctx, case):
    from coxeter.shapes import utils
    items = [(k, float(v)) for k, v in case["items"]]
    data = dict(items)
    items = list(data.items())                      # a python dict cannot hold a key twice
    try:
        out = utils._map_dict_keys(data, key_mapping=utils._hoomd_dict_mapping)
    except Exception as e:
        ctx.fail("_map_dict_keys:raises", "_map_dict_keys raised " + type(e).__name__, case, repr(e)[:300])
        return
    got = list(out.items())
    images = [SPEC_MAPPING.get(k, k) for k, _ in items]
    ctx.count("mapkeys:" + ("collision" if len(set(images)) < len(images) else "injective"))
    # C: laws
    if set(out.keys()) != set(images):
        ctx.fail("_map_dict_keys:key-set", "result keys are not the images of the input keys", case, [list(out.keys()), images])
    elif len(set(images)) == len(images):
        if got != [(i, v) for i, (_, v) in zip(images, items)]:
            ctx.fail("_map_dict_keys:renaming", "mapped keys renamed / others kept / values and order preserved fails", case, got)
    # B
    try:
        m = Cur(ctx.driver.F("c19.mapkeys", t_dict(items))).dict()
        if m != got:
            ctx.disagree("c19.mapkeys", case, [m, got])
    except ModelRaise as e:
        ctx.disagree("c19.mapkeys", case, "model raised " + e.kind)


def check_mapping_constant(ctx):
    from coxeter.shapes import utils
    real = dict(utils._hoomd_dict_mapping)
    cur = Cur(ctx.driver.F("c19.mapping"))
    model = [(cur.str(), cur.str()) for _ in range(cur.int())]
    case = {"kind": "mapping-constant", "real": real}
    ctx.case(case)
    if dict(model) != real or len(model) != len(real):
        ctx.disagree("c19.mapping", case, [model, real])
    if real != SPEC_MAPPING:
        ctx.fail("_hoomd_dict_mapping:value", "the HOOMD key mapping is not inertia_tensor->moment_inertia, radius->sweep_radius",
                 case, real)


# --------------------------------------------------------------------------- run / replay


KNOWN_WITNESS = {"kind": "shape", "cls": "ConvexSpheropolygon",
                 "vertices": [[0.0, 0.0, 0.0], [0.0, 1.0, 0.0], [1.0, 1.0, 0.0], [1.0, 0.0, 0.0]], "radii": [1.0],
                 "note": "witness of known_findings.json (C19 ConvexSpheropolygon.to_hoomd:not-centred)"}


NONFINITE = [      # non-finite numbers are written as strings (the evidence / replay files stay strict JSON)
    {"cls": "Circle", "radii": ["inf"], "center": [1.0, 2.0, 0.0]},
    {"cls": "Sphere", "radii": ["inf"], "center": [1.0, -2.0, 3.0]},
    {"cls": "Ellipse", "radii": ["inf", 2.0], "center": [0.5, 2.0, 0.0]},
    {"cls": "Ellipsoid", "radii": [1.0, "inf", 2.0], "center": [0.5, 2.0, -1.0]},
    {"cls": "Circle", "radii": [1.5], "center": ["nan", 2.0, 0.0]},
    {"cls": "Sphere", "radii": [2.5], "center": ["-inf", 1.0, -0.0]},
    {"cls": "Ellipsoid", "radii": [1.0, 3.0, 2.0], "center": [0.5, "inf", "nan"]},
    {"cls": "ConvexSpheropolyhedron", "radii": ["inf"],
     "vertices": [[3.0, 3.0, 3.0], [4.0, 3.0, 3.0], [3.0, 4.0, 3.0], [3.0, 3.0, 4.0]]},
]


def eval_nonfinite(ctx, case):
    """shapes with a non-finite parameter are outside the property's quantifier; what their repr does (the bare names
    inf / nan -> NameError under eval with only coxeter bound) is compared with the model (correspondence only)"""
    try:
        with warnings.catch_warnings():
            warnings.simplefilter("ignore")
            s = build(dict(case, radii=[float(x) for x in case["radii"]],
                           center=[float(x) for x in case["center"]] if case.get("center") else None))
    except Exception as e:  # noqa: BLE001
        ctx.count("nonfinite:constructor-" + exc_kind(e))
        return
    ctx.count("nonfinite:" + case["cls"])
    try:
        check_repr(ctx, case, s)
    except ImplRaise as e:
        ctx.disagree("c19.reprtext", case, "%s raised %s" % (e.what, type(e.exc).__name__))


def eval_case(ctx, case):
    k = case.get("kind", "shape")
    if k == "shape":
        eval_shape_case(ctx, case)
    elif k == "nonfinite":
        eval_nonfinite(ctx, case)
    elif k == "gsd-variant":
        eval_gsd_variant(ctx, case)
    elif k == "mapkeys":
        eval_mapkeys(ctx, case)
    elif k == "mapping-constant":
        check_mapping_constant(ctx)


def run(ctx):
    rng = ctx.rng
    check_mapping_constant(ctx)
    per_class = ctx.budget(10, 100)
    for cls in CLS:
        for _ in range(per_class):
            case = make_shape_case(rng, ctx, cls)
            case["json_ints"] = [int(x) for x in rng.integers(0, 10 ** 6, size=40)]
            ctx.case(case)
            eval_case(ctx, case)
    ctx.case(KNOWN_WITNESS)
    eval_case(ctx, dict(KNOWN_WITNESS))
    for c in NONFINITE:
        case = dict(c, kind="nonfinite", nonfinite=True)
        ctx.case(case)
        eval_case(ctx, case)
    for _ in range(ctx.budget(1, 5)):
        for case in c19_dispatch_cases(rng):
            case["json_ints"] = [int(x) for x in rng.integers(0, 10 ** 6, size=40)]
            ctx.count("dispatch:" + case["info"]["place"])
            ctx.case(case)
            eval_case(ctx, case)
    for _ in range(ctx.budget(1, 8)):
        for case in gsd_variant_cases(rng, ctx):
            ctx.case(case)
            eval_case(ctx, case)
    pool = ["vertices", "centroid", "area", "volume", "inertia_tensor", "radius", "moment_inertia", "sweep_radius",
            "faces", "a", "b", "c", "diameter", "x"]
    for _ in range(ctx.budget(40, 600)):
        n = int(rng.integers(0, 8))
        keys = [pool[int(i)] for i in rng.integers(0, len(pool), size=n)]
        case = {"kind": "mapkeys", "items": [[k, float(i)] for i, k in enumerate(keys)]}
        ctx.case(case, nontrivial=n > 0)
        eval_case(ctx, case)


def replay(ctx, payload):
    case = payload.get("case", payload)
    if "request" in case:
        case = {k: v for k, v in case.items() if k != "request"}
    ctx.case(case)
    eval_case(ctx, case)
