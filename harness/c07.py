"""C07 — face, normal, neighbour and edge structure of polyhedra is consistent."""
import contextlib
from fractions import Fraction

import numpy as np
from scipy.spatial import ConvexHull

import gen
from common import L, ModelRaise, exc_kind, read_shuffled

RULE = ("convex vertex sets from gen.convex_solid (ellipsoid/lattice/zonotope/box/prism/antiprism/(di)pyramid/"
        "needle/plate/simplex; random rigid motion, offset <=10 diameters, scale 1e-3..1e3) in two vertex orders, "
        "exactly integral polytopes (lattice/zonotope/int-box/int-prism/int-pyramid/int-bipyramid/int-hull; exact-Q "
        "surface certificate), and the tabulated solids; for each: the "
        "ConvexPolyhedron, a relabelled Polyhedron with every face cycle randomly permuted/reversed (sort_faces), and "
        "a randomly fan-triangulated, randomly oriented Polyhedron (merge_faces); distinct = distinct vertex arrays; "
        "non-trivial = >=4 vertices in convex position")
ASSUMPTIONS = [
    "ground truth = facets of an independently called scipy ConvexHull, triangles merged when their unit normals "
    "differ by <1e-9 and offsets by <1e-9*size; inputs with adjacent facets in the band [1e-11,1e-7] are skipped "
    "(near-boundary); outward ccw cycles are built by the harness with its own in-plane basis",
    "for exactly integral inputs the supporting-facet / convex-ccw / triangulation clauses are decided exactly over "
    "Q by the Lean spec (Spec/Structure.lean); otherwise with tolerance 1e-9*size",
    "certificate-relative clauses: the driver evaluates over Q, on the implementation's own faces/simplices, the "
    "decidable certificates `surfaceCert` (integral inputs), `simplexCert` (all inputs: doubles are dyadic rationals) "
    "and `orientCert`; Lean proves that they imply the clauses of the property (`surface_cert_sound`, "
    "`sort_simplices_outward`, `poly_sort_faces_oriented`). COMPLETENESS of the face list (no further facet of the "
    "hull exists) is not proved: it is enforced by the Euler count of the certificate and the independent hull",
    "external results are parameters of the model: Qhull simplices/equations/neighbours, rowan.mapping.kabsch "
    "(contract R^T R=1, det R=1, R n=z within 1e-12, checked by the driver), the 2-D hull of _is_convex, "
    "scipy connected_components (contract checked by the driver against the model's own labelling)",
    "the per-simplex start permutation of _sort_simplices (a coordinate-dependent shuffle of each hull simplex) is a "
    "parameter of the model; simplices are compared up to rotation of each cycle",
]

TOL = 1e-9


# --------------------------------------------------------------------------- encoding helpers

def LF(faces):
    return L([L([int(i) for i in f]) for f in faces])


def LV(v):
    return L([np.asarray(x, dtype=float) for x in v])


def LE(eqs):
    return L([np.asarray(e, dtype=float) for e in eqs])


class Tok:
    """cursor over a driver reply"""

    def __init__(self, r):
        self.r = r
        self.i = 0

    def one(self):
        x = self.r[self.i]
        self.i += 1
        return x

    def ints(self):
        n = self.one()
        out = self.r[self.i:self.i + n]
        self.i += n
        return [int(x) for x in out]

    def faces(self):
        n = self.one()
        return [self.ints() for _ in range(n)]

    def pairs(self):
        n = self.one()
        out = [(int(self.r[self.i + 2 * k]), int(self.r[self.i + 2 * k + 1])) for k in range(n)]
        self.i += 2 * n
        return out

    def eqns(self):
        n = self.one()
        out = np.array(self.r[self.i:self.i + 4 * n], dtype=float).reshape(n, 4)
        self.i += 4 * n
        return out

    def floats(self, n):
        out = self.r[self.i:self.i + n]
        self.i += n
        return np.array(out, dtype=float)


def canon(f):
    f = [int(i) for i in f]
    k = f.index(min(f))
    return tuple(f[k:] + f[:k])


def kabsch(n):
    import rowan
    n = np.asarray(n, dtype=float)
    R, _ = rowan.mapping.kabsch([n, -n], [[0, 0, 1], [0, 0, -1]])
    return np.asarray(R, dtype=float)


def eqs_of(obj):
    """plane equations: public on ConvexPolyhedron, `_equations` (behind `.normals`) on Polyhedron"""
    return np.asarray(obj.equations if hasattr(obj, "equations") else obj._equations, dtype=float)


def first3_normal(pts):
    n = np.cross(pts[2] - pts[1], pts[0] - pts[1])
    return n / np.linalg.norm(n)


# --------------------------------------------------------------------------- independent ground truth

class Truth:
    """Facets of conv(v) from an independent ConvexHull call."""

    def __init__(self, v):
        self.v = v
        self.d = gen.diameter(v)
        self.Ls = self.d + float(np.linalg.norm(v.mean(axis=0)))
        h = ConvexHull(v)
        self.hull = h
        inner = v.mean(axis=0)
        groups = []
        self.boundary = False
        for simp, eq in zip(h.simplices, h.equations):
            eq = np.array(eq, dtype=float)
            if eq[:3] @ inner + eq[3] > 0:
                eq = -eq
            for g in groups:
                dn = float(np.max(np.abs(g["eq"][:3] - eq[:3])))
                dd = abs(g["eq"][3] - eq[3]) / self.Ls
                if dn < TOL and dd < TOL:
                    g["simps"].append([int(i) for i in simp])
                    break
            else:
                groups.append({"eq": eq, "simps": [[int(i) for i in simp]]})
        # near-boundary: two different groups that are neighbours and nearly coplanar
        for a in range(len(groups)):
            for b in range(a + 1, len(groups)):
                dn = float(np.max(np.abs(groups[a]["eq"][:3] - groups[b]["eq"][:3])))
                dd = abs(groups[a]["eq"][3] - groups[b]["eq"][3]) / self.Ls
                if max(dn, dd) < 1e-7:
                    self.boundary = True
        self.normals = [g["eq"][:3] / np.linalg.norm(g["eq"][:3]) for g in groups]
        self.sets = [frozenset(i for s in g["simps"] for i in s) for g in groups]
        self.simps = [g["simps"] for g in groups]
        # within-group spread in [1e-11, 1e-9): also near the merge threshold
        for g, simps in zip(groups, self.simps):
            for simp, eq in zip(h.simplices, h.equations):
                if [int(i) for i in simp] in simps:
                    e2 = np.array(eq) if eq[:3] @ g["eq"][:3] > 0 else -np.array(eq)
                    sp = max(float(np.max(np.abs(g["eq"][:3] - e2[:3]))), abs(g["eq"][3] - e2[3]) / self.Ls)
                    if sp >= 1e-11:
                        self.boundary = True
        self.cycles = []
        self.areas = []
        for n, vs, simps in zip(self.normals, self.sets, self.simps):
            ids = sorted(vs)
            pts = v[ids]
            c = pts.mean(axis=0)
            u = pts[0] - c
            u = u - (u @ n) * n
            u /= np.linalg.norm(u)
            w = np.cross(n, u)
            ang = np.arctan2((pts - c) @ w, (pts - c) @ u)
            order = np.argsort(ang, kind="stable")
            self.cycles.append([ids[k] for k in order])
            self.areas.append(float(sum(abs(np.dot(np.cross(v[s[1]] - v[s[0]], v[s[2]] - v[s[0]]), n)) / 2
                                        for s in simps)))
        # undirected hull edges: triangle edges that lie on the boundary of their facet
        self.edges = set()
        for simps in self.simps:
            cnt = {}
            for s in simps:
                for a, b in ((s[0], s[1]), (s[1], s[2]), (s[2], s[0])):
                    k = (min(a, b), max(a, b))
                    cnt[k] = cnt.get(k, 0) + 1
            for k, c_ in cnt.items():
                if c_ == 1:
                    self.edges.add(k)
        self.consistent = True
        cyc_edges = set()
        for cyc in self.cycles:
            for a, b in zip(cyc, cyc[1:] + cyc[:1]):
                cyc_edges.add((min(a, b), max(a, b)))
        if cyc_edges != self.edges or len(v) - len(self.edges) + len(self.sets) != 2:
            self.consistent = False

    def index_of(self, vs):
        vs = frozenset(int(i) for i in vs)
        for k, s in enumerate(self.sets):
            if s == vs:
                return k
        return None


@contextlib.contextmanager
def recording():
    """Record what the external libraries returned during a coxeter call (from the outside)."""
    import coxeter.shapes.convex_polyhedron as cpm
    import coxeter.shapes.polyhedron as pm
    rec = {"hull": [], "cc": [], "sort_entry": []}
    orig_hull = cpm.ConvexHull
    orig_cc = pm.connected_components
    orig_sort = pm.Polyhedron.sort_faces

    def hull_wrap(*a, **k):
        h = orig_hull(*a, **k)
        if h.points.shape[1] == 3:
            rec["hull"].append({"simplices": np.array(h.simplices), "equations": np.array(h.equations),
                                "neighbors": np.array(h.neighbors)})
        return h

    def cc_wrap(graph, *a, **k):
        out = orig_cc(graph, *a, **k)
        rec["cc"].append({"graph": np.array(graph), "labels": np.array(out[1])})
        return out

    def sort_wrap(self):
        rec["sort_entry"].append([[int(i) for i in f] for f in self._faces])
        return orig_sort(self)

    cpm.ConvexHull = hull_wrap
    pm.connected_components = cc_wrap
    pm.Polyhedron.sort_faces = sort_wrap
    try:
        yield rec
    finally:
        cpm.ConvexHull = orig_hull
        pm.connected_components = orig_cc
        pm.Polyhedron.sort_faces = orig_sort


# --------------------------------------------------------------------------- oracle pieces (C)

def check_structure(ctx, case, cls, v, faces, eqs, nbrs, edges, T, face_to_truth=None, prefix=None):
    """Faces/equations/neighbours/edges of a polyhedron object against the independent truth T.
    `faces[k]` is expected to be the facet `face_to_truth[k]` of T (None: match by vertex set)."""
    P = prefix or cls
    d, Ls = T.d, T.Ls
    sets = [frozenset(int(i) for i in f) for f in faces]
    if set(sets) != set(T.sets) or len(sets) != len(T.sets):
        ctx.fail(P + ".faces:not-hull-facets", "faces are not exactly the facets of the hull (as vertex sets)", case,
                 {"faces": len(sets), "facets": len(T.sets),
                  "extra": [sorted(s) for s in set(sets) - set(T.sets)][:3],
                  "missing": [sorted(s) for s in set(T.sets) - set(sets)][:3]})
        return False
    ok = True
    tmap = [T.index_of(s) for s in sets]
    if face_to_truth is not None and tmap != list(face_to_truth):
        ctx.fail(P + ".faces:order-changed", "the order of the faces in the list changed", case, [tmap, face_to_truth])
        ok = False
    for k, f in enumerate(faces):
        t = tmap[k]
        n = T.normals[t]
        f = [int(i) for i in f]
        pts = v[f]
        c = pts.mean(axis=0)
        area_vec = sum(np.cross(pts[i] - c, pts[(i + 1) % len(f)] - c) for i in range(len(f))) / 2
        corners = [np.dot(np.cross(pts[(i + 1) % len(f)] - pts[i], pts[(i + 2) % len(f)] - pts[(i + 1) % len(f)]), n)
                   for i in range(len(f))]
        pairs = set((min(a, b), max(a, b)) for a, b in zip(f, f[1:] + f[:1]))
        if not (area_vec @ n > 0 and min(corners) > 0 and pairs <= T.edges and canon(f) == canon(T.cycles[t])):
            ctx.fail(P + ".faces:not-ccw-outward",
                     "a face is not listed counter-clockwise as seen from outside along hull edges", case,
                     {"face": f, "expected_cycle": list(canon(T.cycles[t])), "area_dot_normal": float(area_vec @ n)})
            ok = False
            break
    # equations
    eqs = np.asarray(eqs, dtype=float)
    for k, f in enumerate(faces):
        n, dd = eqs[k][:3], eqs[k][3]
        t = tmap[k]
        on = np.abs(v[[int(i) for i in f]] @ n + dd)
        others = [i for i in range(len(v)) if i not in sets[k]]
        off = v[others] @ n + dd if others else np.array([-1.0])
        if not (abs(np.linalg.norm(n) - 1) <= TOL and np.max(on) <= TOL * Ls and np.max(off) < 0
                and np.max(np.abs(n - T.normals[t])) <= 1e-7):
            ctx.fail(P + ".equations:not-unit-outward-supporting",
                     "a plane equation is not the unit outward normal whose plane contains its face with all other "
                     "vertices strictly inside", case,
                     {"face": k, "norm": float(np.linalg.norm(n)), "max_on_plane": float(np.max(on)),
                      "max_other": float(np.max(off)), "eq": eqs[k].tolist(), "true_normal": T.normals[t].tolist()})
            ok = False
            break
    # neighbours
    nb = [sorted(int(j) for j in row) for row in nbrs]
    want = [sorted(j for j in range(len(faces)) if j != i and len(sets[i] & sets[j]) >= 2) for i in range(len(faces))]
    symmetric = all(i in nb[j] for i in range(len(nb)) for j in nb[i]) and all(len(set(r)) == len(r) for r in nb)
    if not symmetric:
        ctx.fail(P + ".neighbors:not-symmetric", "neighbour lists are not symmetric", case, nb[:6])
        ok = False
    elif nb != want:
        bad = [i for i in range(len(nb)) if nb[i] != want[i]][:3]
        ctx.fail(P + ".neighbors:not-edge-sharing", "neighbours are not exactly the faces sharing an edge", case,
                 {"faces": bad, "got": [nb[i] for i in bad], "want": [want[i] for i in bad]})
        ok = False
    # edges
    E = [(int(a), int(b)) for a, b in np.asarray(edges).reshape(-1, 2)]
    if not (all(a < b for a, b in E) and E == sorted(E) and len(set(E)) == len(E) and set(E) == T.edges):
        ctx.fail(P + ".edges:not-each-edge-once-sorted", "edges does not list every hull edge exactly once as (i<j), "
                 "lexicographically sorted", case,
                 {"n": len(E), "true_n": len(T.edges), "missing": sorted(T.edges - set(E))[:4],
                  "extra": sorted(set(E) - T.edges)[:4]})
        ok = False
    if len(v) - len(E) + len(faces) != 2:
        ctx.fail(P + ".edges:euler", "V - E + F != 2 with E = len(edges)", case, [len(v), len(E), len(faces)])
        ok = False
    return ok


def eval_convex(ctx, case, v, T, tag):
    """ConvexPolyhedron(v): B against the model on the recorded hull, C against T. Returns p or None."""
    import coxeter
    d, Ls = T.d, T.Ls
    try:
        with recording() as rec:
            p = coxeter.shapes.ConvexPolyhedron(v)
    except Exception as e:
        ctx.fail("ConvexPolyhedron.__init__:raises", "constructor raised %s on a set in convex position" % exc_kind(e),
                 case, repr(e))
        return None
    faces = [[int(i) for i in f] for f in p.faces]
    nf = len(faces)
    hull = rec["hull"][0] if rec["hull"] else None
    drv = ctx.driver

    # ------------------------------------------------------------ B: correspondence
    if hull is not None:
        r = Tok(drv.F("st.combine", LE(hull["equations"]), LF(hull["simplices"]), 2e-15))
        m_faces, m_groups, m_eqs = r.faces(), r.faces(), r.eqns()
        i_groups = [[int(i) for i in g] for g in p._coplanar_simplices]
        heads = [g[0] for g in m_groups]
        if len(set(heads)) != len(heads):
            ctx.skipped_near_boundary += 1  # non-transitive tolerance classes: Python's set order decides
        else:
            if m_groups != i_groups:
                ctx.disagree("st.combine:groups", case, [m_groups[:4], i_groups[:4]])
            if m_faces != [sorted(f) for f in faces]:
                ctx.disagree("st.combine:faces", case, [m_faces[:4], [sorted(f) for f in faces][:4]])
            if not (m_eqs.shape == np.asarray(p.equations).shape and np.array_equal(m_eqs, np.asarray(p.equations))):
                ctx.disagree("st.combine:equations", case, [m_eqs[:2].tolist(), np.asarray(p.equations)[:2].tolist()])
            # angular sort of every face
            for k in range(nf):
                n = np.asarray(p.equations)[k][:3]
                R = kabsch(n)
                fs = sorted(faces[k])
                r = Tok(drv.F("st.cp_sort_face", LV(v), L(fs), R.ravel(), n, 1e-12))
                m_face = r.faces()[0]
                if not r.one():
                    ctx.contract_failures.append({"contract": "kabsch rotation", "normal": n.tolist(), "R": R.tolist()})
                    continue
                # decision margin: gaps between the relative angles
                pts = (v[fs] - v[fs].mean(axis=0)) @ R.T
                ang = np.mod(np.arctan2(pts[:, 1], pts[:, 0]) - np.arctan2(pts[0, 1], pts[0, 0]), 2 * np.pi)
                srt = np.sort(ang)
                gap = min(float(np.min(np.diff(srt))) if len(srt) > 1 else 1.0, float(2 * np.pi - srt[-1]))
                if gap < 1e-7:
                    ctx.skipped_near_boundary += 1
                elif m_face != faces[k]:
                    ctx.disagree("st.cp_sort_face", case, [k, m_face, faces[k]])
        # simplices: model started from Qhull's own simplices (start permutation = parameter)
        r = Tok(drv.F("st.sort_simplices", LV(v), LF(hull["simplices"]), LF(hull["neighbors"])))
        m_simp = [canon(s) for s in r.faces()]
        i_simp = [canon(s) for s in p.simplices]
        if m_simp != i_simp:
            ctx.disagree("st.sort_simplices", case, [m_simp[:4], i_simp[:4]])
        check_simplex_cert(ctx, case, v, hull, [[int(i) for i in s_] for s_ in p.simplices])
        # hypotheses of `propagation_orients_all` on this instance: the traversal empties its stack
        # within the fuel and reaches every simplex / face (connected neighbour graph)
        for what, FF, NN in (("hull simplices", hull["simplices"], hull["neighbors"]), ("faces", faces, p.neighbors)):
            r = Tok(drv.F("st.propagate", LF(FF), LF(NN)))
            r.faces()
            visited = set(r.faces()[0])
            if not (r.one() and visited == set(range(len(FF)))):
                ctx.contract_failures.append({"contract": "traversal reaches every face with an empty stack",
                                              "on": what, "visited": len(visited), "n": len(FF)})
    try:
        r = Tok(drv.F("st.neighbors", LF(faces)))
        m_nb = r.faces()
        if m_nb != [[int(j) for j in row] for row in p.neighbors]:
            ctx.disagree("st.neighbors", case, [m_nb[:3], [[int(j) for j in row] for row in p.neighbors][:3]])
        # _get_face_intersections: (i, j, shared edge); the direction of the edge is unspecified in Python
        nint = r.one()
        m_int = [tuple(int(x) for x in r.r[r.i + 4 * k:r.i + 4 * k + 4]) for k in range(nint)]
        i_int = [(int(i), int(j), min(int(e[0]), int(e[1])), max(int(e[0]), int(e[1])))
                 for i, j, e in p._get_face_intersections()]
        if m_int != i_int:
            ctx.disagree("st.neighbors:intersections", case, [m_int[:4], i_int[:4]])
    except ModelRaise as e:
        ctx.disagree("st.neighbors", case, "model raised " + e.kind)
    r = Tok(drv.F("st.edges", LF(faces), len(v)))
    m_edges, m_ne, m_nec = r.pairs(), r.one(), r.one()
    i_edges = [(int(a), int(b)) for a, b in p.edges]
    import coxeter.shapes.polyhedron as pm
    if m_edges != i_edges:
        ctx.disagree("st.edges", case, [m_edges[:5], i_edges[:5]])
    if m_ne != pm.Polyhedron.num_edges.fget(p):
        ctx.disagree("st.edges:num_edges", case, [m_ne, pm.Polyhedron.num_edges.fget(p)])
    if m_nec != p.num_edges:
        ctx.disagree("st.edges:num_edges_convex", case, [m_nec, p.num_edges])
    r = Tok(drv.F("st.edge_vectors", LV(v), LF(faces)))
    ne = r.one()
    m_ev = r.floats(3 * ne).reshape(ne, 3)
    m_el = r.floats(ne)
    if not (ctx.close_enough(m_ev, np.asarray(p.edge_vectors), d) and ctx.close_enough(m_el, np.asarray(p.edge_lengths), d)):
        ctx.disagree("st.edge_vectors", case, [m_ev[:2].tolist(), np.asarray(p.edge_vectors)[:2].tolist()])
    # Polyhedron._find_equations on the same faces
    try:
        q = coxeter.shapes.Polyhedron(v, [np.array(f) for f in faces])
        m_eq = Tok(drv.F("st.equations", LV(v), LF(faces))).eqns()
        scale = np.array([1, 1, 1, Ls])
        if not ctx.close_enough(m_eq / scale, eqs_of(q) / scale, 1.0):
            ctx.disagree("st.equations", case, [m_eq[:2].tolist(), eqs_of(q)[:2].tolist()])
    except Exception as e:
        ctx.fail("Polyhedron.__init__:raises", "Polyhedron(vertices, faces of a ConvexPolyhedron) raised", case, repr(e))
        q = None
    # dihedral: a few neighbouring pairs and one non-neighbouring pair
    sub = np.random.default_rng(case["sub"])
    pairs = []
    for _ in range(4):
        a = int(sub.integers(nf))
        nb = [int(j) for j in p.neighbors[a]]
        if nb:
            pairs.append((a, nb[int(sub.integers(len(nb)))]))
    non = [(a, b) for a in range(min(nf, 6)) for b in range(nf) if b != a and b not in p.neighbors[a]]
    if non:
        pairs.append(non[int(sub.integers(len(non)))])
    for a, b in pairs:
        try:
            got = ("ok", float(p.get_dihedral(a, b)))
        except Exception as e:
            got = ("E", exc_kind(e))
        try:
            mod = ("ok", drv.F("st.dihedral", LF(p.neighbors), LV(np.asarray(p.equations)[:, :3]), a, b)[0])
        except ModelRaise as e:
            mod = ("E", e.kind)
        if got[0] != mod[0] or (got[0] == "E" and got[1] != mod[1]):
            ctx.disagree("st.dihedral:raise", case, [a, b, got, mod])
        elif got[0] == "ok":
            # arccos is ill conditioned at 0 and pi: compare through the cosine
            if not ctx.close_enough(np.cos(got[1]), np.cos(mod[1]), 1.0):
                ctx.disagree("st.dihedral", case, [a, b, got, mod])

    # _find_simplex_equations (recomputed by _sort_simplices from the oriented simplices)
    m_seq = Tok(drv.F("st.simplex_equations", LV(v), LF(p.simplices))).eqns()
    scale4 = np.array([1, 1, 1, Ls])
    i_seq = np.asarray(p._simplex_equations, dtype=float)
    if not (m_seq.shape == i_seq.shape and ctx.close_enough(m_seq / scale4, i_seq / scale4, 1.0)):
        ctx.disagree("st.simplex_equations", case, [m_seq[:2].tolist(), i_seq[:2].tolist()])
    # ConvexPolyhedron._find_equations (what the centroid setter calls): same model as Polyhedron._find_equations,
    # and the recomputed planes must still be the outward supporting planes the constructor stored
    try:
        p3 = coxeter.shapes.ConvexPolyhedron(v)
        eq_before = np.array(p3.equations, dtype=float)
        p3._find_equations()
        eq_after = np.array(p3.equations, dtype=float)
        m_eq3 = Tok(drv.F("st.equations", LV(v), LF(p3.faces))).eqns()
        if not ctx.close_enough(m_eq3 / scale4, eq_after / scale4, 1.0):
            ctx.disagree("st.equations:convex", case, [m_eq3[:2].tolist(), eq_after[:2].tolist()])
        if not np.allclose(eq_before / scale4, eq_after / scale4, rtol=0, atol=1e-7):
            ctx.fail("ConvexPolyhedron._find_equations:not-the-outward-supporting-planes",
                     "equations recomputed from the sorted faces differ from the outward hull equations", case,
                     {"max_diff": float(np.max(np.abs(eq_before / scale4 - eq_after / scale4)))})
    except Exception as e:
        ctx.fail("ConvexPolyhedron._find_equations:raises", "recomputing the equations raised", case, repr(e))
    # get_dihedral with Python index semantics (negative / out-of-range a, negative b)
    nb0 = [int(j) for j in p.neighbors[0]]
    nbl = [int(j) for j in p.neighbors[nf - 1]]
    for a, b in ((-1, nbl[0] if nbl else 0), (-nf, nb0[0] if nb0 else 0), (-nf - 1, 0), (nf, 0), (0, -1),
                 (int(sub.integers(-nf, nf)), int(sub.integers(-2, nf)))):
        try:
            got = ("ok", float(p.get_dihedral(a, b)))
        except Exception as e:
            got = ("E", exc_kind(e))
        try:
            mod = ("ok", drv.F("st.dihedral_py", LF(p.neighbors), LV(np.asarray(p.equations)[:, :3]), a, b)[0])
        except ModelRaise as e:
            mod = ("E", e.kind)
        if got[0] != mod[0] or (got[0] == "E" and got[1] != mod[1]) or \
                (got[0] == "ok" and not ctx.close_enough(np.cos(got[1]), np.cos(mod[1]), 1.0)):
            ctx.disagree("st.dihedral_py", case, [a, b, got, mod])
        # C: Python's index convention - face -k IS face F-k
        if -nf <= a < 0:
            try:
                ref = ("ok", float(p.get_dihedral(nf + a, b)))
            except Exception as e:
                ref = ("E", exc_kind(e))
            if got[0] != ref[0] or (got[0] == "E" and got[1] != ref[1]) or \
                    (got[0] == "ok" and abs(np.cos(got[1]) - np.cos(ref[1])) > 1e-9):
                ctx.fail("Polyhedron.get_dihedral:negative-index",
                         "get_dihedral(a, b) with a negative face index differs from get_dihedral(F + a, b)", case,
                         {"a": a, "b": b, "got": got, "expected": ref})

    # ------------------------------------------------------------ C: property oracle
    cls = "ConvexPolyhedron"
    co = drv.F("spec.closed_oriented", LF(faces))
    if not all(co):
        ctx.fail(cls + ".faces:not-closed-oriented", "the face cycles are not a closed oriented surface (a directed "
                 "edge occurs twice, lacks its reverse partner, or is a loop)", case, co)
    ok = check_structure(ctx, case, cls, v, faces, p.equations, p.neighbors, p.edges, T)
    if p.num_edges != len(p.edges) or pm.Polyhedron.num_edges.fget(p) != len(p.edges):
        ctx.fail(cls + ".num_edges:disagrees-with-edges", "num_edges differs from len(edges)", case,
                 [int(p.num_edges), len(p.edges)])
    E = np.asarray(p.edges)
    if not (ctx.close_enough(np.asarray(p.edge_vectors), v[E[:, 1]] - v[E[:, 0]], d)
            and ctx.close_enough(np.asarray(p.edge_lengths), np.linalg.norm(v[E[:, 1]] - v[E[:, 0]], axis=1), d)):
        ctx.fail(cls + ".edge_vectors:inconsistent", "edge_vectors / edge_lengths are not v[j]-v[i] of edges", case, None)
    if ok:
        check_simplices(ctx, case, v, p, T)
        check_dihedral(ctx, case, v, p, T, faces)
        if case.get("exact"):
            check_exact(ctx, case, v, p, faces)
    return p


def check_simplices(ctx, case, v, p, T):
    """the simplices triangulate the faces: each inside one face (the one `_coplanar_simplices` says),
    outward oriented, areas add up to the facet area; together they enclose the hull volume"""
    d, Ls = T.d, T.Ls
    simp = [[int(i) for i in s] for s in p.simplices]
    sets = [frozenset(int(i) for i in f) for f in p.faces]
    tot = [0.0] * len(sets)
    seen = [0] * len(simp)
    bad = None
    for k, group in enumerate(p._coplanar_simplices):
        t = T.index_of(sets[k])
        n = T.normals[t]
        for si in group:
            s = simp[int(si)]
            seen[int(si)] += 1
            a, b, c = v[s]
            cr = np.cross(b - a, c - a) / 2
            if not (set(s) <= sets[k] and len(set(s)) == 3 and cr @ n > 0):
                bad = {"simplex": s, "face": k, "orient": float(cr @ n)}
            tot[k] += float(cr @ n)
        if not ctx.close_enough(tot[k], T.areas[t], d * d):
            bad = bad or {"face": k, "area_sum": tot[k], "facet_area": T.areas[t]}
    if any(c != 1 for c in seen):
        bad = bad or {"simplices_not_partitioned": seen[:10]}
    vol = sum(np.linalg.det(v[s]) for s in simp) / 6
    if not ctx.close_enough(vol, T.hull.volume + 0.0, Ls ** 3) or vol <= 0:
        bad = bad or {"signed_volume": float(vol), "hull_volume": float(T.hull.volume)}
    if bad:
        ctx.fail("ConvexPolyhedron.simplices:not-a-triangulation-of-faces",
                 "the simplices do not triangulate the faces (containment / outward orientation / area sum)", case, bad)


def check_dihedral(ctx, case, v, p, T, faces):
    """get_dihedral(a, b) against the interior angle measured in the plane orthogonal to the shared edge"""
    sub = np.random.default_rng(case["sub"] + 1)
    nf = len(faces)
    for _ in range(6):
        a = int(sub.integers(nf))
        nb = [int(j) for j in p.neighbors[a]]
        if not nb:
            continue
        b = nb[int(sub.integers(len(nb)))]
        sh = sorted(set(faces[a]) & set(faces[b]))
        if len(sh) != 2:
            continue
        e = v[sh[1]] - v[sh[0]]
        e /= np.linalg.norm(e)
        mid = (v[sh[0]] + v[sh[1]]) / 2

        def inplane(f):
            w = v[f].mean(axis=0) - mid
            w = w - (w @ e) * e
            return w / np.linalg.norm(w)

        cos_true = float(inplane(faces[a]) @ inplane(faces[b]))
        try:
            got = float(p.get_dihedral(a, b))
        except Exception as ex:
            ctx.fail("Polyhedron.get_dihedral:raises", "get_dihedral raised for neighbouring faces", case, repr(ex))
            return
        if not (0 <= got <= np.pi and abs(np.cos(got) - cos_true) <= 1e-7):
            ctx.fail("Polyhedron.get_dihedral:value", "get_dihedral differs from the interior angle at the shared edge",
                     case, {"faces": [a, b], "got": got, "true": float(np.arccos(np.clip(cos_true, -1, 1)))})
            return


CERT_SURFACE = ["surfaceCert", "closed-oriented", "faces-well-formed", "supporting-facets", "convex-ccw-cycles",
                "every-vertex-used", "euler"]


def check_surface_cert(ctx, case, v, faces, prefix):
    """the decidable certificate of `surface_cert_sound`, evaluated exactly over Q on the implementation's faces"""
    r = ctx.driver.Q("cert.surface", LV(v), LF(faces))
    ctx.count("surface-certificates")
    if not all(r):
        ctx.fail(prefix + ".faces:exact-certificate",
                 "the exact surface certificate (closed oriented 2-manifold of supporting facets listed "
                 "counter-clockwise, every vertex used, V-E+F=2) fails on the implementation's faces", case,
                 {"failed": [n for n, b in zip(CERT_SURFACE, r) if not b]})
        return False
    return True


def check_simplex_cert(ctx, case, v, hull, simplices):
    """the decidable certificate of `sort_simplices_outward` (exact over Q for every input: doubles are dyadic):
    the implementation's simplices, rotated back onto Qhull's, are the closed oriented OUTWARD orientation"""
    G = []
    for s0, s1 in zip(hull["simplices"], simplices):
        s0 = [int(i) for i in s0]
        s1 = [int(i) for i in s1]
        rots = [s1[k:] + s1[:k] for k in range(3)]
        cand = [r for r in rots if r == s0 or r == s0[::-1]]
        if not cand:
            ctx.fail("ConvexPolyhedron.simplices:exact-certificate", "a simplex is not a permutation of Qhull's simplex",
                     case, {"qhull": s0, "simplex": s1})
            return
        G.append(cand[0])
    r = ctx.driver.Q("cert.simplices", LV(v), LF(hull["simplices"]), LF(hull["neighbors"]), LF(G))
    ctx.count("simplex-certificates")
    names = ["simplexCert", "same-up-to-reversal", "closed-oriented", "neighbours-share-edge", "connected",
             "outward-from-mean", "model-output-equals"]
    if not all(r[:6]):
        ctx.fail("ConvexPolyhedron.simplices:exact-certificate",
                 "the exact simplex certificate (closed oriented triangulated surface, every triangle counter-clockwise "
                 "seen from outside) fails on the implementation's simplices", case,
                 {"failed": [n for n, b in zip(names, r) if not b]})
    elif not r[6]:
        # certificate holds but the model (exact Q run) returned something else: contradicts `sort_simplices_outward`
        ctx.disagree("cert.simplices:theorem-contradicted", case, r)


def check_exact(ctx, case, v, p, faces):
    """exact certificate over Q (Lean spec) for integral inputs"""
    drv = ctx.driver
    if not check_surface_cert(ctx, case, v, faces, "ConvexPolyhedron"):
        return
    tot = [Fraction(0)] * 3
    for k, f in enumerate(faces):
        r = drv.Q("spec.facet", LV(v), L(f))
        sup, ccw, av = r[0], r[1], r[2:5]
        if not (sup and ccw):
            ctx.fail("ConvexPolyhedron.faces:exact-certificate",
                     "exact certificate failed: a face is not a supporting facet of the point set listed "
                     "counter-clockwise about its outward normal", case, {"face": f, "supporting": sup, "ccw": ccw})
            return
        tot = [a + b for a, b in zip(tot, av)]
        sv = [Fraction(0)] * 3
        for si in p._coplanar_simplices[k]:
            s = [int(i) for i in p.simplices[int(si)]]
            a = drv.Q("spec.facet", LV(v), L(s))[2:5]
            if sum(x * y for x, y in zip(a, av)) <= 0:
                ctx.fail("ConvexPolyhedron.simplices:exact-certificate", "a simplex is not oriented like its face",
                         case, {"simplex": s, "face": f})
                return
            sv = [x + y for x, y in zip(sv, a)]
        if sv != list(av):
            ctx.fail("ConvexPolyhedron.simplices:exact-certificate",
                     "vector areas of the simplices of a face do not add up to the face's vector area (exactly)",
                     case, {"face": f})
            return
    if any(t != 0 for t in tot):
        ctx.fail("ConvexPolyhedron.faces:exact-certificate", "face vector areas do not sum to zero (surface not closed)",
                 case, [str(t) for t in tot])
    ctx.count("exact-certificates")


# --------------------------------------------------------------------------- Polyhedron.sort_faces

def scramble_faces(sub, cycles, inv):
    out = []
    modes = []
    for f in cycles:
        g = [int(inv[i]) for i in f]
        m = int(sub.integers(4))
        if m == 0:
            g = [g[i] for i in sub.permutation(len(g))]
        elif m == 1:
            g = g[::-1]
        elif m == 2:
            k = int(sub.integers(len(g)))
            g = g[k:] + g[:k]
            if sub.random() < 0.5:
                g = g[::-1]
        modes.append(m)
        out.append(g)
    return out, modes


def model_sort_faces(ctx, v2, faces_in):
    """run the model of Polyhedron.sort_faces; returns ('ok', faces, eqs, nbrs) or ('E', kind)"""
    Rs = []
    for f in faces_in:
        pts = v2[f]
        Rs.append(kabsch(first3_normal(pts)).ravel())
    try:
        r = Tok(ctx.driver.F("st.poly_sort_faces", 1, LV(v2), LF(faces_in), L(Rs), L([1] * len(faces_in))))
        return ("ok", r.faces(), r.eqns(), r.faces())
    except ModelRaise as e:
        return ("E", e.kind)


def observe(q, key):
    """read every structural observable of a Polyhedron in an order drawn from `key` (common.read_shuffled):
    an answer must not depend on what was asked before - in particular not on a cache filled by an earlier read"""
    def guard(f):
        def g():
            try:
                return f()
            except Exception as e:  # garbage faces before sort_faces may legitimately raise
                return ("E", exc_kind(e))
        return g
    getters = {
        "edges": guard(lambda: np.array(q.edges)),
        "num_edges": guard(lambda: int(q.num_edges)),
        "edge_vectors": guard(lambda: np.array(q.edge_vectors)),
        "edge_lengths": guard(lambda: np.array(q.edge_lengths)),
        "neighbors": guard(lambda: [[int(j) for j in row] for row in q.neighbors]),
        "normals": guard(lambda: np.array(q.normals)),
        "equations": guard(lambda: np.array(eqs_of(q))),
        "faces": guard(lambda: [[int(i) for i in f] for f in q.faces]),
    }
    return read_shuffled(getters, key)


def check_observed(ctx, case, v, obs, order, prefix, drv):
    """after the LAST step of a history: the edge observables describe the faces as they are NOW (exact), agree with
    one another, and equal the (cache-free) model `edges(faces_now)` - theorem `edges_cache_coherent`"""
    bad = [k for k, x in obs.items() if isinstance(x, tuple) and len(x) == 2 and x[0] == "E"]
    if bad:
        ctx.fail(prefix + ":raises", "reading a structural observable raised after the faces were sorted", case,
                 {"observables": bad, "order": order})
        return False
    faces = obs["faces"]
    E = [(int(a), int(b)) for a, b in np.asarray(obs["edges"]).reshape(-1, 2)]
    want = sorted(set((min(a, b), max(a, b)) for f in faces for a, b in zip(f, f[1:] + f[:1])))
    ok = True
    if E != want:
        ctx.fail(prefix + ".edges:not-each-edge-once-sorted",
                 "edges is not the sorted list of the edges of the CURRENT faces, each once as (i<j) "
                 "(stale after an earlier read?)", case,
                 {"n": len(E), "want_n": len(want), "order": order, "history": case.get("_history")})
        ok = False
    if len(v) - len(E) + len(faces) != 2:
        ctx.fail(prefix + ".edges:euler", "V - E + F != 2 with E = len(edges)", case,
                 {"VEF": [len(v), len(E), len(faces)], "order": order, "history": case.get("_history")})
        ok = False
    if obs["num_edges"] != len(E) or obs["num_edges"] != len(want):
        ctx.fail(prefix + ".num_edges:disagrees-with-edges", "num_edges differs from the number of edges of the faces",
                 case, {"num_edges": obs["num_edges"], "len_edges": len(E), "true": len(want), "order": order})
        ok = False
    if E:
        Ea = np.array(E)
        ev, el = np.asarray(obs["edge_vectors"]), np.asarray(obs["edge_lengths"])
        d = gen.diameter(v)
        exp = v[np.array(want)[:, 1]] - v[np.array(want)[:, 0]] if want else np.zeros((0, 3))
        if not (ev.shape == exp.shape and ctx.close_enough(ev, exp, d)
                and ctx.close_enough(el, np.linalg.norm(exp, axis=1), d)):
            ctx.fail(prefix + ".edge_vectors:inconsistent",
                     "edge_vectors / edge_lengths are not v[j]-v[i] over the edges of the current faces", case,
                     {"order": order, "history": case.get("_history")})
            ok = False
    if not np.array_equal(np.asarray(obs["normals"]), np.asarray(obs["equations"])[:, :3]):
        ctx.fail(prefix + ".normals:not-the-equations", "normals differ from equations[:, :3]", case, {"order": order})
        ok = False
    # B: the model has no cache - `edges` is a function of the faces as they are now
    r = Tok(drv.F("st.edges", LF(faces), len(v)))
    m_edges, m_ne = r.pairs(), r.one()
    if m_edges != E or m_ne != obs["num_edges"]:
        ctx.disagree("st.edges:after-history", case, [m_edges[:5], E[:5], m_ne, obs["num_edges"], order])
    return ok


def check_orient_cert(ctx, case, v2, faces_in, faces_out, prefix):
    """hypothesis of `poly_sort_faces_oriented` on this instance: the implementation's faces keep or reverse every
    re-ordered face (the model's `polyReorderFace`), are a closed oriented surface, and the neighbour graph is
    connected"""
    re = []
    for f in faces_in:
        R = kabsch(first3_normal(v2[f])).ravel()
        try:
            re.append(Tok(ctx.driver.F("st.poly_reorder_face", LV(v2), L(f), R, 1)).faces()[0])
        except ModelRaise as e:
            ctx.disagree("st.poly_reorder_face:raise", case, e.kind)
            return
    r = ctx.driver.F("cert.orient", LF(re), LF(faces_out))
    ctx.count("orient-certificates")
    if not all(r):
        names = ["orientCert", "same-up-to-reversal", "closed-oriented", "connected"]
        ctx.fail(prefix + ".faces:orientation-certificate",
                 "the faces are not a closed oriented surface obtained by keeping / reversing each (cyclically "
                 "re-ordered) input face over a connected neighbour graph", case,
                 {"failed": [n for n, b in zip(names, r) if not b]})


def angular_margin_ok(v2, faces_in):
    """decision margin of the per-face angular sort (ties would be resolved by rounding)"""
    for f in faces_in:
        pts = v2[f]
        R = kabsch(first3_normal(pts))
        w = (pts - pts.mean(axis=0)) @ R.T
        ang = np.mod(np.arctan2(w[:, 1], w[:, 0]) - np.arctan2(w[0, 1], w[0, 0]), 2 * np.pi)
        srt = np.sort(ang)
        if min(float(np.min(np.diff(srt))), float(2 * np.pi - srt[-1])) < 1e-7:
            return False
    return True


def eval_sort_faces(ctx, case, v, T):
    import coxeter
    sub = np.random.default_rng(case["sub"] + 2)
    n = len(v)
    perm = sub.permutation(n)
    inv = np.argsort(perm)
    v2 = v[perm]
    T2 = relabel(T, v2, inv)
    faces_in, modes = scramble_faces(sub, T.cycles, inv)
    for m in modes:
        ctx.count("sort_faces:face-" + ["permuted", "reversed", "rotated", "kept"][m])
    hist = ["construct,sort,read", "construct,read,sort,read", "construct,read,sort,read"][int(sub.integers(3))]
    ctx.count("history:sort:" + hist)
    try:
        q = coxeter.shapes.Polyhedron(v2, [np.array(f) for f in faces_in], faces_are_convex=True)
        pre = None
        if hist == "construct,read,sort,read":
            # answers on garbage faces are not judged against the property, only their side effects
            pre = observe(q, [case["sub"], "before-sort"])[0]
        q.sort_faces()
    except Exception as e:
        ctx.fail("Polyhedron.sort_faces:raises", "sort_faces raised %s on convex faces of a convex polyhedron"
                 % exc_kind(e), case, repr(e))
        got = ("E", exc_kind(e))
        q = None
    # B: `faces_are_convex` of the constructor (None -> all faces are triangles) and the guard of sort_faces
    for given in (-1, 0, 1):
        flag_impl = bool(coxeter.shapes.Polyhedron(v2, [np.array(f) for f in faces_in],
                                                   faces_are_convex=[None, False, True][given + 1])._faces_are_convex)
        flag_mod = bool(ctx.driver.F("st.init_convex_flag", given, LF(faces_in))[0])
        if flag_impl != flag_mod:
            ctx.disagree("st.init_convex_flag", case, [given, flag_impl, flag_mod])
    if any(len(f) > 3 for f in faces_in):
        try:
            coxeter.shapes.Polyhedron(v2, [np.array(f) for f in faces_in]).sort_faces()
            g_impl = "ok"
        except Exception as e:
            g_impl = exc_kind(e)
        try:
            flag = int(ctx.driver.F("st.init_convex_flag", -1, LF(faces_in))[0])
            ctx.driver.F("st.poly_sort_faces", flag, LV(v2), LF(faces_in), L([]), L([]))
            g_mod = "ok"
        except ModelRaise as e:
            g_mod = e.kind
        if g_impl != g_mod:
            ctx.disagree("st.poly_sort_faces:convex-guard", case, [g_impl, g_mod])
    # B
    if angular_margin_ok(v2, faces_in):
        mod = model_sort_faces(ctx, v2, faces_in)
        if q is None:
            if mod[0] != "E" or mod[1] != got[1]:
                ctx.disagree("st.poly_sort_faces:raise", case, [got, mod[:2]])
        elif mod[0] == "E":
            ctx.disagree("st.poly_sort_faces:raise", case, ["ok", mod])
        else:
            i_faces = [[int(i) for i in f] for f in q.faces]
            scale = np.array([1, 1, 1, T.Ls])
            if mod[1] != i_faces:
                ctx.disagree("st.poly_sort_faces:faces", case, [mod[1][:4], i_faces[:4]])
            elif not ctx.close_enough(mod[2] / scale, eqs_of(q) / scale, 1.0):
                ctx.disagree("st.poly_sort_faces:equations", case, [mod[2][:2].tolist(), eqs_of(q)[:2].tolist()])
            elif mod[3] != [[int(j) for j in row] for row in q.neighbors]:
                ctx.disagree("st.poly_sort_faces:neighbors", case, [mod[3][:3]])
        if q is not None:
            check_orient_cert(ctx, case, v2, faces_in, [[int(i) for i in f] for f in q.faces],
                              "Polyhedron.sort_faces")
    else:
        ctx.skipped_near_boundary += 1
    # C
    if q is not None:
        case["_history"] = hist
        obs, order = observe(q, [case["sub"], "after-sort"])
        ok_obs = check_observed(ctx, case, v2, obs, order, "Polyhedron.sort_faces", ctx.driver)
        if pre is not None and not isinstance(pre["edges"], tuple) and not isinstance(obs["edges"], tuple):
            # B: the cache state machine of the model (`EdgeCache`, theorem `edges_cache_coherent`) on this history
            r = Tok(ctx.driver.F("st.edge_history", LF(faces_in), L([0, [1, LF(obs["faces"])], 0])))
            nreads = r.one()
            reads = [r.pairs() for _ in range(nreads)]
            impl = [[(int(a), int(b)) for a, b in np.asarray(x).reshape(-1, 2)] for x in (pre["edges"], obs["edges"])]
            if reads != impl:
                ctx.disagree("st.edge_history", case, [[len(x) for x in reads], [len(x) for x in impl], hist])
        ok = ok_obs and check_structure(ctx, case, "Polyhedron", v2, obs["faces"], obs["equations"], obs["neighbors"],
                                        obs["edges"], T2, face_to_truth=list(range(len(T2.sets))),
                                        prefix="Polyhedron.sort_faces")
        case.pop("_history", None)
        if ok and case.get("exact"):
            check_surface_cert(ctx, case, v2, [[int(i) for i in f] for f in q.faces], "Polyhedron.sort_faces")


class Relabelled:
    pass


def relabel(T, v2, inv):
    """the truth T expressed in new vertex labels (old i -> inv[i])"""
    R = Relabelled()
    R.v = v2
    R.d, R.Ls = T.d, T.Ls
    R.normals = T.normals
    R.areas = T.areas
    R.hull = T.hull
    R.sets = [frozenset(int(inv[i]) for i in s) for s in T.sets]
    R.cycles = [[int(inv[i]) for i in c] for c in T.cycles]
    R.edges = set((min(int(inv[a]), int(inv[b])), max(int(inv[a]), int(inv[b]))) for a, b in T.edges)
    R.index_of = lambda vs: next((k for k, s in enumerate(R.sets) if s == frozenset(int(i) for i in vs)), None)
    return R


# --------------------------------------------------------------------------- merge_faces

def eval_merge_faces(ctx, case, v, T):
    import coxeter
    sub = np.random.default_rng(case["sub"] + 3)
    # the default tolerances (atol 1e-8, rtol 1e-5 on unit normals and offsets) must separate the facets
    atol, rtol = 1e-8, 1e-5
    for a in range(len(T.sets)):
        for b in range(a + 1, len(T.sets)):
            if len(T.sets[a] & T.sets[b]) >= 2:
                if np.max(np.abs(T.normals[a] - T.normals[b])) < 1e-3:
                    ctx.skipped_near_boundary += 1
                    return
    tris = []
    for cyc in T.cycles:
        k = int(sub.integers(len(cyc)))
        c = cyc[k:] + cyc[:k]
        for i in range(1, len(c) - 1):
            t = [c[0], c[i], c[i + 1]]
            r = int(sub.integers(3))
            t = t[r:] + t[:r]
            if sub.random() < 0.4:
                t = t[::-1]
            tris.append(t)
    order = sub.permutation(len(tris))
    tris = [tris[i] for i in order]
    hist = ["construct,merge,read", "construct,read,merge,read", "construct,read,sort,read,merge,read",
            "construct,read,sort,read,merge,read"][int(sub.integers(4))]
    ctx.count("history:merge:" + hist)
    case["_history"] = hist
    try:
        q = coxeter.shapes.Polyhedron(v, [np.array(t) for t in tris])
        if "construct,read" in hist:
            observe(q, [case["sub"], "before-anything"])  # fills every cache on the unsorted triangles
        if ",sort," in hist:
            q.sort_faces()
            obs, order = observe(q, [case["sub"], "after-sort-before-merge"])
            check_observed(ctx, case, v, obs, order, "Polyhedron.sort_faces", ctx.driver)
        tris = [[int(i) for i in f] for f in q.faces]
        eq0 = np.array(eqs_of(q))
        nb0 = [[int(j) for j in row] for row in q.neighbors]
        with recording() as rec:
            q.merge_faces(atol=atol, rtol=rtol)
    except Exception as e:
        case.pop("_history", None)
        ctx.fail("Polyhedron.merge_faces:raises", "merge_faces raised %s on a triangulated convex surface"
                 % exc_kind(e), case, repr(e))
        return
    # B
    if rec["cc"] and rec["sort_entry"]:
        labels = [int(l) for l in rec["cc"][0]["labels"]]
        g_impl = sorted((int(i), int(j)) for i, j in zip(*np.nonzero(rec["cc"][0]["graph"])))
        r = Tok(ctx.driver.F("st.merge_graph", LE(eq0), LF(nb0), atol, rtol, L(labels), LF(tris)))
        g_mod, contract, merged = r.pairs(), r.one(), r.faces()
        contract = contract and r.one()  # labelsContract and labelsCert (hypothesis of `merge_faces_components`)
        if sorted(g_mod) != g_impl:
            ctx.disagree("st.merge_graph", case, [sorted(g_mod)[:6], g_impl[:6]])
        elif not contract:
            ctx.contract_failures.append({"contract": "connected_components labels", "labels": labels[:20]})
        else:
            entry = rec["sort_entry"][0]
            if merged != [sorted(f) for f in entry]:
                ctx.disagree("st.merge_graph:merged", case, [merged[:4], [sorted(f) for f in entry][:4]])
            elif angular_margin_ok(v, entry):
                Rs = [kabsch(first3_normal(v[f])).ravel() for f in entry]
                try:
                    r = Tok(ctx.driver.F("st.merge_faces", 1, LV(v), LF(tris), LE(eq0), LF(nb0), atol, rtol, L(labels),
                                         LF(entry), L(Rs), L([1] * len(entry))))
                    m_faces, m_eqs, m_nb = r.faces(), r.eqns(), r.faces()
                    scale = np.array([1, 1, 1, T.Ls])
                    if m_faces != [[int(i) for i in f] for f in q.faces]:
                        ctx.disagree("st.merge_faces:faces", case, [m_faces[:4], [[int(i) for i in f] for f in q.faces][:4]])
                    elif not ctx.close_enough(m_eqs / scale, eqs_of(q) / scale, 1.0):
                        ctx.disagree("st.merge_faces:equations", case, None)
                    elif m_nb != [[int(j) for j in row] for row in q.neighbors]:
                        ctx.disagree("st.merge_faces:neighbors", case, None)
                except ModelRaise as e:
                    ctx.disagree("st.merge_faces:raise", case, e.kind)
            else:
                ctx.skipped_near_boundary += 1
    # C
    obs, order = observe(q, [case["sub"], "after-merge"])
    ok = check_observed(ctx, case, v, obs, order, "Polyhedron.merge_faces", ctx.driver)
    ok = ok and check_structure(ctx, case, "Polyhedron", v, obs["faces"], obs["equations"], obs["neighbors"],
                                obs["edges"], T, prefix="Polyhedron.merge_faces")
    case.pop("_history", None)
    if ok and case.get("exact"):
        check_surface_cert(ctx, case, v, [[int(i) for i in f] for f in q.faces], "Polyhedron.merge_faces")


# --------------------------------------------------------------------------- driver of one case

def eval_case(ctx, case):
    v = np.array(case["vertices"], dtype=float)
    try:
        T = Truth(v)
    except Exception:
        ctx.count("skipped:truth-hull-failed")
        return
    if T.boundary or not T.consistent:
        ctx.skipped_near_boundary += 1
        return
    p = eval_convex(ctx, case, v, T, "order-1")
    # a second vertex order: same structure up to relabelling
    perm = np.array(case.get("perm") or list(reversed(range(len(v)))))
    inv = np.argsort(perm)
    v2 = v[perm]
    T2 = relabel(T, v2, inv)
    import coxeter
    try:
        p2 = coxeter.shapes.ConvexPolyhedron(v2)
        check_structure(ctx, case, "ConvexPolyhedron", v2, p2.faces, p2.equations, p2.neighbors, p2.edges, T2,
                        prefix="ConvexPolyhedron[permuted]")
    except Exception as e:
        ctx.fail("ConvexPolyhedron.__init__:raises", "constructor raised on a permutation of a valid set", case, repr(e))
    eval_sort_faces(ctx, case, v, T)
    eval_merge_faces(ctx, case, v, T)


def cross2i(a, b):
    return int(a[0]) * int(b[1]) - int(a[1]) * int(b[0])


def int_polygon(rng, lo=3, hi=9):
    """strictly convex polygon with integer vertices, counter-clockwise"""
    while True:
        R = int(rng.integers(3, 12))
        pts = np.unique(rng.integers(-R, R + 1, size=(int(rng.integers(lo + 2, 3 * hi)), 2)), axis=0)
        if len(pts) < 3:
            continue
        try:
            h = ConvexHull(pts.astype(float))
        except Exception:
            continue
        P = pts[h.vertices]
        n = len(P)
        # exact strict convexity (Qhull may keep collinear points)
        cr = [cross2i(P[(i + 1) % n] - P[i], P[(i + 2) % n] - P[(i + 1) % n]) for i in range(n)]
        if lo <= n <= hi and all(c > 0 for c in cr):
            return P


def integral_solid(rng):
    """exactly integral convex polytopes with non-triangular faces of many kinds (all vertices in convex position)"""
    kind = ["int-box", "int-prism", "int-pyramid", "int-bipyramid", "int-hull", "int-frustum"][int(rng.integers(6))]
    if kind == "int-box":
        a, b, c = (int(x) for x in rng.integers(1, 9, size=3))
        v = np.array([[x, y, z] for x in (0, a) for y in (0, b) for z in (0, c)], dtype=float)
    elif kind == "int-prism":
        P = int_polygon(rng)
        h = int(rng.integers(1, 9))
        v = np.array([[x, y, z] for z in (0, h) for x, y in P], dtype=float)
    elif kind in ("int-pyramid", "int-bipyramid"):
        P = int_polygon(rng)
        # apex over an interior lattice point of the base when there is one, else over a vertex (oblique is fine)
        c = P[int(rng.integers(len(P)))]
        apex = [[int(c[0]), int(c[1]), int(rng.integers(1, 9))]]
        if kind == "int-bipyramid":
            # the second apex must be strictly below the base plane and over the strict interior of the base
            cx, cy = np.round(P.mean(axis=0)).astype(int)
            n = len(P)
            inside = all(cross2i(P[(i + 1) % n] - P[i], np.array([cx, cy]) - P[i]) > 0 for i in range(n))
            if not inside:
                return integral_solid(rng)
            apex = [[int(cx), int(cy), int(rng.integers(1, 9))], [int(cx), int(cy), -int(rng.integers(1, 9))]]
        v = np.array([[x, y, 0] for x, y in P] + apex, dtype=float)
    elif kind == "int-frustum":
        P = int_polygon(rng)
        k = int(rng.integers(2, 4))
        h = int(rng.integers(1, 9))
        v = np.array([[k * x, k * y, 0] for x, y in P] + [[x, y, h] for x, y in P], dtype=float)
    else:
        R = int(rng.integers(2, 7))
        pts = np.unique(rng.integers(-R, R + 1, size=(int(rng.integers(8, 40)), 3)), axis=0).astype(float)
        try:
            v = gen.hull_vertices_only(pts)
        except Exception:
            return integral_solid(rng)
    v = v + rng.integers(-5, 6, size=3).astype(float)
    try:
        if len(v) < 4 or len(ConvexHull(v).vertices) != len(v):
            return integral_solid(rng)
    except Exception:
        return integral_solid(rng)
    v = v[rng.permutation(len(v))]
    return v, {"kind": kind, "rotated": False, "offset_diams": 0.0, "scale": 1.0}


def make_case(rng, ctx, exact=False):
    if exact:
        if rng.random() < 0.6:
            v, info = integral_solid(rng)
        else:
            kind = ["lattice", "zonotope"][int(rng.integers(2))]
            v, info = gen.convex_solid(rng, kind=kind, rotate=False, offset_diams=0.0, scale=1.0)
            shift = rng.integers(-5, 6, size=3).astype(float)
            v = v + shift
        info["exact"] = True
        ctx.count("exact-integral")
    elif rng.random() < 0.25:
        # nearly coplanar facets (session 4, after seed r5-C07-1): a solid with non-triangular faces, one vertex pushed
        # outward by 3e-7 .. 1e-3 diameters, so the faces around it split into facets whose planes differ by that much
        # (far above rounding, below any "relative 1e-5"-style tolerance at the low end); generic rotation so that no
        # normal component is zero; well inside what Truth resolves (its own near-boundary guard is 1e-7)
        v, info = integral_solid(rng)
        v = np.array(v, dtype=float)
        c = v.mean(axis=0)
        k = int(rng.integers(len(v)))
        eps = float(10 ** rng.uniform(-6.5, -3.0))
        v[k] = v[k] + (v[k] - c) / np.linalg.norm(v[k] - c) * eps * gen.diameter(v)
        if rng.random() < 0.85:
            v = v @ gen.random_rotation(rng).T
        if rng.random() < 0.5:
            v = v * float(2.0 ** rng.integers(-10, 11))
        info = dict(info, kind="dented:" + info["kind"], rotated=True, dent=eps)
        ctx.count("near-coplanar-dent")
    else:
        v, info = gen.convex_solid(rng)
    ctx.count("kind:" + info["kind"])
    ctx.count("rotated" if info["rotated"] else "axis-aligned")
    ctx.count("offset>0" if info["offset_diams"] > 0 else "offset=0")
    ctx.count("scale!=1" if info["scale"] != 1.0 else "scale=1")
    return {"vertices": v.tolist(), "info": info, "perm": rng.permutation(len(v)).tolist(),
            "sub": int(rng.integers(2 ** 31)), "exact": bool(exact)}


def run(ctx):
    n = ctx.budget(80, 1500)
    for i in range(n):
        case = make_case(ctx.rng, ctx, exact=(i % 3 == 2))
        ctx.case(case)
        eval_case(ctx, case)
    tabs = gen.tabulated_solids()
    if ctx.tier == "quick" and ctx.widen == 1:
        idx = ctx.rng.choice(len(tabs), size=12, replace=False)
        tabs = [tabs[i] for i in idx]
    for fam, name, v in tabs:
        v2, info = gen.place(ctx.rng, v, scale=1.0)
        case = {"vertices": v2.tolist(), "info": dict(info, kind="tabulated:" + fam, name=name),
                "perm": ctx.rng.permutation(len(v2)).tolist(), "sub": int(ctx.rng.integers(2 ** 31)), "exact": False}
        ctx.count("kind:tabulated")
        ctx.case(case)
        eval_case(ctx, case)


def replay(ctx, payload):
    case = payload.get("case", payload)
    ctx.case(case)
    eval_case(ctx, case)
