"""C04 — polygon area, signed area, perimeter, centroid, planar/polar moments, inertia tensor are exact."""
from fractions import Fraction

import numpy as np
import rowan

import gen
import history
from common import read_shuffled, L, ModelRaise, exc_kind

RULE = ("simple polygons from gen.polygon2d (star/comb/spiral/lattice/convex/rect/triangle/reflex-first-corner, 3-40 "
        "vertices on a 1/64 grid, optionally stretched to needle aspect ratios up to 64:1) x {ccw, cw} x {default, "
        "explicit same, explicit opposite normal; unit and non-unit length} x {xy-plane, near-flat tilt 1e-7..3e-2 rad "
        "(also about -z), random plane} x offsets <= 10 diameters x scale 2^-40..2^40 x {(N,3), (N,2) input} x classes "
        "Polygon and (convex kinds) ConvexPolygon (vertices handed over in cycle order or SHUFFLED: the constructor "
        "re-sorts) x {built directly, reached through setters (history.maybe_via_history)} x the eight measures read "
        "twice, each time in an order drawn per case (and fixed inertia-first orders in the corpus); distinct = "
        "distinct (vertices, normal argument, class)")
ASSUMPTIONS = [
    "exact integrals over the polygon = iterated integrals over the triangles of an independent exact ear-clipping "
    "triangulation (Props/C04 certified_oracle: the driver checks over Q, per case, that the triangle list is a positively "
    "oriented triangulation of the vertex cycle in the chain sense, and the closed forms it sums are proved equal to the "
    "iterated integrals), evaluated exactly over Q by the driver in the polygon's own plane coordinates; the map from "
    "plane coordinates to 3-space (o + x u + y w) is applied in floating point",
    "rowan.mapping.kabsch is external: its matrix is an input of the model; contract (orthogonal, det 1, maps n to z) "
    "checked per case; the theorems hold for ANY matrix meeting the contract (frame independence)",
    "inertia tensor spec per the property text: polar moment about the centroidal normal axis J n n^T, moved to the "
    "origin by the parallel-axis theorem",
]

Z = np.array([0.0, 0.0, 1.0])
QCODE = {"signed_area": 0, "area": 1, "perimeter": 2, "centroid": 3, "planar": 4, "polar": 5, "inertia": 6, "center": 7}
QSIZE = {"signed_area": 1, "area": 1, "perimeter": 1, "centroid": 3, "planar": 3, "polar": 1, "inertia": 9, "center": 3}
QSCALE = {"signed_area": 2, "area": 2, "perimeter": 1, "centroid": 1, "planar": 4, "polar": 4, "inertia": 4, "center": 1}


def kabsch(n):
    R, _ = rowan.mapping.kabsch([n, -n], [[0, 0, 1], [0, 0, -1]])
    return np.asarray(R, dtype=float)


def build(case):
    import coxeter
    cls = getattr(coxeter.shapes, case["cls"])
    v = np.array(case["vertices"], dtype=float)
    if case.get("ncols") == 2:
        v = v[:, :2].copy()
    normal = case.get("normal")
    if normal is not None:
        return cls(v, normal=np.array(normal, dtype=float))
    return cls(v)


def getters_of(p):
    return {
        "signed_area": lambda: float(p.signed_area), "area": lambda: float(p.area),
        "perimeter": lambda: float(p.perimeter),
        "centroid": lambda: np.array(p.centroid, dtype=float),
        "planar": lambda: np.array(p.planar_moments_inertia, dtype=float),
        "polar": lambda: float(p.polar_moment_inertia),
        "inertia": lambda: np.array(p.inertia_tensor, dtype=float),
        "center": lambda: np.array(p.center, dtype=float),
    }


def read_in_order(getters, order):
    return {n: getters[n]() for n in order}, list(order)


def frac_rows(a):
    return [[Fraction(float(x)) for x in row] for row in a]


def exact_xy_block(ctx, case, obs, verts, N, R, Ls):
    """xy-plane polygons, directly built: the stored vertices are doubles = rationals and R is a signed permutation, so
    EVERYTHING is exact.  Triangulate the object's OWN (aligned) vertex cycle, let the driver certify the triangulation
    (cert.planar, Q), and compare the model evaluated over Q with the spec evaluated over Q as rationals (the theorem
    `certified_xy_model` instantiated), then the implementation with those rationals."""
    Rr = np.round(R)
    Nr = np.round(N)
    w = verts @ Rr.T                                    # exact (signed permutation)
    if not np.all(w[:, 2] == w[0, 2]):
        return
    P = frac_rows(w)
    n = len(P)
    a2 = sum(P[i][0] * P[(i + 1) % n][1] - P[(i + 1) % n][0] * P[i][1] for i in range(n))
    if a2 == 0:
        return
    s_cyc = 1 if a2 > 0 else -1
    tris = gen.ear_clip_exact([(float(x), float(y)) for x, y, _ in P])
    if tris is None:
        ctx.contract_failures.append({"contract": "exact ear clipping of the stored cycle", "case": case["kind"]})
        return
    w0 = w.copy()
    w0[:, 2] = 0.0                                       # the certificate works in the plane z = 0
    T_cyc = [np.array([w0[i], w0[j], w0[k]]) for (i, j, k) in tris]           # oriented like the cycle
    T_ccw = T_cyc if s_cyc > 0 else [t[[0, 2, 1]] for t in T_cyc]
    cert_tri, _, cert_flat = ctx.driver.Q("cert.planar", L(list(w0)), L(T_cyc))
    _, cert_or, _ = ctx.driver.Q("cert.planar", L(list(w0)), L(T_ccw))
    ctx.count("certificates:stored-cycle")
    if not (cert_tri and cert_or and cert_flat):
        ctx.obligation_breaks.append({"obligation": "cert.planar on the stored vertex cycle",
                                      "detail": [cert_tri, cert_or, cert_flat], "case": case})
        return
    A, f0, f1, s00, s11, s01 = ctx.driver.Q("spec.planar", L(T_ccw))
    try:
        qm = ctx.driver.Q("polygon.rational", L(list(verts)), Nr, Rr)
    except ModelRaise:
        return
    ctx.count("model_Q_evaluations")
    z0 = P[0][2]
    cen_al = [f0 / A, f1 / A, z0]
    RrT = [[Fraction(int(Rr[j][i])) for j in range(3)] for i in range(3)]
    cen = [sum(RrT[i][j] * cen_al[j] for j in range(3)) for i in range(3)]
    expect = [s_cyc * A] + cen + [s11, s00, s01]
    if [Fraction(x) for x in qm] != expect:
        ctx.disagree("polygon.rational:model(Q) == spec(Q) exactly [certified_xy_model]", case,
                     [[str(x) for x in qm], [str(x) for x in expect]])
    # implementation against the exact rationals of its own vertex list
    sig = case["cls"]
    checks = [("signed_area", float(s_cyc * A), 2), ("area", float(A), 2), ("centroid", [float(x) for x in cen], 1),
              ("polar", float(s00 + s11), 4)]
    if np.array_equal(Rr, np.eye(3)):
        # +z normal, identity frame: the planar moments are the integrals of y^2, x^2, xy (property text)
        checks.append(("planar", [float(s11), float(s00), float(s01)], 4))
    for name, val, k in checks:
        if not ctx.close_enough(obs[name], val, Ls ** k):
            ctx.fail(sig + "." + name + ":exact-rational", "%s differs from the exact rational value computed from the "
                     "object's own vertices (certified triangulation)" % name, case, [obs[name], val])
    ctx.count("exact_rational_checked")


def eval_case(ctx, case):
    v_in = np.array(case["vertices"], dtype=float)
    p2 = np.array(case["p2"], dtype=float)          # ccw 2-D polygon in frame coordinates (scaled)
    fr = {k: np.array(val, dtype=float) for k, val in case["frame"].items() if k in ("o", "u", "w", "n")}
    d = gen.diameter(v_in)
    Ls = d + float(np.linalg.norm(v_in.mean(axis=0)))
    how = "direct"
    try:
        p = build(case)
    except Exception as e:
        if (case.get("needle") or abs(np.log2(case.get("scale", 1.0))) > 10) and exc_kind(e) == "ValueError":
            # validity checks of the constructor at needle aspect ratios / extreme sizes are C15's subject
            ctx.count("skipped:constructor-rejects-extreme(C15)")
            return
        ctx.fail("%s:raises" % case["cls"], "constructor raised %s on a valid simple polygon" % exc_kind(e),
                 case, repr(e))
        return
    try:
        if not case.get("no_history"):
            p, how = history.maybe_via_history(p, history.rng_for(case["vertices"]),
                                               1.0 if case.get("force_history") else 1.0 / 3.0, ctx)
        verts0 = np.array(p.vertices, dtype=float)
        normal0 = np.array(p.normal, dtype=float)
        # the measures are read in an order drawn per case (or prescribed by the case): none may depend on what was
        # asked before; then ALL of them once more in another order
        if case.get("order"):
            obs, order = read_in_order(getters_of(p), case["order"])
        else:
            obs, order = read_shuffled(getters_of(p), case["vertices"])
        obs2, order2 = read_shuffled(getters_of(p), [case["vertices"], "again"])
        ctx.count("first-query:" + order[0])
        if order.index("inertia") < min(order.index("planar"), order.index("polar")):
            ctx.count("order:inertia-before-moments")
    except Exception as e:
        ctx.fail("%s:raises" % case["cls"], "a measure raised %s on a valid simple polygon" % exc_kind(e),
                 case, repr(e))
        return
    N = np.array(p.normal, dtype=float)
    verts = np.array(p.vertices, dtype=float)
    sig = case["cls"]
    # ---- the object after the reads: the model says the state is what it was (inertiaTensorStep_restores / observeAll_state)
    if not (np.array_equal(verts, verts0) and np.array_equal(N, normal0)):
        ctx.disagree("polygon.queries:state(restored after the reads)", case,
                     [float(np.max(np.abs(verts - verts0))), N.tolist(), normal0.tolist()])
        return
    if abs(float(np.linalg.norm(N)) - 1.0) > 1e-9:
        ctx.fail("%s.normal:not-unit" % case["cls"], "the stored normal is not a unit vector", case, N)
        return
    R = kabsch(N)
    R2 = kabsch(Z)
    ok_contract = (np.allclose(R @ R.T, np.eye(3), atol=1e-12) and abs(np.linalg.det(R) - 1) < 1e-12
                   and np.allclose(R @ N, Z, atol=1e-12)
                   and np.allclose(R2 @ R2.T, np.eye(3), atol=1e-12) and abs(np.linalg.det(R2) - 1) < 1e-12
                   and np.allclose(R2 @ Z, Z, atol=1e-12))
    if not ok_contract:
        ctx.contract_failures.append({"contract": "kabsch proper rotation n->z", "normal": N.tolist()})
        return
    # ---------------- B: the model as a state machine, same history of reads, at Float
    codes = [QCODE[k] for k in order + order2]
    try:
        r = ctx.driver.F("polygon.queries", L(list(verts)), N, R, R2, L(codes))
    except ModelRaise as e:
        ctx.disagree("polygon.queries", case, "model raised " + e.kind)
        return
    pos = 0
    for rnd, (names, got) in enumerate(((order, obs), (order2, obs2))):
        for k in names:
            m = np.array(r[pos:pos + QSIZE[k]])
            pos += QSIZE[k]
            if QSIZE[k] == 9:
                m = m.reshape(3, 3)
            if not ctx.close_enough(np.array(got[k]).reshape(m.shape), m, Ls ** QSCALE[k]):
                ctx.disagree("polygon.queries:%s(read %d)" % (k, rnd + 1), case, [got[k], m])
    st = np.array(r[pos:])
    if not (np.array_equal(st[:3], N) and np.array_equal(st[3:].reshape(-1, 3), verts)):
        ctx.disagree("polygon.queries:state", case, "model state after the history differs from the object's")
    # second read against the first: the same object, the same geometry
    for k in obs:
        if not ctx.close_enough(obs2[k], obs[k], Ls ** QSCALE[k]):
            ctx.fail(sig + "." + k + ":repeat-read", "the same measure read twice on an unchanged object gives two "
                     "different values (first order %s, second order %s)" % (order, order2), case, [obs[k], obs2[k]])
            return

    # ---------------- C: implementation vs exact spec
    tris = case["tris"]
    T = [np.array([[p2[i][0], p2[i][1], 0.0] for i in t]) for t in tris]
    cyc = [np.array([x, y, 0.0]) for x, y in p2]
    cert = ctx.driver.Q("cert.planar", L(cyc), L(T))
    ctx.count("certificates:oracle")
    if not all(cert):
        ctx.obligation_breaks.append({"obligation": "cert.planar: the oracle's ear clipping is a positively oriented "
                                      "triangulation of the generated cycle", "detail": cert, "case": case})
        return
    q = ctx.driver.Q("spec.planar", L(T))
    A, f0, f1, s00, s11, s01 = [float(x) for x in q]
    cx, cy = f0 / A, f1 / A
    o, u, w, nf = fr["o"], fr["u"], fr["w"], fr["n"]
    # orientation of the stored vertices in frame coordinates
    xy = np.c_[(verts - o) @ u, (verts - o) @ w]
    s_frame = np.sign(np.sum(xy[:, 0] * np.roll(xy[:, 1], -1) - np.roll(xy[:, 0], -1) * xy[:, 1]))
    s_norm = np.sign(float(N @ nf))
    if abs(abs(float(N @ nf)) - 1) > 1e-9:
        ctx.fail("%s.normal:not-perpendicular" % case["cls"], "stored normal is not the plane's unit normal", case, N)
        return
    ctx.count("stored-orientation-about-normal:" + ("ccw" if s_frame * s_norm > 0 else "cw"))
    exp_signed = s_frame * s_norm * A
    tag = ":cw" if s_frame * s_norm < 0 else ""
    if not ctx.close_enough(obs["area"], A, Ls ** 2):
        ctx.fail(sig + ".area:value", "area differs from the exact integral", case, [obs["area"], A])
    if not ctx.close_enough(obs["signed_area"], exp_signed, Ls ** 2):
        ctx.fail(sig + ".signed_area:value", "signed area wrong (value or sign convention)", case,
                 [obs["signed_area"], exp_signed])
    per = float(np.sum(np.linalg.norm(np.roll(p2, -1, axis=0) - p2, axis=1)))
    if not ctx.close_enough(obs["perimeter"], per, Ls):
        ctx.fail(sig + ".perimeter:value", "perimeter differs from the sum of edge lengths", case,
                 [obs["perimeter"], per])
    cen = o + cx * u + cy * w
    if not ctx.close_enough(obs["centroid"], cen, Ls):
        ctx.fail(sig + ".centroid:value" + tag, "centroid differs from the exact integral", case,
                 [obs["centroid"], cen])
    if not ctx.close_enough(obs["center"], cen, Ls):
        ctx.fail(sig + ".center:value", "center differs from the centroid", case, [obs["center"], cen])
    a, b = float(o @ u), float(o @ w)
    polar = s00 + 2 * a * f0 + a * a * A + s11 + 2 * b * f1 + b * b * A
    if not ctx.close_enough(obs["polar"], polar, Ls ** 4):
        ctx.fail(sig + ".polar_moment_inertia:value", "polar moment differs from the exact integral", case,
                 [obs["polar"], polar])
    Jc = s00 + s11 - A * (cx * cx + cy * cy)
    I = Jc * np.outer(nf, nf) + A * (cen @ cen * np.eye(3) - np.outer(cen, cen))
    if not ctx.close_enough(obs["inertia"], I, Ls ** 4):
        ctx.fail(sig + ".inertia_tensor:value", "inertia tensor differs from J n n^T + parallel axis", case,
                 [obs["inertia"], I])
    # planar moments are frame dependent (planarMoments_frame_integral: they are the integrals of (e2.r)^2, (e1.r)^2,
    # (e1.r)(e2.r) with e1, e2 the in-plane rows of whatever matrix kabsch returns; the model/implementation
    # correspondence above compares them in that frame).  What does NOT depend on the frame, for every plane: the
    # invariants of the in-plane second-moment tensor M = int (Pr)(Pr)^T, P = 1 - n n^T:  I_x + I_y = tr M (the polar
    # moment, checked above) and I_x I_y - I_xy^2 = ((tr M)^2 - tr M^2) / 2.
    P = np.eye(3) - np.outer(nf, nf)
    a0 = P @ o
    M = (A * np.outer(a0, a0) + f0 * (np.outer(a0, u) + np.outer(u, a0)) + f1 * (np.outer(a0, w) + np.outer(w, a0))
         + s00 * np.outer(u, u) + s01 * (np.outer(u, w) + np.outer(w, u)) + s11 * np.outer(w, w))
    inv2 = 0.5 * (np.trace(M) ** 2 - np.trace(M @ M))
    ix, iy, ixy = [float(x) for x in obs["planar"]]
    ctx.count("planar_invariants_checked")
    if not (ctx.close_enough(ix + iy, polar, Ls ** 4) and ctx.close_enough(ix * iy - ixy * ixy, inv2, Ls ** 8, tol=4e-9)
            and ix >= -1e-9 * Ls ** 4 and iy >= -1e-9 * Ls ** 4):
        ctx.fail(sig + ".planar_moments_inertia:invariants", "the frame-independent invariants I_x + I_y and "
                 "I_x I_y - I_xy^2 of the planar moments differ from those of the exact in-plane second-moment tensor",
                 case, [obs["planar"], [polar, inv2]])
    if case["frame"]["plane"] == "xy" and np.allclose(N, Z, atol=1e-15) and np.allclose(R, np.eye(3), atol=1e-12):
        ox, oy = float(o[0]), float(o[1])
        pm = [s11 + 2 * oy * f1 + oy * oy * A, s00 + 2 * ox * f0 + ox * ox * A, s01 + ox * f1 + oy * f0 + ox * oy * A]
        ctx.count("planar_moments_checked")
        if not ctx.close_enough(obs["planar"], pm, Ls ** 4):
            ctx.fail(sig + ".planar_moments_inertia:value" + tag,
                     "planar moments differ from the integrals of y^2, x^2, xy", case, [obs["planar"], pm])
    # exact-rational re-evaluation for xy-plane polygons built directly (Q mode, signed-permutation R)
    if (case["frame"]["plane"] == "xy" and how == "direct"
            and np.all(np.abs(np.abs(R) - np.round(np.abs(R))) < 1e-12) and np.all(np.abs(N - np.round(N)) < 1e-15)):
        exact_xy_block(ctx, case, obs, verts, N, R, Ls)


def first_corner_ok(v):
    e1, e2 = v[1] - v[0], v[2] - v[1]
    return np.linalg.norm(np.cross(e1, e2)) > 1e-3 * np.linalg.norm(e1) * np.linalg.norm(e2)


def finish_case(rng, ctx, kind, p2, scale, plane, orientation, mode, nlen, cls, shuffled=False, ncols=3,
                offset_diams=None, needle=0, Rm=None, order=None, count=True):
    """embed the (ccw, scaled-by-`scale`) plane polygon p2 and assemble the case dict"""
    if Rm is None:
        v, fr = gen.embed_polygon(rng, p2, plane=plane, scale=scale, offset_diams=offset_diams)
    else:
        q2 = np.asarray(p2, dtype=float) * scale
        u, w, n = Rm[:, 0], Rm[:, 1], Rm[:, 2]
        dd = float(np.max(np.linalg.norm(q2[:, None] - q2[None], axis=-1)))
        o = np.array([0.6, -0.8, 0.0 if plane == "xy" else 0.5]) * dd * (offset_diams or 0.0)
        v = o[None, :] + q2[:, :1] * u[None, :] + q2[:, 1:2] * w[None, :]
        fr = {"o": o, "u": u, "w": w, "n": n, "offset_diams": offset_diams or 0.0, "plane": plane}
    if ncols == 2:
        # (N,2) input: the constructor pads z = 0, so the polygon must lie in the plane z = 0
        v[:, 2] = 0.0
        fr["o"] = np.array([fr["o"][0], fr["o"][1], 0.0])
    tris = gen.ear_clip_exact((np.asarray(p2, dtype=float) * scale).tolist())
    if orientation == "cw":
        v = v[::-1].copy()
    if shuffled:
        # ConvexPolygon sorts its vertices itself: hand them over in a random order (first corner not straight)
        for _ in range(50):
            v = v[rng.permutation(len(v))]
            if first_corner_ok(v):
                break
    # The constructor takes the normal from the FIRST corner (v0, v1, v2); a straight first corner is the known
    # C15 finding `Polygon.__init__:rejects-valid:straight-first-corner`, not a C04 matter: start the same cycle
    # at a vertex whose corner is clearly not straight (a cyclic shift does not change the polygon).
    for _ in range(len(v)):
        if first_corner_ok(v):
            break
        v = np.roll(v, -1, axis=0)
    normal = None
    if mode == "same":
        normal = (fr["n"] * nlen).tolist()
    elif mode == "opposite":
        normal = (-fr["n"] * nlen).tolist()
    if count:
        if mode != "default":
            ctx.count("normal-length:" + ("unit" if nlen == 1.0 else "non-unit"))
        ctx.count("kind:" + kind)
        ctx.count("orientation:" + orientation)
        ctx.count("normal:" + mode)
        ctx.count("plane:" + plane)
        ctx.count("cls:" + cls + (":shuffled" if shuffled else ""))
        ctx.count("input:(N,%d)" % ncols)
        e = int(round(np.log2(scale)))
        ctx.count("scale:" + ("1" if e == 0 else ("2^+-(1..10)" if abs(e) <= 10 else "2^+-(11..40)")))
        if needle:
            ctx.count("aspect:needle")
    case = {"cls": cls, "vertices": v.tolist(), "normal": normal, "orientation": orientation, "kind": kind,
            "p2": (np.asarray(p2, dtype=float) * scale).tolist(), "tris": [list(t) for t in tris], "scale": scale,
            "ncols": ncols, "shuffled": bool(shuffled), "needle": int(needle),
            "frame": {"o": fr["o"].tolist(), "u": fr["u"].tolist(), "w": fr["w"].tolist(), "n": fr["n"].tolist(),
                      "plane": plane, "offset_diams": fr["offset_diams"]}}
    if order:
        case["order"] = list(order)
    return case


def small_polygon(rng):
    """a random quadrilateral / pentagon (convex or with one reflex corner) on the 1/64 grid, ccw: the sizes at which
    'the centroid is the vertex mean' style shortcuts are still right for triangles and parallelograms only"""
    for _ in range(500):
        n = int(rng.integers(4, 6))
        t = np.sort(rng.uniform(0, 2 * np.pi, size=n))
        if np.min(np.diff(np.r_[t, t[0] + 2 * np.pi])) < 0.3:
            continue
        r = rng.uniform(0.25, 1.0, size=n)
        p = np.round(np.c_[r * np.cos(t), r * np.sin(t)] * 64) / 64
        if len(np.unique(p, axis=0)) != n or not gen.is_simple_exact(p.tolist()):
            continue
        a2 = float(np.sum(p[:, 0] * np.roll(p[:, 1], -1) - np.roll(p[:, 0], -1) * p[:, 1]))
        if a2 < 0.05:
            continue
        e1 = np.roll(p, -1, axis=0) - p
        e2 = np.roll(p, -2, axis=0) - np.roll(p, -1, axis=0)
        turn = (e1[:, 0] * e2[:, 1] - e1[:, 1] * e2[:, 0]) / (np.linalg.norm(e1, axis=1) * np.linalg.norm(e2, axis=1))
        if np.min(np.abs(turn)) < 0.05:
            continue
        return ("quad" if n == 4 else "pent") + ("-convex" if np.min(turn) > 0 else "-reflex"), p
    raise RuntimeError("could not generate a small polygon")


def make_case(rng, ctx):
    if rng.random() < 0.1:
        kind, p2 = small_polygon(rng)
    else:
        kind, p2 = gen.polygon2d(rng)
    r = rng.random()
    if r < 0.5:
        scale = 1.0
    elif r < 0.8:
        scale = float(2.0 ** int(rng.integers(-10, 11)))
    else:
        scale = float(2.0 ** int(rng.integers(-40, 41)))
    r = rng.random()
    plane = "xy" if r < 0.35 else ("neartilt" if r < 0.6 else "random")
    orientation = "ccw" if rng.random() < 0.5 else "cw"
    mode = ["default", "same", "opposite"][int(rng.integers(3))]
    # explicit normals are passed with a non-unit length half of the time (the constructor must normalise them)
    nlen = 1.0 if rng.random() < 0.5 else float(rng.choice([2.0, 0.5, 3.7, 1e-3, 1e3]))
    cls = "Polygon"
    shuffled = False
    if (kind in ("convex", "rect", "triangle") or kind.endswith("-convex")) and rng.random() < 0.6:
        cls = "ConvexPolygon"
        shuffled = bool(rng.random() < 0.5)
    needle = 0
    if cls == "Polygon" and kind != "lattice" and rng.random() < 0.12:
        # needle aspect ratio: stretch x by a power of two (stays on the dyadic grid, stays simple and ccw)
        needle = int(rng.integers(3, 7))
        p2 = p2 * np.array([2.0 ** needle, 1.0])
    ncols = 2 if (plane == "xy" and rng.random() < 0.4) else 3
    return finish_case(rng, ctx, kind, p2, scale, plane, orientation, mode, nlen, cls, shuffled=shuffled, ncols=ncols,
                       needle=needle)


def rot_x(a):
    c, s = np.cos(a), np.sin(a)
    return np.array([[1, 0, 0], [0, c, -s], [0, s, c]])


def fixed_cases(ctx):
    """One deterministic representative of every input class named in the property and in the lead's list, on an
    L-shaped polygon (centroid != vertex mean, not centred): in EVERY run, whatever the seed."""
    Lp = np.array([[0, 0], [3, 0], [3, 1], [1, 1], [1, 2], [0, 2]], dtype=float)                 # ccw, convex first corner
    Lr = np.array([[3, 1], [1, 1], [1, 2], [0, 2], [0, 0], [3, 0]], dtype=float)                 # ccw, vertex 1 reflex
    sq = np.array([[0, 0], [2, 0], [2, 1], [0.5, 1.75], [0, 1]], dtype=float)                    # convex pentagon
    rng = np.random.default_rng(4)
    inertia_first = ["inertia", "planar", "polar", "centroid", "signed_area", "area", "perimeter", "center"]
    moments_first = ["planar", "polar", "inertia", "planar", "polar"][:3] + ["centroid", "center", "area",
                                                                               "signed_area", "perimeter"]
    out = []

    def add(kind, p2, **kw):
        kw.setdefault("scale", 1.0)
        kw.setdefault("plane", "xy")
        kw.setdefault("orientation", "ccw")
        kw.setdefault("mode", "default")
        kw.setdefault("nlen", 1.0)
        kw.setdefault("cls", "Polygon")
        kw.setdefault("offset_diams", 1.0)
        c = finish_case(rng, ctx, kind, p2, kw.pop("scale"), kw.pop("plane"), kw.pop("orientation"), kw.pop("mode"),
                        kw.pop("nlen"), kw.pop("cls"), count=False, **kw)
        c["no_history"] = True
        out.append(c)
    eye = np.eye(3)
    flip = np.diag([1.0, -1.0, -1.0])
    add("fixed:L", Lp, Rm=eye, order=inertia_first)
    add("fixed:L", Lp, Rm=eye, order=moments_first)
    add("fixed:L-cw-explicit+z", Lp, Rm=eye, orientation="cw", mode="same", order=inertia_first)
    add("fixed:L-cw-default", Lp, Rm=eye, orientation="cw")
    add("fixed:L-reflex-first", Lr, Rm=eye, order=inertia_first)
    add("fixed:L-opposing-nonunit", Lp, Rm=eye, mode="opposite", nlen=2.0)
    add("fixed:L-same-nonunit", Lp, Rm=eye, mode="same", nlen=0.25, order=inertia_first)
    add("fixed:L-(N,2)", Lp, Rm=eye, ncols=2, order=inertia_first)
    add("fixed:L-(N,2)-cw-opposing", Lp, Rm=eye, ncols=2, orientation="cw", mode="opposite", nlen=3.0)
    add("fixed:L-minus-z", Lp, Rm=flip, plane="xy")
    for ang in (1e-6, 1e-4, 2e-3, 4e-3, 2e-2):
        # almost flat: tilted by `ang` about x (and about a skew axis), normal near +z and near -z
        add("fixed:L-neartilt", Lp, Rm=rot_x(ang), plane="neartilt", order=inertia_first if ang > 1e-3 else None)
        add("fixed:L-neartilt-explicit", Lp, Rm=rot_x(-ang) @ np.array([[0.0, -1, 0], [1, 0, 0], [0, 0, 1]]),
            plane="neartilt", mode="same", nlen=2.0)
        add("fixed:L-neartilt-minus-z", Lr, Rm=rot_x(ang) @ flip, plane="neartilt")
    add("fixed:L-neartilt-2e-7", Lp, Rm=rot_x(2e-7), plane="neartilt", offset_diams=0.25)
    # general quadrilaterals (not parallelograms): trapezoid, dart (reflex corner), also cw and tilted
    trap = np.array([[0, 0], [4, 0], [2.5, 1], [1, 1]], dtype=float) + np.array([0.0, 0.0])
    trap[2] = [2.0, 1.0]
    dart = np.array([[0, 0], [1, 0.5], [2, 0], [1, 2]], dtype=float)
    add("fixed:quad-trapezoid", trap, Rm=eye)
    add("fixed:quad-trapezoid-convexpolygon", trap, Rm=eye, cls="ConvexPolygon", shuffled=True)
    add("fixed:quad-dart", dart, Rm=eye, order=inertia_first)
    add("fixed:quad-dart-cw", dart, Rm=eye, orientation="cw", mode="same")
    Rt = gen.random_rotation(np.random.default_rng(7))
    add("fixed:quad-trapezoid-tilted", trap, Rm=Rt, plane="random", cls="ConvexPolygon")
    # planes whose normal is dominated by x / by y (signed_area projects along the dominant axis)
    tiltg = rot_x(0.2) @ np.array([[np.cos(0.3), 0, np.sin(0.3)], [0, 1, 0], [-np.sin(0.3), 0, np.cos(0.3)]])
    z2x = np.array([[0.0, 0, 1], [1, 0, 0], [0, 1, 0]])         # columns u, w, n with n = x
    z2y = np.array([[0.0, 1, 0], [0, 0, 1], [1, 0, 0]])         # n = y
    for nm, Rm_ in (("x", z2x), ("y", z2y), ("x~", tiltg @ z2x), ("y~", tiltg @ z2y), ("-y~", tiltg @ z2y @ flip)):
        add("fixed:L-normal-along-" + nm, Lp, Rm=Rm_, plane="random", order=inertia_first if nm == "y~" else None)
        add("fixed:L-normal-along-" + nm + "-cw", Lr, Rm=Rm_, plane="random", orientation="cw", mode="same", nlen=2.0)
    add("fixed:L-tilted", Lp, Rm=Rt, plane="random", offset_diams=1.5, order=inertia_first)
    add("fixed:L-tilted-cw-opposing", Lr, Rm=Rt, plane="random", offset_diams=1.5, orientation="cw", mode="opposite",
        nlen=1e3)
    for sc in (2.0 ** -30, 2.0 ** -10, 2.0 ** 10, 2.0 ** 30):
        add("fixed:L-scale", Lp, Rm=eye, scale=sc, order=inertia_first)
        add("fixed:L-scale-tilted", Lr, Rm=Rt, plane="random", scale=sc, offset_diams=2.0)
    add("fixed:convex", sq, Rm=eye, cls="ConvexPolygon", order=inertia_first)
    add("fixed:convex-shuffled", sq, Rm=eye, cls="ConvexPolygon", shuffled=True)
    add("fixed:convex-shuffled-tilted", sq, Rm=Rt, plane="random", cls="ConvexPolygon", shuffled=True, mode="opposite")
    add("fixed:convex-cw-neartilt", sq, Rm=rot_x(3e-3), plane="neartilt", cls="ConvexPolygon", orientation="cw",
        order=inertia_first)
    # reached through the public mutators (scaled + shifted copy, every member read, size setter, centroid setter):
    # deterministic per case; a dozen different detours
    for k in range(12):
        Rk = [eye, Rt, rot_x(1e-3 * (k + 1)), tiltg @ z2y][k % 4]
        add("fixed:L-via-history-%d" % k, Lp if k % 2 else Lr, Rm=Rk, plane="xy" if k % 4 == 0 else "random",
            offset_diams=0.5 + 0.25 * k, orientation="cw" if k % 3 == 0 else "ccw",
            order=inertia_first if k % 2 else None)
        out[-1]["no_history"] = False
        out[-1]["force_history"] = True
    add("fixed:needle", Lp * np.array([64.0, 1.0]), Rm=eye, needle=6)
    add("fixed:needle-tilted", Lp * np.array([64.0, 1.0]), Rm=Rt, plane="random", needle=6, order=inertia_first)
    return out


CORPUS = [
    # minimised past failures (run first): clockwise square with explicit +z normal; rectangle in the 2nd quadrant;
    # tilted rectangle (inertia rotation direction)
    {"cls": "Polygon", "vertices": [[0, 0, 0], [0, 1, 0], [1, 1, 0], [1, 0, 0]], "normal": [0, 0, 1],
     "orientation": "cw", "kind": "rect", "p2": [[0, 0], [1, 0], [1, 1], [0, 1]], "tris": [[0, 1, 2], [0, 2, 3]],
     "scale": 1.0, "frame": {"o": [0, 0, 0], "u": [1, 0, 0], "w": [0, 1, 0], "n": [0, 0, 1], "plane": "xy",
                             "offset_diams": 0}},
    {"cls": "Polygon", "vertices": [[-3, 1, 0], [-1, 1, 0], [-1, 2, 0], [-3, 2, 0]], "normal": None,
     "orientation": "ccw", "kind": "rect", "p2": [[0, 0], [2, 0], [2, 1], [0, 1]], "tris": [[0, 1, 2], [0, 2, 3]],
     "scale": 1.0, "frame": {"o": [-3, 1, 0], "u": [1, 0, 0], "w": [0, 1, 0], "n": [0, 0, 1], "plane": "xy",
                             "offset_diams": 1}},
]


def run(ctx):
    if ctx.widen == 1:
        for case in CORPUS:
            ctx.case(case)
            eval_case(ctx, case)
        # tilted rectangle
        rng0 = np.random.default_rng(12345)
        p2 = np.array([[0, 0], [2, 0], [2, 1], [0, 1]], dtype=float)
        v, fr = gen.embed_polygon(rng0, p2, plane="random", offset_diams=1.5)
        case = {"cls": "Polygon", "vertices": v.tolist(), "normal": None, "orientation": "ccw", "kind": "rect",
                "p2": p2.tolist(), "tris": [[0, 1, 2], [0, 2, 3]], "scale": 1.0,
                "frame": {"o": fr["o"].tolist(), "u": fr["u"].tolist(), "w": fr["w"].tolist(), "n": fr["n"].tolist(),
                          "plane": "random", "offset_diams": 1.5}}
        ctx.case(case)
        eval_case(ctx, case)
        for case in fixed_cases(ctx):
            ctx.count("fixed-class-representatives")
            ctx.case(case)
            eval_case(ctx, case)
    n = ctx.budget(300, 8000)
    for _ in range(n):
        case = make_case(ctx.rng, ctx)
        ctx.case(case)
        eval_case(ctx, case)


def replay(ctx, payload):
    case = payload.get("case", payload)
    ctx.case(case)
    eval_case(ctx, case)
