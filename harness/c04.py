"""C04 — polygon area, signed area, perimeter, centroid, planar/polar moments, inertia tensor are exact."""
import numpy as np
import rowan

import gen
from common import read_shuffled, L, ModelRaise, exc_kind

RULE = ("simple polygons from gen.polygon2d (star/comb/spiral/lattice/convex/rect/triangle/reflex-first-corner, 3-40 "
        "vertices on a 1/64 grid) x {ccw, cw} x {default, explicit same, explicit opposite normal} x {xy-plane, random "
        "plane} x offsets <= 10 diameters x scale; classes Polygon and (convex kinds) ConvexPolygon; distinct = distinct "
        "(vertices, normal argument, class)")
ASSUMPTIONS = [
    "exact integrals over the polygon = sums of triangle closed forms (Spec/Planar.lean) over an independent exact ear-"
    "clipping triangulation, evaluated exactly over Q by the driver in the polygon's own plane coordinates",
    "rowan.mapping.kabsch is external: its matrix is an input of the model; contract (orthogonal, det 1, maps n to z) "
    "checked per case",
    "inertia tensor spec per the property text: polar moment about the centroidal normal axis J n n^T, moved to the "
    "origin by the parallel-axis theorem",
]

Z = np.array([0.0, 0.0, 1.0])


def kabsch(n):
    R, _ = rowan.mapping.kabsch([n, -n], [[0, 0, 1], [0, 0, -1]])
    return np.asarray(R, dtype=float)


def build(case):
    import coxeter
    cls = getattr(coxeter.shapes, case["cls"])
    v = np.array(case["vertices"], dtype=float)
    normal = case.get("normal")
    if normal is not None:
        return cls(v, normal=np.array(normal, dtype=float))
    return cls(v)


def eval_case(ctx, case):
    v_in = np.array(case["vertices"], dtype=float)
    p2 = np.array(case["p2"], dtype=float)          # ccw 2-D polygon in frame coordinates (scaled)
    fr = {k: np.array(val, dtype=float) for k, val in case["frame"].items() if k in ("o", "u", "w", "n")}
    d = gen.diameter(v_in)
    Ls = d + float(np.linalg.norm(v_in.mean(axis=0)))
    try:
        p = build(case)
        # the measures are read in an order drawn per case: none may depend on what was asked before
        obs, order = read_shuffled({
            "signed_area": lambda: float(p.signed_area), "area": lambda: float(p.area),
            "perimeter": lambda: float(p.perimeter),
            "centroid": lambda: np.array(p.centroid, dtype=float),
            "planar": lambda: np.array(p.planar_moments_inertia, dtype=float),
            "polar": lambda: float(p.polar_moment_inertia),
            "inertia": lambda: np.array(p.inertia_tensor, dtype=float),
            "center": lambda: np.array(p.center, dtype=float),
        }, case["vertices"])
        ctx.count("first-query:" + order[0])
    except Exception as e:
        ctx.fail("%s:raises" % case["cls"], "constructor or a measure raised %s on a valid simple polygon" % exc_kind(e),
                 case, repr(e))
        return
    N = np.array(p.normal, dtype=float)
    verts = np.array(p.vertices, dtype=float)
    if abs(float(np.linalg.norm(N)) - 1.0) > 1e-9:
        ctx.fail("%s.normal:not-unit" % case["cls"], "the stored normal is not a unit vector", case, N)
        return
    R = kabsch(N)
    R2 = kabsch(Z)
    ok_contract = (np.allclose(R @ R.T, np.eye(3), atol=1e-12) and abs(np.linalg.det(R) - 1) < 1e-12
                   and np.allclose(R @ N, Z, atol=1e-12))
    if not ok_contract:
        ctx.contract_failures.append({"contract": "kabsch proper rotation n->z", "normal": N.tolist()})
        return
    # ---------------- B: model at Float
    try:
        r = ctx.driver.F("polygon.measures", L(list(verts)), N, R, R2)
    except ModelRaise as e:
        ctx.disagree("polygon.measures", case, "model raised " + e.kind)
        return
    m = {"signed_area": r[0], "area": r[1], "perimeter": r[2], "centroid": np.array(r[3:6]),
         "planar": np.array(r[6:9]), "polar": r[9], "inertia": np.array(r[10:19]).reshape(3, 3)}
    scales = {"signed_area": Ls ** 2, "area": Ls ** 2, "perimeter": Ls, "centroid": Ls, "planar": Ls ** 4,
              "polar": Ls ** 4, "inertia": Ls ** 4}
    for k in m:
        if not ctx.close_enough(obs[k], m[k], scales[k]):
            ctx.disagree("polygon.measures:" + k, case, [obs[k], m[k]])

    # ---------------- C: implementation vs exact spec
    tris = case["tris"]
    T = [np.array([[p2[i][0], p2[i][1], 0.0] for i in t]) for t in tris]
    q = ctx.driver.Q("spec.planar", L(T))
    A, f0, f1, s00, s11, s01 = [float(x) for x in q]
    if not A > 0:
        ctx.contract_failures.append({"contract": "oracle triangulation positively oriented", "A": A})
        return
    cx, cy = f0 / A, f1 / A
    o, u, w, nf = fr["o"], fr["u"], fr["w"], fr["n"]
    # orientation of the stored vertices in frame coordinates
    xy = np.c_[(verts - o) @ u, (verts - o) @ w]
    s_frame = np.sign(np.sum(xy[:, 0] * np.roll(xy[:, 1], -1) - np.roll(xy[:, 0], -1) * xy[:, 1]))
    s_norm = np.sign(float(N @ nf))
    if abs(abs(float(N @ nf)) - 1) > 1e-9:
        ctx.fail("%s.normal:not-perpendicular" % case["cls"], "stored normal is not the plane's unit normal", case, N)
        return
    exp_signed = s_frame * s_norm * A
    sig = case["cls"]
    tag = ":cw" if case["orientation"] == "cw" else ""
    if not ctx.close_enough(obs["area"], A, Ls ** 2):
        ctx.fail(sig + ".area:value", "area differs from the exact integral", case, [obs["area"], A])
    if not ctx.close_enough(obs["signed_area"], exp_signed, Ls ** 2):
        ctx.fail(sig + ".signed_area:value", "signed area wrong (value or sign convention)", case,
                 [obs["signed_area"], exp_signed])
    per = float(np.sum(np.linalg.norm(np.roll(v_in, -1, axis=0) - v_in, axis=1)))
    if not ctx.close_enough(obs["perimeter"], per, Ls):
        ctx.fail(sig + ".perimeter:value", "perimeter differs from the sum of edge lengths", case,
                 [obs["perimeter"], per])
    cen = o + cx * u + cy * w
    if not ctx.close_enough(obs["centroid"], cen, Ls):
        ctx.fail(sig + ".centroid:value" + tag, "centroid differs from the exact integral", case,
                 [obs["centroid"], cen])
    if not ctx.close_enough(obs["center"], cen, Ls):
        ctx.fail(sig + ".center:value", "center differs from the centroid", case, [obs["center"], cen])
    a, b = float(o @ u), float(o @ w)
    polar = s00 + 2 * a * f0 + a * a * A + s11 + 2 * b * f1 + b * b * A
    if not ctx.close_enough(obs["polar"], polar, Ls ** 4):
        ctx.fail(sig + ".polar_moment_inertia:value", "polar moment differs from the exact integral", case,
                 [obs["polar"], polar])
    Jc = s00 + s11 - A * (cx * cx + cy * cy)
    I = Jc * np.outer(nf, nf) + A * (cen @ cen * np.eye(3) - np.outer(cen, cen))
    if not ctx.close_enough(obs["inertia"], I, Ls ** 4):
        ctx.fail(sig + ".inertia_tensor:value", "inertia tensor differs from J n n^T + parallel axis", case,
                 [obs["inertia"], I])
    if case["frame"]["plane"] == "xy" and np.allclose(N, Z) and np.allclose(R, np.eye(3), atol=1e-12):
        ox, oy = float(o[0]), float(o[1])
        ix = s11 + 2 * oy * f1 + oy * oy * A
        iy = s00 + 2 * ox * f0 + ox * ox * A
        ixy = s01 + ox * f1 + oy * f0 + ox * oy * A
        ctx.count("planar_moments_checked")
        if not ctx.close_enough(obs["planar"], [ix, iy, ixy], Ls ** 4):
            ctx.fail(sig + ".planar_moments_inertia:value" + tag,
                     "planar moments differ from the integrals of y^2, x^2, xy", case, [obs["planar"], [ix, iy, ixy]])
    # exact-rational re-evaluation of the model for xy-plane polygons (Q mode, signed-permutation R)
    if case["frame"]["plane"] == "xy" and np.all(np.abs(np.abs(R) - np.round(np.abs(R))) < 1e-15):
        Rr = np.round(R)
        try:
            qm = ctx.driver.Q("polygon.rational", L(list(verts)), np.round(N), Rr)
            ctx.count("model_Q_evaluations")
            if not ctx.close_enough(float(qm[0]), exp_signed, Ls ** 2):
                ctx.disagree("polygon.rational:signed_area(model vs spec)", case, [float(qm[0]), exp_signed])
        except ModelRaise:
            pass


def make_case(rng, ctx):
    kind, p2 = gen.polygon2d(rng)
    scale = 1.0 if rng.random() < 0.6 else float(2.0 ** int(rng.integers(-10, 11)))
    r = rng.random()
    plane = "xy" if r < 0.4 else ("neartilt" if r < 0.55 else "random")
    v, fr = gen.embed_polygon(rng, p2, plane=plane, scale=scale)
    tris = gen.ear_clip_exact((p2 * scale).tolist())
    orientation = "ccw" if rng.random() < 0.5 else "cw"
    if orientation == "cw":
        v = v[::-1].copy()
    # The constructor takes the normal from the FIRST corner (v0, v1, v2); a straight first corner is the known
    # C15 finding `Polygon.__init__:rejects-valid:straight-first-corner`, not a C04 matter: start the same cycle
    # at a vertex whose corner is clearly not straight (a cyclic shift does not change the polygon).
    for _ in range(len(v)):
        e1, e2 = v[1] - v[0], v[2] - v[1]
        if np.linalg.norm(np.cross(e1, e2)) > 1e-3 * np.linalg.norm(e1) * np.linalg.norm(e2):
            break
        v = np.roll(v, -1, axis=0)
    mode = ["default", "same", "opposite"][int(rng.integers(3))]
    normal = None
    # explicit normals are passed with a non-unit length half of the time (the constructor must normalise them)
    nlen = 1.0 if rng.random() < 0.5 else float(rng.choice([2.0, 0.5, 3.7, 1e-3, 1e3]))
    if mode == "same":
        normal = (fr["n"] * nlen).tolist()
    elif mode == "opposite":
        normal = (-fr["n"] * nlen).tolist()
    if mode != "default":
        ctx.count("normal-length:" + ("unit" if nlen == 1.0 else "non-unit"))
    cls = "Polygon"
    if kind in ("convex", "rect", "triangle") and rng.random() < 0.5:
        cls = "ConvexPolygon"
    ctx.count("kind:" + kind)
    ctx.count("orientation:" + orientation)
    ctx.count("normal:" + mode)
    ctx.count("plane:" + plane)
    ctx.count("cls:" + cls)
    return {"cls": cls, "vertices": v.tolist(), "normal": normal, "orientation": orientation, "kind": kind,
            "p2": (p2 * scale).tolist(), "tris": [list(t) for t in tris], "scale": scale,
            "frame": {"o": fr["o"].tolist(), "u": fr["u"].tolist(), "w": fr["w"].tolist(), "n": fr["n"].tolist(),
                      "plane": plane, "offset_diams": fr["offset_diams"]}}


CORPUS = [
    # minimised past failures (run first): clockwise square with explicit +z normal; rectangle in the 2nd quadrant;
    # tilted rectangle (inertia rotation direction)
    {"cls": "Polygon", "vertices": [[0, 0, 0], [0, 1, 0], [1, 1, 0], [1, 0, 0]], "normal": [0, 0, 1],
     "orientation": "cw", "kind": "rect", "p2": [[0, 0], [1, 0], [1, 1], [0, 1]], "tris": [[0, 1, 2], [0, 2, 3]],
     "scale": 1.0, "frame": {"o": [0, 0, 0], "u": [1, 0, 0], "w": [0, 1, 0], "n": [0, 0, 1], "plane": "xy",
                             "offset_diams": 0}},
    {"cls": "Polygon", "vertices": [[-3, 1, 0], [-1, 1, 0], [-1, 2, 0], [-3, 2, 0]], "normal": None,
     "orientation": "ccw", "kind": "rect", "p2": [[0, 0], [2, 0], [2, 1], [0, 1]], "tris": [[0, 1, 2], [0, 2, 3]],
     "scale": 1.0, "frame": {"o": [-3, 1, 0], "u": [1, 0, 0], "w": [0, 1, 0], "n": [0, 0, 1], "plane": "xy",
                             "offset_diams": 1}},
]


def run(ctx):
    if ctx.widen == 1:
        for case in CORPUS:
            ctx.case(case)
            eval_case(ctx, case)
        # tilted rectangle
        rng0 = np.random.default_rng(12345)
        p2 = np.array([[0, 0], [2, 0], [2, 1], [0, 1]], dtype=float)
        v, fr = gen.embed_polygon(rng0, p2, plane="random", offset_diams=1.5)
        case = {"cls": "Polygon", "vertices": v.tolist(), "normal": None, "orientation": "ccw", "kind": "rect",
                "p2": p2.tolist(), "tris": [[0, 1, 2], [0, 2, 3]], "scale": 1.0,
                "frame": {"o": fr["o"].tolist(), "u": fr["u"].tolist(), "w": fr["w"].tolist(), "n": fr["n"].tolist(),
                          "plane": "random", "offset_diams": 1.5}}
        ctx.case(case)
        eval_case(ctx, case)
    n = ctx.budget(250, 8000)
    for _ in range(n):
        case = make_case(ctx.rng, ctx)
        ctx.case(case)
        eval_case(ctx, case)


def replay(ctx, payload):
    case = payload.get("case", payload)
    ctx.case(case)
    eval_case(ctx, case)
