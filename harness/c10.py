"""C10 — circle, ellipse, sphere and ellipsoid measures equal their defining integrals."""
import math
import warnings
from fractions import Fraction

import numpy as np
from scipy import integrate, special

import history
from common import L, ModelRaise, exc_kind, read_shuffled

RULE = ("Circle/Ellipse/Sphere/Ellipsoid with semi-axes log-uniform in 1e-3..1e3 (classes: generic, exact ties of 2 or 3 "
        "axes, near-ties with relative gaps 1e-15..1e-3 incl. 1-ulp, needle/disc with aspect 10..1e6, extreme needle/disc "
        "with aspect 1e4..1e6) in every ordering (random permutation; all 6 orderings counted), centres with pairwise "
        "distinct |x|,|y|,|z| within 10 diameters (plus origin / diagonal / integer centres and TINY centres on the scale "
        "of the smallest semi-axis, where the small principal moments are not swamped by the parallel-axis term); a third "
        "of the shapes is REACHED THROUGH A HISTORY (construct elsewhere, read everything, random valid / failing axis "
        "assignments, centre assignments, reads, to_hoomd, size-setter rescalings, final assignments; some end with a "
        "rescaling) and judged on the attributes read back from the object; getters are read in a shuffled order, twice; "
        "distinct = distinct (class, axes, centre, history); non-trivial = positive axes accepted by the constructor")
ASSUMPTIONS = [
    "area/volume/moments: exact integrals are the textbook centred moments + translation law of Spec/Curved.lean, "
    "evaluated exactly over Q in units of pi by the driver (p = 1) and multiplied by the double nearest pi",
    "perimeter: 4 * adaptive Gauss-Kronrod quadrature of the arc-length integrand sqrt(a^2 sin^2 + b^2 cos^2) on "
    "[0, pi/2] (scipy.integrate.quad, epsrel 1e-13, breakpoints at the kink scale), cross-checked per case against an "
    "AGM evaluation of 4 a E(1-b^2/a^2) written in the harness (no scipy.special)",
    "ellipsoid surface: 8 * quadrature over u = cos(theta) in [0,1] of the inner phi-integral of the area element "
    "(CSpec.surfElement), the inner integral being a complete elliptic integral evaluated by the harness' AGM; every "
    "10th case with aspect <= 30 is cross-checked against a genuine 2-D quadrature (dblquad) of the area element",
    "accuracy clause: |impl - exact| <= 1e-9 * natural scale; the scale is the exact value itself for "
    "area/volume/perimeter/surface/planar+polar moments; for EVERY ENTRY of the 3-D tensor it is |entry| + 1e-4 V |c|^2 "
    "(the entry itself plus the conditioning of the unavoidable sum I0 + V(|c|^2 1 - c c^T), whose rounding is a few "
    "ulp of V|c|^2), so the small principal moments of needles/discs are compared relative to themselves whenever the "
    "centre does not swamp them; eccentricity near "
    "ties is compared with the conditioning-aware tolerance 1e-9 + 3e-16/max(e,1.5e-8) (sqrt(1-b^2/a^2) amplifies the "
    "rounding of b^2/a^2) and additionally on e^2 at 1e-9",
    "iq of Ellipse and Ellipsoid is compared RELATIVE to itself (1e-9 of the exact quotient 4 pi A/P^2 with the AGM "
    "perimeter, resp. 36 pi V^2/S^3 with the quadrature surface): needles and discs have quotients down to 1e-6; the "
    "model computes iq from area and perimeter (C10.ellipse_iq_def), compared relatively as well",
    "'at most 1' is checked as iq <= 1 + 1e-12 (rounding of 36 pi V^2/S^3 at a sphere); 'equal to 1 only for "
    "circle/sphere' is checked as iq < 1 whenever two axes differ by a relative gap >= 1e-4 (deficit ~ 3/8 gap^2)",
    "scipy.special.ellipe/ellipeinc/ellipkinc are parameters of the model; the arguments the implementation hands to "
    "them are recorded (module attributes wrapped from outside) and compared with the model's arguments; their "
    "CONTRACTS (IsEllipe / IsEllipeinc / IsEllipkinc of the Lean theorems: Legendre's integrals) are checked per case at "
    "those arguments against Carlson's R_F/R_D duplication evaluated in the Lean driver (c10.contract.*) and, on every "
    "4th case, against adaptive quadrature of Legendre's integrand",
    "Legendre certificate (hypothesis of C10.ellipsoid_iq_of_legendre: code's surface area = surface integral) is what "
    "the surface quadrature checks per case; on spheroids it is a theorem and the closed forms (arsinh / arcsin) are "
    "compared as well; the proved consequences S >= 4 pi/3 (ab+bc+ca) and iq <= 27 (abc)^2/(ab+bc+ca)^3 are checked "
    "exactly (rational bounds) on every ellipsoid",
    "shapes reached through setters: the final attributes are compared EXACTLY with the Lean state machine "
    "(c10.history.run: last successful assignment wins, failed assignments / reads / to_hoomd change nothing; which "
    "statements raise) when the history has modelled statements only; size-setter rescalings (C08's subject) are "
    "unmodelled noise and the shape is then judged on the attributes it reports",
    "Shape2D.inertia_tensor = diag(0,0,J) is a library convention (in-plane rotation only): the oracle checks its zz "
    "entry against the polar integral and the other entries only through the model correspondence",
]

KNOWN_SWAP_SIG = "Circle/Ellipse.planar_moments_inertia:parallel-axis-swapped"
# floating-point only: for a near-tie of the two LARGER axes the code's m = a^2(b^2-c^2)/(b^2(a^2-c^2)) rounds to
# 1.0000000000000002 and scipy's ellipeinc/ellipkinc return nan (over the reals 0 <= m <= 1: C10.saM_range)
NAN_SIG = "Ellipsoid.surface_area:nan:m-rounds-above-1:near-oblate-tie"
PI = math.pi

# --------------------------------------------------------------------------- independent numerics


def agm_EK(m):
    """complete elliptic integrals K(m), E(m) (parameter m = k^2, 0 <= m < 1) by the AGM."""
    a, b = 1.0, math.sqrt(1.0 - m)
    s = 0.5 * m
    p = 1.0
    for _ in range(64):
        an = 0.5 * (a + b)
        bn = math.sqrt(a * b)
        c = 0.5 * (a - b)
        a, b = an, bn
        s += p * c * c
        p *= 2.0
        if abs(c) <= 4e-16 * a:
            break
    K = PI / (2.0 * a)
    return K, K * (1.0 - s)


def quarter_arc(P, Q):
    """int_0^{pi/2} sqrt(P cos^2 t + Q sin^2 t) dt for P, Q > 0 (AGM)."""
    hi, lo = (P, Q) if P >= Q else (Q, P)
    if hi == lo:
        return math.sqrt(hi) * PI / 2.0
    return math.sqrt(hi) * agm_EK((hi - lo) / hi)[1]


def _kink_points(ratios, upper):
    pts = set()
    for r in ratios:
        for k in range(-2, 9):
            p = r * 10.0 ** k
            if 0.0 < p < upper:
                pts.add(p)
    return sorted(pts)


def perimeter_quad(a, b):
    """arc length of the ellipse by quadrature of the speed of (hi cos t, lo sin t) (kink near the flat end)."""
    hi, lo = max(a, b), min(a, b)

    def speed(t):
        # |d/dt (lo sin t', hi cos t')| form with the sharp feature at t = 0
        s, c = math.sin(t), math.cos(t)
        return math.sqrt(hi * s * (hi * s) + lo * c * (lo * c))

    with warnings.catch_warnings():
        warnings.simplefilter("ignore", integrate.IntegrationWarning)
        v, err = integrate.quad(speed, 0.0, PI / 2.0, points=_kink_points([lo / hi], PI / 2.0) or None,
                                epsabs=0.0, epsrel=1e-13, limit=600)
    return 4.0 * v, 4.0 * err


def perimeter_agm(a, b):
    hi, lo = max(a, b), min(a, b)
    if hi == lo:
        return 2.0 * PI * hi
    m = float(1 - Fraction(lo) ** 2 / Fraction(hi) ** 2)
    return 4.0 * hi * agm_EK(m)[1]


def surface_quad(a, b, c):
    """surface area: 8 * int_0^1 [int_0^{pi/2} sqrt(b^2c^2 s^2 cos^2 + a^2c^2 s^2 sin^2 + a^2b^2 u^2) dphi] du,
    s^2 = 1-u^2, u = cos(theta) measured from the c axis (the smallest axis is put there: best conditioned)."""
    c, b, a = sorted([a, b, c])

    def f(u):
        s2 = 1.0 - u * u
        return quarter_arc(b * b * c * c * s2 + a * a * b * b * u * u, a * a * c * c * s2 + a * a * b * b * u * u)

    with warnings.catch_warnings():
        warnings.simplefilter("ignore", integrate.IntegrationWarning)
        v, err = integrate.quad(f, 0.0, 1.0, points=_kink_points([c / a, c / b], 1.0) or None,
                                epsabs=0.0, epsrel=1e-13, limit=800)
    return 8.0 * v, 8.0 * err


def surface_dblquad(a, b, c):
    """genuine 2-D quadrature of the area element over the first octant (given axis order, no sorting)."""
    def g(ph, u):
        s2 = 1.0 - u * u
        cp, sp = math.cos(ph), math.sin(ph)
        return math.sqrt(b * b * c * c * s2 * cp * cp + a * a * c * c * s2 * sp * sp + a * a * b * b * u * u)

    with warnings.catch_warnings():
        warnings.simplefilter("ignore", integrate.IntegrationWarning)
        v, err = integrate.dblquad(g, 0.0, 1.0, 0.0, PI / 2.0, epsabs=0.0, epsrel=1e-11)
    return 8.0 * v, 8.0 * err


def fpi(x):
    """Fraction (in units of pi) -> float"""
    return float(x) * PI


# --------------------------------------------------------------------------- contracts of scipy.special


def check_contract_complete(ctx, case, m, E_scipy, idx):
    """IsEllipe (hypothesis of C10.perimeter_eq_arclength / ellipse_isoperimetric): scipy's ellipe(m) at the MODEL's
    argument is Legendre's integral.  Evaluated per case by Carlson duplication in the Lean driver; every 4th case also
    by adaptive quadrature of sqrt(1 - m sin^2 t)."""
    _K, E_d = ctx.driver.F("c10.contract.complete", float(m))
    ok = abs(E_scipy - E_d) <= 1e-12 * abs(E_d)
    if ok and idx % 4 == 0:
        with warnings.catch_warnings():
            warnings.simplefilter("ignore", integrate.IntegrationWarning)
            pts = [PI / 2.0 - p for p in _kink_points([math.sqrt(max(1.0 - m, 1e-300))], PI / 2.0)]
            v, err = integrate.quad(lambda t: math.sqrt(max(1.0 - m * math.sin(t) ** 2, 0.0)), 0.0, PI / 2.0,
                                    points=sorted(pts) or None, epsabs=0.0, epsrel=1e-13, limit=400)
        ctx.count("contract:ellipe-quadrature")
        ok = abs(E_scipy - v) <= 1e-10 * v + 10 * err
    ctx.count("contract:ellipe-checked")
    if not ok:
        ctx.count("contract:ellipe-BROKEN")
        ctx.contract_failures.append({"contract": "IsEllipe: scipy.special.ellipe(m) = int_0^{pi/2} sqrt(1 - m sin^2)",
                                      "case": case, "got": [m, E_scipy, E_d]})


def check_contract_incomplete(ctx, case, phi, m, F_scipy, E_scipy, idx):
    """IsEllipeinc / IsEllipkinc (hypotheses of C10.spheroid_surface_area): scipy's ellipeinc / ellipkinc at the MODEL's
    (phi, m) are Legendre's incomplete integrals.  Carlson duplication in the Lean driver per case; quadrature of both
    integrands on every 4th well-conditioned case."""
    F_d, E_d = ctx.driver.F("c10.contract.incomplete", float(phi), float(m))
    # F is ill-conditioned in phi near pi/2 for m near 1 (dF/dphi = 1/sqrt(1 - m sin^2 phi))
    amp = 1.0 / math.sqrt(max(1.0 - m * math.sin(phi) ** 2, 1e-300))
    tolF = 1e-11 * abs(F_d) + 4e-16 * amp * max(phi, 1.0)
    ok = abs(E_scipy - E_d) <= 1e-11 * abs(E_d) and abs(F_scipy - F_d) <= tolF
    if ok and idx % 4 == 0 and amp <= 1e3:
        with warnings.catch_warnings():
            warnings.simplefilter("ignore", integrate.IntegrationWarning)
            e, ee = integrate.quad(lambda t: math.sqrt(max(1.0 - m * math.sin(t) ** 2, 0.0)), 0.0, phi,
                                   epsabs=0.0, epsrel=1e-13, limit=400)
            f, fe = integrate.quad(lambda t: 1.0 / math.sqrt(max(1.0 - m * math.sin(t) ** 2, 1e-300)), 0.0, phi,
                                   epsabs=0.0, epsrel=1e-13, limit=400)
        ctx.count("contract:ellipeinc-ellipkinc-quadrature")
        ok = abs(E_scipy - e) <= 1e-10 * e + 10 * ee and abs(F_scipy - f) <= 1e-10 * f + 10 * fe
    ctx.count("contract:ellipeinc-ellipkinc-checked")
    if not ok:
        ctx.count("contract:ellipeinc-ellipkinc-BROKEN")
        ctx.contract_failures.append({"contract": "IsEllipeinc/IsEllipkinc: scipy's incomplete integrals are Legendre's",
                                      "case": case, "got": [phi, m, F_scipy, F_d, E_scipy, E_d]})


def spheroid_closed_form(lo, mid, hi):
    """surface of a spheroid from the closed forms PROVED equal to the surface integral
    (C10.spheroid_surface_closed_form); None if the three axes are distinct."""
    if lo == hi:
        return 4.0 * PI * hi * hi
    if mid == hi:       # oblate a = b > c
        a, c = Fraction(hi), Fraction(lo)
        k = math.sqrt(float(a * a - c * c))
        return 2.0 * PI * (hi * hi + hi * lo * lo / k * math.asinh(k / lo))
    if mid == lo:       # prolate a > b = c
        a, c = Fraction(hi), Fraction(lo)
        k = math.sqrt(float(a * a - c * c))
        x = k / hi
        ang = math.asin(x) if x < 0.7 else math.acos(lo / hi)
        return 2.0 * PI * (lo * lo + hi * hi * lo / k * ang)
    return None


# --------------------------------------------------------------------------- generators

AX_KINDS = ["generic", "generic", "tie2", "tie3", "near2", "near3", "near-mixed", "needle", "disc", "ulp",
            "needle-extreme", "disc-extreme"]


def _near(rng, x):
    g = 10.0 ** rng.uniform(-15, -3)
    y = x * (1.0 + g) if rng.random() < 0.5 else x * (1.0 - g)
    if y == x:
        y = float(np.nextafter(x, np.inf))
    return float(min(max(y, 1e-3), 1e3))


def gen_axes(rng, n, kind=None):
    kind = kind or AX_KINDS[int(rng.integers(len(AX_KINDS)))]
    ax = [float(10.0 ** rng.uniform(-3, 3)) for _ in range(n)]
    if n == 1:
        return ax, "generic"
    if kind == "tie2":
        ax[1] = ax[0]
    elif kind == "tie3":
        ax = [ax[0]] * n
    elif kind == "near2":
        ax[1] = _near(rng, ax[0])
    elif kind == "near3":
        ax = [ax[0]] + [_near(rng, ax[0]) for _ in range(n - 1)]
    elif kind == "near-mixed":
        ax[1] = ax[0]
        if n == 3:
            ax[2] = _near(rng, ax[0])
        else:
            ax[1] = _near(rng, ax[0])
    elif kind == "needle":
        big = float(10.0 ** rng.uniform(0, 3))
        small = float(10.0 ** rng.uniform(-3, math.log10(big) - 1))
        ax = [big] + [small * float(np.exp(rng.uniform(-0.3, 0.3))) for _ in range(n - 1)]
    elif kind == "disc":
        big = float(10.0 ** rng.uniform(0, 3))
        small = float(10.0 ** rng.uniform(-3, math.log10(big) - 1))
        ax = [big * float(np.exp(rng.uniform(-0.3, 0.3))) for _ in range(n - 1)] + [small]
    elif kind in ("needle-extreme", "disc-extreme"):
        # aspect 1e4 .. 1e6 inside 1e-3..1e3 (both ends of the scale range at once)
        big = float(10.0 ** rng.uniform(2, 3))
        small = float(10.0 ** rng.uniform(-3, -2))
        if kind == "needle-extreme":
            ax = [big] + [small * float(np.exp(rng.uniform(-0.5, 0.5))) for _ in range(n - 1)]
        else:
            ax = [big * float(np.exp(rng.uniform(-0.5, 0.5))) for _ in range(n - 1)] + [small]
        if rng.random() < 0.25:
            ax[-1 if kind == "disc-extreme" else 0] = [1e-3, 1e3][kind == "needle-extreme"]
        if n == 3 and rng.random() < 0.3:
            # exact spheroid at extreme aspect: m = 1 (oblate) or m = 0 (prolate) with phi next to pi/2
            if kind == "disc-extreme":
                ax[1] = ax[0]
            else:
                ax[2] = ax[1]
            kind += "-spheroid"
    elif kind == "ulp":
        k = int(rng.integers(1, 4))
        y = ax[0]
        for _ in range(k):
            y = float(np.nextafter(y, np.inf if rng.random() < 0.5 else -np.inf))
        ax[1] = y
        if n == 3 and rng.random() < 0.5:
            ax[2] = float(np.nextafter(ax[0], -np.inf))
    ax = [float(min(max(x, 1e-3), 1e3)) for x in ax]
    perm = rng.permutation(n)
    return [ax[i] for i in perm], kind


def gen_centre(rng, axes, kind="generic"):
    diam = 2.0 * max(axes)
    r = rng.random()
    p_tiny = 0.4 if kind.startswith(("needle", "disc")) else 0.1
    if rng.random() < p_tiny:
        # on the scale of the SMALLEST semi-axis: the parallel-axis term does not swamp the small principal moments
        for _ in range(100):
            d = rng.normal(size=3)
            d /= np.linalg.norm(d)
            c = d * float(rng.uniform(0.05, 2.0)) * min(axes)
            ab = np.abs(c)
            if min(abs(ab[0] - ab[1]), abs(ab[0] - ab[2]), abs(ab[1] - ab[2])) > 1e-3 * np.linalg.norm(c) > 0:
                return [float(v) for v in c], "tiny"
    if r < 0.04:
        return [0.0, 0.0, 0.0], "origin"
    if r < 0.08:
        t = float(rng.uniform(-10, 10) * diam / math.sqrt(3))
        return [t, t, t], "diagonal"
    if r < 0.12:
        # integer centres (numpy int array in the implementation), pairwise distinct magnitudes
        mags = [int(v) for v in rng.permutation(np.arange(1, 8))[:3]]
        c = [v if rng.random() < 0.5 else -v for v in mags]
        kmax = int(10 * diam / math.sqrt(sum(v * v for v in c)))
        if kmax >= 1:
            k = int(rng.integers(1, kmax + 1))
            return [v * k for v in c], "integer"
    for _ in range(100):
        d = rng.normal(size=3)
        d /= np.linalg.norm(d)
        c = d * float(rng.uniform(0, 10)) * diam
        ab = np.abs(c)
        # pairwise distinct magnitudes (a swap of x and y must be visible at the 1e-9 tolerance)
        if min(abs(ab[0] - ab[1]), abs(ab[0] - ab[2]), abs(ab[1] - ab[2])) > 1e-3 * np.linalg.norm(c) > 0:
            return [float(v) for v in c], "distinct"
    raise RuntimeError("centre generator")


AXIS_NAMES = {"Circle": ["radius"], "Sphere": ["radius"], "Ellipse": ["a", "b"], "Ellipsoid": ["a", "b", "c"]}
# size setters (C08's subject; unmodelled "noise" here) with the degree of the measure in the length scale
SIZE_SETTERS = {
    "Circle": {"area": 2, "perimeter": 1, "circumference": 1, "minimal_bounding_circle_radius": 1,
               "minimal_centered_bounding_circle_radius": 1, "maximal_centered_bounded_circle_radius": 1},
    "Ellipse": {"area": 2, "perimeter": 1, "circumference": 1, "minimal_bounding_circle_radius": 1,
                "minimal_centered_bounding_circle_radius": 1, "maximal_bounded_circle_radius": 1,
                "maximal_centered_bounded_circle_radius": 1},
    "Sphere": {"volume": 3, "surface_area": 2, "diameter": 1, "minimal_bounding_sphere_radius": 1,
               "minimal_centered_bounding_sphere_radius": 1, "maximal_bounded_sphere_radius": 1,
               "maximal_centered_bounded_sphere_radius": 1},
    "Ellipsoid": {"volume": 3, "surface_area": 2, "minimal_bounding_sphere_radius": 1,
                  "minimal_centered_bounding_sphere_radius": 1, "maximal_bounded_sphere_radius": 1,
                  "maximal_centered_bounded_sphere_radius": 1},
}
READABLE = {
    "Circle": ["area", "perimeter", "circumference", "eccentricity", "iq", "planar_moments_inertia",
               "polar_moment_inertia", "inertia_tensor"],
    "Ellipse": ["area", "perimeter", "circumference", "eccentricity", "iq", "planar_moments_inertia",
                "polar_moment_inertia", "inertia_tensor"],
    "Sphere": ["volume", "surface_area", "diameter", "iq", "inertia_tensor"],
    "Ellipsoid": ["volume", "surface_area", "iq", "inertia_tensor"],
}


def gen_history(rng, cls, axes, centre):
    """a history that ends in the shape (axes, centre): statements are JSON lists
         ["set", k, v]        shape.<axis k> = v            (v <= 0 / nan: raises ValueError, nothing changes)
         ["cen", attr, q]     shape.centroid|center = q
         ["read", names]      read the named getters ("all": every public property and the usual queries, history.warm)
         ["hoomd"]            shape.to_hoomd()
         ["size", name, k]    shape.<size setter> = (its current value) * k**degree   (a rescaling; unmodelled noise)
    """
    n = len(axes)
    flat = cls in ("Circle", "Ellipse")
    big = max(axes)

    def other_centre():
        q = [float(x + rng.uniform(-2, 2) * big) for x in centre]
        if flat:
            q[2] = float(centre[2])
        return q

    axes0 = [float(min(max(x * np.exp(rng.uniform(-1.5, 1.5)), 1e-3), 1e3)) for x in axes]
    centre0 = other_centre()
    if rng.random() < 0.25:
        axes0, centre0 = list(axes), [float(v) for v in centre]     # starts AT the target, leaves it, comes back
    steps = [["read", "all"]]
    cur = list(axes0)          # None where a rescaling made the value approximate
    curc = list(centre0)
    noise = rng.random() < 0.35
    for _ in range(int(rng.integers(0, 6))):
        r = rng.random()
        if r < 0.30:
            k = int(rng.integers(n))
            v = float(min(max(axes[k] * np.exp(rng.uniform(-1.5, 1.5)), 1e-3), 1e3))
            steps.append(["set", k, v])
            cur[k] = v
        elif r < 0.42:
            k = int(rng.integers(n))
            v = [0.0, -float(axes[k]), -1e-3, float("nan")][int(rng.integers(4))]
            steps.append(["set", k, v])                      # raises; nothing changes
        elif r < 0.57:
            curc = other_centre()
            steps.append(["cen", ["centroid", "center"][int(rng.integers(2))], curc])
        elif r < 0.77:
            names = [READABLE[cls][i] for i in rng.permutation(len(READABLE[cls]))[:int(rng.integers(1, 4))]]
            steps.append(["read", names])
        elif r < 0.87 and not flat:
            steps.append(["hoomd"])                          # (Circle / Ellipse have no to_hoomd)
        elif noise:
            names = sorted(SIZE_SETTERS[cls])
            steps.append(["size", names[int(rng.integers(len(names)))], float(np.exp(rng.uniform(-0.4, 0.4)))])
            cur = [None] * n
    # final assignments of whatever is not at the target, shuffled, reads in between
    todo = [k for k in range(n) if cur[k] is None or cur[k] != axes[k]]
    if curc != [float(v) for v in centre]:
        todo.append(n)
    for k in [todo[i] for i in rng.permutation(len(todo))]:
        if k < n:
            steps.append(["set", k, float(axes[k])])
        else:
            steps.append(["cen", ["centroid", "center"][int(rng.integers(2))], [float(v) for v in centre]])
        if rng.random() < 0.2:
            steps.append(["read", [READABLE[cls][int(rng.integers(len(READABLE[cls])))]]])
    ends = "assignment"
    if noise and rng.random() < 0.4:
        # the LAST mutation is a rescaling: the shape is judged on the attributes it then reports
        names = sorted(SIZE_SETTERS[cls])
        steps.append(["size", names[int(rng.integers(len(names)))], float(np.exp(rng.uniform(-0.3, 0.3)))])
        ends = "rescale"
    return {"axes0": axes0, "center0": centre0, "steps": steps, "ends": ends}


def make_case(rng, cls, ctx):
    n = {"Circle": 1, "Sphere": 1, "Ellipse": 2, "Ellipsoid": 3}[cls]
    axes, kind = gen_axes(rng, n)
    centre, ckind = gen_centre(rng, axes, kind)
    case = {"cls": cls, "axes": axes, "center": centre, "info": {"axes_kind": kind, "centre_kind": ckind}}
    if rng.random() < 0.35:
        # the same shape REACHED THROUGH A HISTORY.  The property speaks about the shape with its current axes, however
        # it got them.
        case["via"] = gen_history(rng, cls, axes, centre)
        ctx.count("constructed:via-history")
        ctx.count("history:ends-with-" + case["via"]["ends"])
        if any(st[0] == "size" for st in case["via"]["steps"]):
            ctx.count("history:with-rescaling")
    return case


# --------------------------------------------------------------------------- observation


class Recorder:
    """wrap a module-level scipy.special function of coxeter from outside, recording (args, value)."""

    def __init__(self, module, name):
        self.module, self.name = module, name
        self.calls = []

    def __enter__(self):
        self.orig = getattr(self.module, self.name)

        def wrapped(*args):
            v = self.orig(*args)
            self.calls.append(([float(a) for a in args], float(v)))
            return v

        setattr(self.module, self.name, wrapped)
        return self

    def __exit__(self, *exc):
        setattr(self.module, self.name, self.orig)


def construct(case):
    """build the shape of the case (directly, or through its history).  Returns (object, trace) where trace lists, per
    statement of the history, the kind of exception it raised (None if none)."""
    import coxeter
    cls = getattr(coxeter.shapes, case["cls"])
    via = case.get("via")
    if not via:
        return cls(*case["axes"], center=case["center"]), []
    if "steps" not in via:
        # replay of an older corpus case (lead's first `via` format)
        steps = [["read", "all"]]
        n = len(case["axes"])
        for k in via["order"]:
            steps.append(["set", k, case["axes"][k]] if k < n else ["cen", via["centre_attr"], case["center"]])
        via = dict(via, steps=steps)
    s = cls(*via["axes0"], center=via["center0"])
    names = AXIS_NAMES[case["cls"]]
    trace = []
    for st in via["steps"]:
        try:
            if st[0] == "set":
                setattr(s, names[st[1]], st[2])
            elif st[0] == "cen":
                setattr(s, st[1], np.array(st[2], dtype=float))
            elif st[0] == "read":
                if st[1] == "all":
                    history.warm(s)
                else:
                    for nm in st[1]:
                        getattr(s, nm)
            elif st[0] == "hoomd":
                s.to_hoomd()
            elif st[0] == "size":
                deg = SIZE_SETTERS[case["cls"]][st[1]]
                try:
                    cur = float(getattr(s, st[1]))
                except Exception:  # noqa: BLE001  (e.g. a bounded-circle getter that is not implemented: skip)
                    trace.append("skipped")
                    continue
                setattr(s, st[1], cur * st[2] ** deg)
            trace.append(None)
        except Exception as e:  # noqa: BLE001
            trace.append(exc_kind(e))
    return s, trace


def read_attrs(case, s):
    """the attributes the object reports NOW: this is the shape the property speaks about"""
    axes = [float(getattr(s, nm)) for nm in AXIS_NAMES[case["cls"]]]
    cen = [float(v) for v in np.asarray(s.centroid, dtype=float).ravel()]
    return axes, cen


def check_history(ctx, case, s, trace, axes, cen):
    """B for the attribute state machine.  Returns the case to judge (attributes read back)."""
    via = case.get("via")
    if not via:
        if axes != [float(v) for v in case["axes"]] or cen != [float(v) for v in case["center"]]:
            ctx.disagree("c10.history.run:constructor-attributes", case, [axes, cen])
        return case
    steps = via.get("steps")
    modelled = steps is not None and not any(st[0] == "size" for st in steps)
    if modelled:
        enc = []
        for st in steps:
            if st[0] == "set":
                enc.append([int(st[1]), float(st[2]), [0.0, 0.0, 0.0]])
            elif st[0] == "cen":
                enc.append([3, 0.0, [float(v) for v in st[2]]])
            elif st[0] == "read":
                enc.append([4, 0.0, [0.0, 0.0, 0.0]])
            else:
                enc.append([5, 0.0, [0.0, 0.0, 0.0]])
        r = ctx.driver.F("c10.history.run", L([float(v) for v in via["axes0"]]), [float(v) for v in via["center0"]], L(enc))
        n = len(axes)
        m_axes, m_cen, m_raise = r[:3][:n], r[3:6], r[6:]
        if m_axes != axes or m_cen != cen:
            ctx.disagree("c10.history.run:final-attributes", case, {"impl": [axes, cen], "model": [m_axes, m_cen]})
        if [t is not None for t in trace] != list(m_raise) or any(t not in (None, "ValueError") for t in trace):
            ctx.disagree("c10.history.run:raises", case, {"impl": trace, "model": m_raise})
        ctx.count("history:state-machine-compared")
    if via.get("ends", "assignment") == "assignment":
        # the history ends with assignments of the target: the object must report exactly the target
        if axes != [float(v) for v in case["axes"]] or cen != [float(v) for v in case["center"]]:
            ctx.disagree("c10.history.run:read-back", case, {"reported": [axes, cen]})
    judged = dict(case)
    judged["axes"], judged["center"] = axes, cen
    return judged


def rel_gap(x, y):
    return abs(x - y) / max(x, y)


def ordering_name(axes):
    return "order:" + "".join(str(i) for i in np.argsort(np.argsort(axes, kind="stable"), kind="stable"))


# --------------------------------------------------------------------------- 2-D shapes


def check_planar(ctx, case, cls, obs, exact, exact0):
    """C for planar / polar moments.  exact = (A, Ix, Iy, Ixy, J) Fractions in units of pi at the centre,
    exact0 = same at centre 0."""
    cx, cy = Fraction(case["center"][0]), Fraction(case["center"][1])
    A, Ix, Iy, Ixy, J = exact
    ix, iy, ixy = obs["planar"]
    okx = ctx.close_enough(ix, fpi(Ix), fpi(Ix))
    oky = ctx.close_enough(iy, fpi(Iy), fpi(Iy))
    if not (okx and oky):
        # what the code is known to do: centroidal terms right, A*cx^2 added to I_x and A*cy^2 to I_y
        Ix_sw = exact0[1] + A * cx * cx
        Iy_sw = exact0[2] + A * cy * cy
        if (ctx.close_enough(ix, fpi(Ix_sw), fpi(Ix_sw)) and ctx.close_enough(iy, fpi(Iy_sw), fpi(Iy_sw))
                and cx * cx != cy * cy):
            ctx.count("known:parallel-axis-swapped")
            ctx.fail(KNOWN_SWAP_SIG,
                     "%s.planar_moments_inertia adds area*cx^2 to I_x and area*cy^2 to I_y (swapped)" % cls,
                     case, {"got": [ix, iy], "exact": [fpi(Ix), fpi(Iy)]})
        else:
            ctx.fail("%s.planar_moments_inertia:value" % cls,
                     "I_x / I_y differ from the integrals of y^2 / x^2 (and not by the known x/y swap of the "
                     "parallel-axis terms)", case, {"got": [ix, iy], "exact": [fpi(Ix), fpi(Iy)],
                                                    "known_swapped_values": [fpi(Ix_sw), fpi(Iy_sw)]})
    sxy = abs(fpi(Ixy)) + 1e-300
    if not ctx.close_enough(ixy, fpi(Ixy), sxy):
        ctx.fail("%s.planar_moments_inertia:i_xy" % cls, "I_xy differs from the integral of x*y", case,
                 {"got": ixy, "exact": fpi(Ixy)})
    if not ctx.close_enough(obs["polar"], fpi(J), fpi(J)):
        ctx.fail("%s.polar_moment_inertia:value" % cls, "polar moment differs from the integral of x^2+y^2", case,
                 {"got": obs["polar"], "exact": fpi(J)})
    if not ctx.close_enough(obs["inertia"][2, 2], fpi(J), fpi(J)):
        ctx.fail("%s.inertia_tensor:zz" % cls, "inertia_tensor[2,2] differs from the integral of x^2+y^2", case,
                 {"got": obs["inertia"][2, 2], "exact": fpi(J)})


def _same(x, y, scale):
    x, y = np.asarray(x, dtype=float), np.asarray(y, dtype=float)
    if not (np.all(np.isfinite(x)) and np.all(np.isfinite(y))):
        return bool(np.array_equal(np.isnan(x), np.isnan(y)))
    return bool(np.all(np.abs(x - y) <= 1e-9 * scale))


def read_twice(ctx, case, cls, getters):
    """read the getters in an order drawn per case, then once more in the reverse order: an answer must not depend on
    what was asked before (a value cached by / for another query, a cache filled in a temporary frame)."""
    first, order = read_shuffled(getters, [case["cls"], case["axes"], case["center"]])
    ctx.count("first-query:" + order[0])
    for nm in reversed(order):
        again = getters[nm]()
        try:
            x, y = np.asarray(first[nm], dtype=float), np.asarray(again, dtype=float)
        except (TypeError, ValueError):
            continue
        if not _same(x, y, float(np.max(np.abs(x))) if x.size and np.all(np.isfinite(x)) else 1.0):
            ctx.fail("%s.%s:order-dependent" % (cls, nm), "the value reported depends on which other getters were read "
                     "before", case, {"first": first[nm], "again": again, "order": order})
    return first


def observe2d(ctx, case, s):
    g = {"area": lambda: float(s.area), "ecc": lambda: s.eccentricity, "perimeter": lambda: float(s.perimeter),
         "circumference": lambda: float(s.circumference),
         "planar": lambda: [float(v) for v in s.planar_moments_inertia],
         "polar": lambda: float(s.polar_moment_inertia),
         "inertia": lambda: np.array(s.inertia_tensor, dtype=float), "iq": lambda: s.iq}
    return read_twice(ctx, case, case["cls"], g)


def observe3d(ctx, case, s):
    g = {"volume": lambda: float(s.volume), "surface": lambda: float(s.surface_area),
         "inertia": lambda: np.array(s.inertia_tensor, dtype=float), "iq": lambda: s.iq}
    if case["cls"] == "Sphere":
        g["diameter"] = lambda: float(s.diameter)
    return read_twice(ctx, case, case["cls"], g)


def compare_2d_model(ctx, case, op, obs, r, ecc_tol):
    """B: r = [area ecc perimeter circumference ix iy ixy polar inertia(9) iq]"""
    names = ["area", "ecc", "perimeter", "circumference"]
    for k, nm in enumerate(names):
        tol_scale = abs(r[k]) if nm != "ecc" else None
        if nm == "ecc":
            if not abs(float(obs["ecc"]) - r[k]) <= ecc_tol:
                ctx.disagree(op + ":eccentricity", case, [float(obs["ecc"]), r[k]])
        elif not ctx.close_enough(obs[nm], r[k], tol_scale):
            ctx.disagree(op + ":" + nm, case, [obs[nm], r[k]])
    for k in range(3):
        if not ctx.close_enough(obs["planar"][k], r[4 + k], abs(r[4 + k]) + 1e-300):
            ctx.disagree(op + ":planar[%d]" % k, case, [obs["planar"], r[4:7]])
    if not ctx.close_enough(obs["polar"], r[7], abs(r[7])):
        ctx.disagree(op + ":polar", case, [obs["polar"], r[7]])
    mI = np.array(r[8:17]).reshape(3, 3)
    if not ctx.close_enough(obs["inertia"], mI, abs(r[7])):
        ctx.disagree(op + ":inertia_tensor", case, [obs["inertia"], mI])
    # relative to itself: the quotient of a needle is tiny (~ pi b / (4 a)); the model computes it from A and p
    # (C10.ellipse_iq_def), so an implementation that derives it from the rounded eccentricity disagrees here
    if not ctx.close_enough(float(obs["iq"]), r[17], abs(r[17])):
        ctx.disagree(op + ":iq", case, [float(obs["iq"]), r[17]])


def eval_circle(ctx, case):
    s, trace = construct(case)
    axes, cen = read_attrs(case, s)
    case = check_history(ctx, case, s, trace, axes, cen)
    (r_,) = axes
    obs = observe2d(ctx, case, s)
    # ---- B
    m = ctx.driver.F("c10.circle.all", r_, cen)
    compare_2d_model(ctx, case, "c10.circle.all", obs, m, 0.0)
    if not (isinstance(obs["ecc"], (int, np.integer)) and obs["ecc"] == 0 and m[1] == 0.0):
        ctx.disagree("c10.circle.all:eccentricity-literal", case, [repr(obs["ecc"]), m[1]])
    if not (isinstance(obs["iq"], (int, np.integer)) and obs["iq"] == 1 and m[17] == 1.0):
        ctx.disagree("c10.circle.all:iq-literal", case, [repr(obs["iq"]), m[17]])
    # ---- C
    q = ctx.driver.Q("c10.spec.disc", 1.0, r_, cen[0], cen[1])
    q0 = ctx.driver.Q("c10.spec.disc", 1.0, r_, 0.0, 0.0)
    A = q[0]
    if not ctx.close_enough(obs["area"], fpi(A), fpi(A)):
        ctx.fail("Circle.area:value", "area differs from pi r^2", case, [obs["area"], fpi(A)])
    P = 2 * Fraction(r_)
    Pq, perr = perimeter_quad(r_, r_)
    if abs(Pq - fpi(P)) > 1e-11 * fpi(P):
        ctx.contract_failures.append({"contract": "oracle self-check: quadrature of the circle's arc length", "case": case})
    for nm in ("perimeter", "circumference"):
        if not ctx.close_enough(obs[nm], fpi(P), fpi(P)):
            ctx.fail("Circle.%s:value" % nm, "%s differs from the arc length 2 pi r" % nm, case, [obs[nm], fpi(P)])
    if obs["ecc"] != 0:
        ctx.fail("Circle.eccentricity:value", "eccentricity of a circle is not 0", case, repr(obs["ecc"]))
    if obs["iq"] != 1:
        ctx.fail("Circle.iq:value", "isoperimetric quotient of a circle is not 1", case, repr(obs["iq"]))
    # iq definition on the reported measures
    if not ctx.close_enough(4 * PI * obs["area"] / obs["perimeter"] ** 2, 1.0, 1.0):
        ctx.fail("Circle.iq:definition", "4 pi A / P^2 of the reported area and perimeter is not 1", case,
                 [obs["area"], obs["perimeter"]])
    check_planar(ctx, case, "Circle", obs, q, q0)


def eval_ellipse(ctx, case, idx=0):
    import coxeter.shapes.ellipse as emod
    s, trace = construct(case)
    axes, cen = read_attrs(case, s)
    case = check_history(ctx, case, s, trace, axes, cen)
    a, b = axes
    with Recorder(emod, "ellipe") as rec:
        obs = observe2d(ctx, case, s)
    hi, lo = max(a, b), min(a, b)
    e2_exact = 1 - Fraction(lo) ** 2 / Fraction(hi) ** 2
    e_exact = math.sqrt(float(e2_exact))
    ecc_tol = 1e-9 + 3e-16 / max(e_exact, 1.5e-8)
    # ---- B
    arg, _ = ctx.driver.F("c10.ellipse.args", a, b)
    if not rec.calls:
        ctx.disagree("c10.ellipse.args:no-call", case, "implementation did not call ellipe")
    for (args, _v) in rec.calls:
        if len(args) != 1 or not abs(args[0] - arg) <= 1e-9:
            ctx.disagree("c10.ellipse.args:ellipe-argument", case, [args, arg])
            break
    E = float(special.ellipe(arg))
    check_contract_complete(ctx, case, arg, E, idx)
    m = ctx.driver.F("c10.ellipse.all", a, b, cen, E)
    compare_2d_model(ctx, case, "c10.ellipse.all", obs, m, ecc_tol)
    # ---- C
    q = ctx.driver.Q("c10.spec.ellipse", 1.0, a, b, cen[0], cen[1])
    q0 = ctx.driver.Q("c10.spec.ellipse", 1.0, a, b, 0.0, 0.0)
    A = q[0]
    if not ctx.close_enough(obs["area"], fpi(A), fpi(A)):
        ctx.fail("Ellipse.area:value", "area differs from pi a b", case, [obs["area"], fpi(A)])
    Pq, perr = perimeter_quad(a, b)
    Pa = perimeter_agm(a, b)
    P = Pa
    if perr > 1e-11 * Pq or abs(Pq - Pa) > 1e-11 * Pa:
        ctx.contract_failures.append({"contract": "oracle self-check: arc-length quadrature vs AGM", "case": case,
                                      "got": [Pq, perr, Pa]})
        ctx.count("oracle:perimeter-unreliable")
    else:
        for nm in ("perimeter", "circumference"):
            if not ctx.close_enough(obs[nm], Pq, Pq):
                ctx.fail("Ellipse.%s:value" % nm, "%s differs from the arc-length integral" % nm, case, [obs[nm], Pq, Pa])
    ecc = float(obs["ecc"])
    if not (abs(ecc - e_exact) <= ecc_tol and abs(ecc * ecc - float(e2_exact)) <= 1e-9):
        ctx.fail("Ellipse.eccentricity:value", "eccentricity differs from sqrt(max^2-min^2)/max", case, [ecc, e_exact])
    if not (0.0 <= ecc < 1.0):
        ctx.fail("Ellipse.eccentricity:range", "eccentricity outside [0,1)", case, ecc)
    iq = float(obs["iq"])
    iq_exact = min(4 * PI * fpi(A) / (P * P), 1.0)
    # RELATIVE to the exact quotient (the AGM perimeter is independent of scipy and of the eccentricity): the quotient of
    # a needle is ~ pi b / (4 a), down to 2.5e-6 inside the range, and an absolute comparison would see nothing
    if not ctx.close_enough(iq, iq_exact, iq_exact):
        ctx.fail("Ellipse.iq:value", "iq differs from 4 pi A / P^2 of the exact area and perimeter by more than 1e-9 of "
                 "itself", case, {"got": iq, "exact": iq_exact, "rel": abs(iq - iq_exact) / iq_exact,
                                  "aspect": hi / lo})
    if hi / lo >= 1e4:
        ctx.count("iq:ellipse-aspect>=1e%d" % min(int(math.floor(math.log10(hi / lo) + 1e-9)), 6))
    if not iq <= 1.0 + 1e-12:
        ctx.fail("Ellipse.iq:at-most-1", "iq exceeds 1", case, iq)
    if rel_gap(a, b) >= 1e-4 and not iq < 1.0:
        ctx.fail("Ellipse.iq:equality-only-for-circle", "iq = 1 for a non-circular ellipse", case, iq)
    if a == b and not ctx.close_enough(iq, 1.0, 1.0):
        ctx.fail("Ellipse.iq:circle", "iq of a circular ellipse is not 1", case, iq)
    check_planar(ctx, case, "Ellipse", obs, q, q0)


# --------------------------------------------------------------------------- 3-D shapes


def check_inertia3(ctx, case, cls, obs, q, axes):
    V = q[0]
    I = np.array([fpi(x) for x in q[1:10]]).reshape(3, 3)
    if not ctx.close_enough(obs["volume"], fpi(V), fpi(V)):
        ctx.fail("%s.volume:value" % cls, "volume differs from 4/3 pi abc", case, [obs["volume"], fpi(V)])
    c = np.array([float(v) for v in case["center"]])
    scale = fpi(V) * (max(axes) ** 2 + float(c @ c))
    if not ctx.close_enough(obs["inertia"], I, scale):
        d = np.abs(obs["inertia"] - I)
        k = int(np.argmax(d))
        part = "diagonal" if k // 3 == k % 3 else "off-diagonal"
        ctx.fail("%s.inertia_tensor:%s" % (cls, part), "inertia tensor about the origin differs from the integral of "
                 "|r|^2 1 - r r^T", case, {"got": obs["inertia"], "exact": I})
    # EVERY ENTRY relative to itself plus the conditioning of the parallel-axis sum (a few ulp of V|c|^2): the small
    # principal moments of needles / discs are not hidden behind the large ones
    Vc2 = fpi(V) * float(c @ c)
    tol = 1e-9 * np.abs(I) + 1e-13 * Vc2
    bad = np.abs(obs["inertia"] - I) > tol
    if np.any(bad) and np.all(np.isfinite(obs["inertia"])):
        i, j = [int(v) for v in np.argwhere(bad)[0]]
        ctx.fail("%s.inertia_tensor:entry-relative%s" % (cls, ":principal" if i == j else ":product"),
                 "an entry of the inertia tensor differs from its integral by more than 1e-9 of the entry (plus the "
                 "conditioning 1e-13 V|c|^2 of the parallel-axis sum)", case,
                 {"entry": [i, j], "got": float(obs["inertia"][i, j]), "exact": float(I[i, j]),
                  "rel": float(abs(obs["inertia"][i, j] - I[i, j]) / max(abs(I[i, j]), 1e-300))})
    if not np.any(c):
        ctx.count("inertia:centred")
    elif Vc2 <= 1e3 * float(np.min(np.abs(np.diag(I)))):
        ctx.count("inertia:small-moment-visible")


def eval_sphere(ctx, case):
    s, trace = construct(case)
    axes, cen = read_attrs(case, s)
    case = check_history(ctx, case, s, trace, axes, cen)
    (r_,) = axes
    obs = observe3d(ctx, case, s)
    # ---- B
    m = ctx.driver.F("c10.sphere.all", r_, cen)
    for k, nm in enumerate(["volume", "surface", "diameter"]):
        if not ctx.close_enough(obs[nm], m[k], abs(m[k])):
            ctx.disagree("c10.sphere.all:" + nm, case, [obs[nm], m[k]])
    mI = np.array(m[3:12]).reshape(3, 3)
    c = np.array(cen)
    scale = m[0] * (r_ ** 2 + float(c @ c))
    if not ctx.close_enough(obs["inertia"], mI, scale):
        ctx.disagree("c10.sphere.all:inertia_tensor", case, [obs["inertia"], mI])
    if not (isinstance(obs["iq"], (int, np.integer)) and obs["iq"] == 1 and m[12] == 1.0):
        ctx.disagree("c10.sphere.all:iq-literal", case, [repr(obs["iq"]), m[12]])
    # ---- C
    q = ctx.driver.Q("c10.spec.ball", 1.0, r_, cen)
    check_inertia3(ctx, case, "Sphere", obs, q, [r_])
    S = 4 * Fraction(r_) ** 2
    if not ctx.close_enough(obs["surface"], fpi(S), fpi(S)):
        ctx.fail("Sphere.surface_area:value", "surface area differs from 4 pi r^2", case, [obs["surface"], fpi(S)])
    if obs["iq"] != 1:
        ctx.fail("Sphere.iq:value", "isoperimetric quotient of a sphere is not 1", case, repr(obs["iq"]))
    if not ctx.close_enough(PI * 36 * obs["volume"] ** 2 / obs["surface"] ** 3, 1.0, 1.0):
        ctx.fail("Sphere.iq:definition", "36 pi V^2 / S^3 of the reported volume and surface is not 1", case,
                 [obs["volume"], obs["surface"]])
    if not ctx.close_enough(obs["diameter"], 2 * r_, 2 * r_):
        ctx.fail("Sphere.diameter:value", "diameter is not 2 r", case, obs["diameter"])


def eval_ellipsoid(ctx, case, idx=0):
    import coxeter.shapes.ellipsoid as emod
    s, trace = construct(case)
    axes, cen = read_attrs(case, s)
    case = check_history(ctx, case, s, trace, axes, cen)
    a, b, c_ = axes
    with Recorder(emod, "ellipeinc") as recE, Recorder(emod, "ellipkinc") as recK:
        obs = observe3d(ctx, case, s)
        obs["iq"] = float(obs["iq"])
    lo, mid, hi = sorted([a, b, c_])
    # ---- B
    br, phi, mm, s_lo, s_mid, s_hi = ctx.driver.F("c10.ellipsoid.args", a, b, c_)
    if [s_lo, s_mid, s_hi] != [lo, mid, hi]:
        ctx.disagree("c10.ellipsoid.args:sorted", case, [[s_lo, s_mid, s_hi], [lo, mid, hi]])
    if br != (hi > lo):
        ctx.disagree("c10.ellipsoid.args:branch", case, [br, hi > lo])
    if br:
        if not (recE.calls and recK.calls):
            ctx.disagree("c10.ellipsoid.args:no-call", case, "implementation did not call ellipeinc/ellipkinc")
        m_tol = 1e-9 + 1e-15 * hi * hi / (hi * hi - lo * lo)
        for (args, _v) in recE.calls + recK.calls:
            if len(args) != 2 or not (abs(args[0] - phi) <= 1e-9 and abs(args[1] - mm) <= m_tol):
                ctx.disagree("c10.ellipsoid.args:elliptic-arguments", case, [args, [phi, mm]])
                break
        E = float(special.ellipeinc(phi, mm))
        K = float(special.ellipkinc(phi, mm))
        check_contract_incomplete(ctx, case, phi, mm, K, E, idx)
    else:
        if recE.calls or recK.calls:
            ctx.disagree("c10.ellipsoid.args:unexpected-call", case, "implementation called elliptic integrals at a sphere")
        E = K = 0.0
    m = ctx.driver.F("c10.ellipsoid.all", a, b, c_, cen, E, K)
    for k, nm in enumerate(["volume", "surface"]):
        if not ctx.close_enough(obs[nm], m[k], abs(m[k])):
            ctx.disagree("c10.ellipsoid.all:" + nm, case, [obs[nm], m[k]])
    mI = np.array(m[2:11]).reshape(3, 3)
    cv = np.array(cen)
    scale = m[0] * (hi ** 2 + float(cv @ cv))
    if not ctx.close_enough(obs["inertia"], mI, scale):
        ctx.disagree("c10.ellipsoid.all:inertia_tensor", case, [obs["inertia"], mI])
    if not ctx.close_enough(obs["iq"], m[11], abs(m[11])):
        ctx.disagree("c10.ellipsoid.all:iq", case, [obs["iq"], m[11]])
    # ---- C
    q = ctx.driver.Q("c10.spec.ellipsoid", 1.0, a, b, c_, cen)
    check_inertia3(ctx, case, "Ellipsoid", obs, q, [a, b, c_])
    if not math.isfinite(obs["surface"]):
        m_impl = recE.calls[0][0][1] if recE.calls else float("nan")
        if br and m_impl > 1.0 and mid < hi and rel_gap(hi, mid) <= 1e-13 and rel_gap(hi, lo) > 1e-13:
            ctx.count("known:surface-nan-m-above-1")
            ctx.fail(NAN_SIG, "Ellipsoid.surface_area (and iq) is nan: m rounds above 1 for a near-tie of the two "
                     "larger semi-axes and scipy's incomplete elliptic integrals return nan", case,
                     {"surface_area": obs["surface"], "iq": obs["iq"], "m": m_impl})
        else:
            ctx.fail("Ellipsoid.surface_area:not-finite", "surface area is not finite", case,
                     {"surface_area": obs["surface"], "m": m_impl})
        return  # iq = 36 pi V^2 / S^3 inherits the non-finite surface
    S, serr = surface_quad(a, b, c_)
    reliable = serr <= 1e-11 * S
    if reliable and idx % 10 == 0 and hi / lo <= 30.0:
        S2, e2 = surface_dblquad(a, b, c_)
        ctx.count("oracle:surface-2d-crosscheck")
        if abs(S2 - S) > 1e-10 * S + e2:
            reliable = False
    if not reliable:
        ctx.contract_failures.append({"contract": "oracle self-check: surface quadrature", "case": case, "got": [S, serr]})
        ctx.count("oracle:surface-unreliable")
    else:
        if not ctx.close_enough(obs["surface"], S, S):
            ctx.fail("Ellipsoid.surface_area:value", "surface area differs from the surface integral", case,
                     [obs["surface"], S])
        iq_exact = 36 * PI * fpi(q[0]) ** 2 / S ** 3
        # RELATIVE (needles / discs have tiny quotients); the quadrature error of S enters three times
        if not abs(obs["iq"] - iq_exact) <= (1e-9 + 3.0 * serr / S) * iq_exact:
            ctx.fail("Ellipsoid.iq:value", "iq differs from 36 pi V^2 / S^3 of the exact volume and surface by more than "
                     "1e-9 of itself", case, {"got": obs["iq"], "exact": iq_exact,
                                              "rel": abs(obs["iq"] - iq_exact) / iq_exact, "aspect": hi / lo})
    Scf = spheroid_closed_form(lo, mid, hi)
    if Scf is not None:
        ctx.count("oracle:spheroid-closed-form")
        if not ctx.close_enough(obs["surface"], Scf, Scf):
            ctx.fail("Ellipsoid.surface_area:spheroid-closed-form", "surface area of a spheroid differs from the closed "
                     "form (arsinh / arcsin) proved equal to the surface integral", case, [obs["surface"], Scf])
        if reliable and abs(S - Scf) > 1e-10 * Scf:
            ctx.contract_failures.append({"contract": "oracle self-check: quadrature vs spheroid closed form",
                                          "case": case, "got": [S, Scf]})
    # proved consequences of 'surface area = surface integral' (C10.surfaceIntegral_facts / ellipsoid_isoperimetric),
    # exact rational bounds in units of pi
    fa, fb, fc = Fraction(a), Fraction(b), Fraction(c_)
    sig = fa * fb + fb * fc + fc * fa
    if not obs["surface"] >= fpi(Fraction(4, 3) * sig) * (1.0 - 1e-9):
        ctx.fail("Ellipsoid.surface_area:lower-bound", "surface area below 4 pi/3 (ab+bc+ca), a lower bound of the surface "
                 "integral", case, [obs["surface"], fpi(Fraction(4, 3) * sig)])
    iq_bound = float(27 * (fa * fb * fc) ** 2 / sig ** 3)
    if not obs["iq"] <= iq_bound * (1.0 + 6e-9):
        ctx.fail("Ellipsoid.iq:isoperimetric-bound", "iq exceeds 27 (abc)^2/(ab+bc+ca)^3, an upper bound of 36 pi V^2/S^3 "
                 "for the surface integral S", case, [obs["iq"], iq_bound])
    if not obs["iq"] <= 1.0 + 1e-12:
        ctx.fail("Ellipsoid.iq:at-most-1", "iq exceeds 1", case, obs["iq"])
    if rel_gap(hi, lo) >= 1e-4 and not obs["iq"] < 1.0:
        ctx.fail("Ellipsoid.iq:equality-only-for-sphere", "iq = 1 for a non-spherical ellipsoid", case, obs["iq"])
    if hi == lo:
        if not ctx.close_enough(obs["iq"], 1.0, 1.0):
            ctx.fail("Ellipsoid.iq:sphere", "iq of a spherical ellipsoid is not 1", case, obs["iq"])
        S4 = fpi(4 * Fraction(hi) ** 2)
        if not ctx.close_enough(obs["surface"], S4, S4):
            ctx.fail("Ellipsoid.surface_area:sphere", "surface area of a spherical ellipsoid is not 4 pi r^2", case,
                     [obs["surface"], S4])


EVAL = {"Circle": eval_circle, "Ellipse": eval_ellipse, "Sphere": eval_sphere, "Ellipsoid": eval_ellipsoid}


def eval_case(ctx, case, idx=0):
    cls = case["cls"]
    if case.get("invalid"):
        return eval_invalid(ctx, case)
    try:
        if cls in ("Ellipsoid", "Ellipse"):
            EVAL[cls](ctx, case, idx)
        else:
            EVAL[cls](ctx, case)
    except ModelRaise as e:
        ctx.disagree(cls + ":model-raised", case, e.kind)
    except (ValueError, ZeroDivisionError, FloatingPointError, TypeError, IndexError, AttributeError) as e:
        ctx.fail("%s:raises" % cls, "a getter raised %s on a valid shape" % exc_kind(e), case, repr(e))


def eval_invalid(ctx, case):
    """constructor validation (outside the quantifier; correspondence of the raise only)."""
    try:
        construct(case)
        impl = "ok"
    except Exception as e:  # noqa: BLE001
        impl = exc_kind(e)
    try:
        ctx.driver.F("c10.curved.validate", L([float(v) for v in case["axes"]]))
        model = "ok"
    except ModelRaise as e:
        model = e.kind
    if impl != model:
        ctx.disagree("c10.curved.validate", case, [impl, model])


WITNESSES = [
    {"cls": "Circle", "axes": [1.0], "center": [2, 3, 0], "info": {"axes_kind": "witness", "centre_kind": "integer"}},
    {"cls": "Ellipse", "axes": [2.0, 1.0], "center": [2, 3, 0], "info": {"axes_kind": "witness", "centre_kind": "integer"}},
    {"cls": "Ellipse", "axes": [1.0, 2.0], "center": [1, 1, 1], "info": {"axes_kind": "witness", "centre_kind": "diagonal"}},
    {"cls": "Sphere", "axes": [1.0], "center": [2, 3, 5], "info": {"axes_kind": "witness", "centre_kind": "integer"}},
    {"cls": "Ellipsoid", "axes": [3.0, 2.0, 1.0], "center": [2, 3, 5], "info": {"axes_kind": "witness", "centre_kind": "integer"}},
    {"cls": "Ellipsoid", "axes": [1.0, 2.0, 3.0], "center": [0, 0, 0], "info": {"axes_kind": "witness", "centre_kind": "origin"}},
    # needle / disc limits at both ends of the scale range, every ordering, centre at the origin and on the scale of the
    # smallest semi-axis (per-entry relative comparison of the principal moments)
] + [
    {"cls": "Ellipsoid", "axes": list(p), "center": [t * min(p) for t in uc],
     "info": {"axes_kind": "witness-extreme", "centre_kind": "tiny" if any(uc) else "origin"}}
    for base in ([1e3, 1e-3, 2e-3], [1e3, 1e-3, 1e-3], [1e3, 1e3, 1e-3], [800.0, 950.0, 2e-3], [600.0, 3e-3, 5e-3],
                 [3.0, 1e-3, 1.5e-3])
    for p in sorted(set(__import__("itertools").permutations(base)))
    for uc in ([0.0, 0.0, 0.0], [0.3, -0.2, 0.5])
] + [
    # needle ellipses at aspect 1e4, 1e5, 1e6, both axis orders, incl. the corners of the range (iq, eccentricity,
    # perimeter judged relative to themselves)
    {"cls": "Ellipse", "axes": list(p), "center": [0.25 * min(p), -0.5 * min(p), 0.0],
     "info": {"axes_kind": "witness-needle-ellipse", "centre_kind": "tiny"}}
    for base in ([1e3, 1e-3], [1e3, 1e-2], [1e3, 1e-1], [1.0, 1e-4], [1e2, 1e-3], [1e-3 * 1e4, 1e-3], [500.0, 1e-3],
                 [1e3, 2e-3], [37.0, 1e-3], [1e3, 0.03])
    for p in (base, base[::-1])
] + [
    {"cls": "Sphere", "axes": [r], "center": [0.3 * r, -0.2 * r, 0.5 * r],
     "info": {"axes_kind": "witness-extreme", "centre_kind": "tiny"}} for r in (1e-3, 1e3)
] + [
    # a cached surface area / a stale value after assigning ONE axis (history of the minimal kind)
    {"cls": "Ellipsoid", "axes": [2.0, 3.0, 2.0], "center": [0.0, 0.0, 0.0],
     "info": {"axes_kind": "witness-history", "centre_kind": "origin"},
     "via": {"axes0": [2.0, 2.0, 2.0], "center0": [0.0, 0.0, 0.0], "ends": "assignment",
             "steps": [["read", ["surface_area"]], ["set", 1, 3.0]]}},
    {"cls": "Ellipse", "axes": [2.0, 0.5], "center": [1.0, 2.0, 0.0],
     "info": {"axes_kind": "witness-history", "centre_kind": "integer"},
     "via": {"axes0": [2.0, 2.0], "center0": [1.0, 2.0, 0.0], "ends": "assignment",
             "steps": [["read", ["perimeter", "iq"]], ["set", 1, -1.0], ["set", 1, 0.5]]}},
    {"cls": "Ellipsoid", "axes": [1.0, 2.0, 3.0], "center": [0.5, -0.25, 2.0],
     "info": {"axes_kind": "witness-history", "centre_kind": "distinct"},
     "via": {"axes0": [1.0, 2.0, 3.0], "center0": [0.5, -0.25, 2.0], "ends": "rescale",
             "steps": [["read", "all"], ["set", 0, 4.0], ["read", ["iq"]], ["set", 0, 1.0], ["size", "volume", 1.5]]}},
    # witness of the nan finding (two larger axes 1 ulp apart)
    {"cls": "Ellipsoid", "axes": [82.98250839490515, 318.4597855508135, 318.4597855508136], "center": [1, 2, 3],
     "info": {"axes_kind": "witness-ulp-oblate", "centre_kind": "integer"}},
]

INVALID = [
    {"cls": "Circle", "axes": [0.0], "center": [0, 0, 0], "invalid": True},
    {"cls": "Sphere", "axes": [-1.0], "center": [0, 0, 0], "invalid": True},
    {"cls": "Ellipse", "axes": [1.0, -2.0], "center": [0, 0, 0], "invalid": True},
    {"cls": "Ellipse", "axes": [float("nan"), 2.0], "center": [0, 0, 0], "invalid": True},
    {"cls": "Ellipsoid", "axes": [1.0, 2.0, 0.0], "center": [0, 0, 0], "invalid": True},
    {"cls": "Ellipsoid", "axes": [1.0, 2.0, float("inf")], "center": [0, 0, 0], "invalid": True},
]


def run(ctx):
    n = ctx.budget(2000, 36000)
    for case in WITNESSES:
        ctx.count("kind:witness")
        ctx.case(case)
        eval_case(ctx, case)
    for case in INVALID:
        ctx.count("kind:invalid")
        ctx.case(case, nontrivial=False)
        eval_case(ctx, case)
    for cls, share in (("Circle", 0.4), ("Sphere", 0.4), ("Ellipse", 1.0), ("Ellipsoid", 1.6)):
        for i in range(int(n * share)):
            case = make_case(ctx.rng, cls, ctx)
            ctx.count("class:" + cls)
            ctx.count("axes:" + case["info"]["axes_kind"])
            ctx.count("centre:" + case["info"]["centre_kind"])
            if len(case["axes"]) > 1:
                ctx.count(ordering_name(case["axes"]))
            ctx.case(case)
            eval_case(ctx, case, i)


def replay(ctx, payload):
    case = payload.get("case", payload)
    ctx.case(case)
    eval_case(ctx, case, 0)
