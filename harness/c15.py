"""C15 — constructors accept valid geometry and reject invalid geometry; never keep or modify caller arrays."""
import itertools
import warnings

import numpy as np

import gen
from common import L, ModelRaise, exc_kind

RULE = ("vertex lists classified by an exact integer oracle on their generating 2-D coordinates, margin-separated: "
        "simple polygons (star/comb/zigzag/spiral/regular/convex, 3-40 vertices, both orientations, any start vertex, "
        "edge separation and corner sines > 1e-3, first corner sine >= 0.05; plus dyadic ones whose first corner is an exact "
        "straight angle) vs cycles with two vertices swapped so "
        "that two non-adjacent edges cross properly (margin 1e-2); (N,2), z=0, z=const and randomly rotated planes "
        "(scale 1e-3..1e3, offset <= 10 diameters); duplicates, < 3 vertices, bad shapes, one vertex lifted off the "
        "plane by > 1 % of the diameter, explicit normals +-n (any length) and tilted >= 0.1 rad; convex position "
        "(depth > 1e-3) vs one interior point deeper than 1e-3 diameters for ConvexPolygon/ConvexSpheropolygon "
        "(ALL permutations for n <= 6, random ones above) and ConvexPolyhedron/ConvexSpheropolyhedron "
        "(gen.convex_solid); radii/axes positive, 0, negative, nan; rounding radii 0, positive, negative, nan; "
        "arguments passed as float64 ndarrays are snapshotted and compared bit-for-bit afterwards. "
        "non-trivial = every case (each has its own vertex list / parameter tuple)")
ASSUMPTIONS = [
    "clearly valid / clearly invalid is decided on the generating 2-D coordinates exactly (integer arithmetic) with the "
    "margins of RULE; the rigid motion into 3-D is done in floating point (rounding << margins)",
    "the O(n^2) edge-pair predicate Spec.edgesOK is taken as the meaning of 'simple' (proved over R to be the "
    "existential 'two closed segments share a point' applied to non-adjacent edges, fold-back test for adjacent "
    "ones); the Bentley-Ottmann sweep is tied to it only by the differential runs of this check",
    "polygons whose FIRST corner is nearly (not exactly) degenerate are outside the quantifier: the constructor "
    "derives its normal from that corner; EXACTLY collinear first three vertices (dyadic coordinates, z = const) are "
    "generated as valid input and reproduce the known finding Polygon.__init__:rejects-valid:straight-first-corner",
    "planar inputs are planar up to rounding; the constructor's absolute tolerance 1e-8 (np.isclose atol) makes "
    "acceptance of perturbed planes scale dependent - not part of the property's quantifier",
    "Qhull (vertex count of the hull) and rowan.mapping.kabsch (alignment with z) are parameters of the model; their "
    "results are fed to the model in the correspondence runs",
    "3-D convex position is certified by gen.in_convex_position (scipy hulls with margins), not by the Lean spec",
]

CLAUSES = [
    ("Vertices must be specified as an Nx2 or Nx3 array", "shape"),
    ("A polygon must be composed of at least 3 vertices", "short"),
    ("Found duplicate vertices", "duplicate"),
    ("The provided normal vector is not orthogonal", "normal"),
    ("Not all vertices are coplanar", "coplanar"),
    ("The vertices must be passed in counterclockwise order", "simple"),
    ("The provided vertices do not form a convex polygon", "convex"),
    ("The vertices do not define a convex polygon", "convex"),
    ("Input vertices must be a convex set", "convex"),
    ("adius must be greater than or equal to zero", "radius"),
    ("Radius must be greater than zero", "radius"),
    ("a must be greater than zero", "a"),
    ("b must be greater than zero", "b"),
    ("c must be greater than zero", "c"),
]


def clause_of(e):
    s = str(e)
    for pat, cl in CLAUSES:
        if pat in s:
            return cl
    return None


def outcome(fn):
    """('ok', obj) or (kind, clause)"""
    with warnings.catch_warnings():
        warnings.simplefilter("ignore")
        old = np.seterr(all="ignore")
        try:
            return "ok", fn()
        except Exception as e:  # noqa: BLE001
            return exc_kind(e), clause_of(e)
        finally:
            np.seterr(**old)


def snap(a):
    return (a.tobytes(), a.shape, a.dtype.str) if isinstance(a, np.ndarray) else None


def same_snap(a, s):
    return s is None or snap(a) == s


def shapes():
    import coxeter
    return coxeter.shapes


def compare_decision(ctx, op, case, impl, model_kind):
    """impl = (kind, clause|obj); model_kind = 'ok' or 'ValueError:clause' / other kind"""
    ik = impl[0]
    if model_kind == "ok":
        if ik != "ok":
            ctx.disagree(op, case, ["model accepts, implementation raised", ik, impl[1]])
            return False
        return True
    mk, _, mcl = model_kind.partition(":")
    if mk == "other":
        mk = model_kind
        mcl = ""
    if ik == "ok":
        ctx.disagree(op, case, ["model raises " + model_kind + ", implementation accepts"])
        return False
    if ik != mk:
        ctx.disagree(op, case, ["exception kinds differ", ik, model_kind])
        return False
    if impl[1] is not None and mcl and impl[1] != mcl:
        ctx.disagree(op, case, ["different check rejects", impl[1], mcl])
        return False
    return True


def as_rows3(v):
    """(ndim, ncols, rows padded to 3 columns) of np.array(vertices)"""
    try:
        a = np.array(v, dtype=np.float64)
    except Exception:  # ragged
        return None
    ndim = a.ndim
    ncols = a.shape[1] if ndim == 2 else 0
    if ndim == 2 and ncols in (2, 3):
        rows = a if ncols == 3 else np.c_[a, np.zeros(len(a))]
        return ndim, ncols, [r for r in rows]
    return ndim, ncols, []


def normal_tokens(normal):
    if normal is None:
        return [0, np.zeros(3)]
    return [1, np.asarray(normal, dtype=float)]


def make_arg(values, arg_type):
    if values is None:
        return None
    if arg_type == "list":
        return [list(map(float, r)) if isinstance(r, (list, tuple)) else float(r) for r in values]
    return np.array(values, dtype=np.float64)


def check_caller(ctx, cls, case, arg, snapshot, attr_arrays, which):
    """caller array bit-for-bit unchanged and not shared with any stored array"""
    if not isinstance(arg, np.ndarray):
        return
    if not same_snap(arg, snapshot):
        ctx.fail("%s.__init__:caller-array-modified:%s" % (cls, which),
                 "the constructor modified the caller's %s array" % which, case, [arg.tolist()])
    for name, arr in attr_arrays:
        if isinstance(arr, np.ndarray) and np.shares_memory(arr, arg):
            ctx.fail("%s.__init__:caller-array-stored:%s" % (cls, which),
                     "the constructed object's %s shares memory with the caller's %s array" % (name, which), case,
                     [name])


# --------------------------------------------------------------------------- Polygon


def model_polygon(ctx, case, v, normal, ptol, test_simple=True):
    """model decision ('ok' | kind) and the normal; None if the case is too close to a decision boundary"""
    from coxeter.shapes import polygon as pg
    r3 = as_rows3(v)
    if r3 is None:
        return None
    ndim, ncols, rows = r3
    ntok = normal_tokens(normal)
    try:
        r = ctx.driver.F("c15.polygon", ndim, ncols, L(rows), ntok, float(ptol), 0, L([]))
    except ModelRaise as e:
        kind = e.kind
        if kind in ("ValueError:normal", "ValueError:coplanar") and near_boundary(ctx, ncols, rows, ntok, ptol):
            return None
        return kind, None
    if near_boundary(ctx, ncols, rows, ntok, ptol):
        return None
    n_model = np.array(r[0:3])
    if not test_simple:
        return "ok", n_model
    V = np.array(rows)
    with warnings.catch_warnings():
        warnings.simplefilter("ignore")
        aligned, _ = pg._align_points_by_normal(n_model, V)
    try:
        r = ctx.driver.F("c15.polygon", ndim, ncols, L(rows), ntok, float(ptol), 1, L([a for a in aligned]))
    except ModelRaise as e:
        return e.kind, n_model
    return "ok", np.array(r[0:3])


def near_boundary(ctx, ncols, rows, ntok, ptol):
    if not rows:
        return False
    s1, s2 = ctx.driver.F("c15.slacks", ncols, L(rows), ntok, float(ptol))
    V = np.array(rows)
    size = max(gen.diameter(V), float(np.max(np.abs(V))), 1e-300)
    if not (np.isfinite(s1) and np.isfinite(s2)):
        return False  # nan normal: np.isclose is False whatever the tolerance, no boundary
    # the two sides of each np.isclose differ between model and implementation by rounding only (~1e-15*size, size = largest |coordinate|)
    return abs(s1) < 1e-9 or abs(s2) < 1e-12 * size


def eval_polygon(ctx, case):
    sh = shapes()
    arg_type = case.get("arg_type", "ndarray")
    V = make_arg(case["vertices"], arg_type)
    N = make_arg(case.get("normal"), case.get("normal_type", "ndarray"))
    sV, sN = snap(V), snap(N)
    ptol = case.get("planar_tolerance", 1e-5)
    kw = {}
    if N is not None:
        kw["normal"] = N
    if "planar_tolerance" in case:
        kw["planar_tolerance"] = ptol
    impl = outcome(lambda: sh.Polygon(V, **kw))
    expect, why = case["expect"], case["why"]
    # ------------- C: oracle
    if expect == "accept":
        if impl[0] != "ok":
            ctx.fail("Polygon.__init__:rejects-valid:" + why,
                     "Polygon raised %s (%s) on a clearly valid polygon" % (impl[0], impl[1]), case, list(impl))
        else:
            p = impl[1]
            check_polygon_object(ctx, "Polygon", case, p, np.array(case["vertices"], dtype=float),
                                 case.get("normal"), same_order=True)
    else:
        if impl[0] == "ok":
            ctx.fail("Polygon.__init__:accepts-invalid:" + why,
                     "Polygon accepted a clearly invalid vertex list (%s)" % why, case, [])
        elif impl[0] != "ValueError":
            ctx.fail("Polygon.__init__:wrong-exception:" + why,
                     "Polygon raised %s instead of ValueError" % impl[0], case, [impl[0]])
    obj = impl[1] if impl[0] == "ok" else None
    check_caller(ctx, "Polygon", case, V, sV,
                 [("vertices", getattr(obj, "_vertices", None)), ("normal", getattr(obj, "_normal", None))], "vertices")
    check_caller(ctx, "Polygon", case, N, sN,
                 [("vertices", getattr(obj, "_vertices", None)), ("normal", getattr(obj, "_normal", None))], "normal")
    if obj is not None and isinstance(V, np.ndarray) and V.size:
        before = np.array(obj.vertices)
        V += 1.0  # mutate the caller's array afterwards: the polygon must not move
        if not np.array_equal(before, obj.vertices):
            ctx.fail("Polygon.__init__:caller-array-stored:vertices", "mutating the caller's array moved the polygon",
                     case, [])
    # exact spec on the generating coordinates (ties generator, python oracle and Lean spec together)
    if "p2" in case:
        q = ctx.driver.Q("spec.c15.simple", L([np.asarray(r, dtype=float) for r in case["p2"]]))
        want = (expect == "accept") if why in ("simple", "crossing", "straight-first-corner") else None
        if want is not None and q[0] != want:
            ctx.fail("Spec.simple:oracle-mismatch", "Lean spec (exact Q) disagrees with the integer oracle", case, q)
    # ------------- B: model decision
    m = model_polygon(ctx, case, case["vertices"], case.get("normal"), ptol)
    if m is None:
        ctx.skipped_near_boundary += 1
        ctx.count("skip:polygon-tolerance-boundary")
        return
    ok = compare_decision(ctx, "c15.polygon", case, impl, m[0])
    if ok and impl[0] == "ok" and m[1] is not None:
        if not ctx.close_enough(np.array(impl[1].normal), m[1], 1.0):
            ctx.disagree("c15.polygon:normal", case, [np.array(impl[1].normal), m[1]])


def check_polygon_object(ctx, cls, case, p, vin, normal, same_order):
    """defining condition of an accepted polygon, independently of the constructor's own tests"""
    v3 = vin if vin.shape[1] == 3 else np.c_[vin, np.zeros(len(vin))]
    pv = np.array(p.vertices, dtype=float)
    size = max(gen.diameter(v3), 1e-300)
    if same_order:
        if pv.shape != v3.shape or not np.array_equal(pv, v3):
            ctx.fail("%s.__init__:vertices-changed" % cls, "stored vertices differ from the input vertices", case,
                     [pv.tolist()])
            return False
    else:
        a = pv[np.lexsort(pv.T[::-1])]
        b = v3[np.lexsort(v3.T[::-1])]
        if a.shape != b.shape or not np.array_equal(a, b):
            ctx.fail("%s.__init__:vertex-set-changed" % cls, "stored vertices are not a permutation of the input",
                     case, [pv.tolist()])
            return False
    n = np.array(p.normal, dtype=float)
    if not (abs(np.linalg.norm(n) - 1) < 1e-9 and np.max(np.abs((pv - pv[0]) @ n)) < 1e-7 * size + 1e-7):
        ctx.fail("%s.__init__:normal-not-normal" % cls, "stored normal is not a unit normal of the vertex plane", case,
                 [n.tolist()])
        return False
    if normal is not None:
        nn = np.asarray(normal, dtype=float)
        if np.dot(n, nn / np.linalg.norm(nn)) < 1 - 1e-6:
            ctx.fail("%s.__init__:normal-not-supplied-one" % cls, "stored normal is not the supplied direction", case,
                     [n.tolist()])
            return False
    return True


def polygon_cases(ctx, n_simple, n_cross, n_other):
    rng = ctx.rng
    for _ in range(n_simple):
        p2, info = gen.c15_simple_polygon(rng)
        mode = ["n2", "xy", "xyz0", "random", "random", "random", "far", "far"][int(rng.integers(8))]
        if mode == "far" and rng.random() < 0.7:   # the sweep is most fragile on stars / spirals far from the origin
            p2, info = gen.c15_simple_polygon(rng, kind=["star", "spiral"][int(rng.integers(2))])
        case = {"kind": "polygon", "expect": "accept", "why": "simple", "p2": p2.tolist(), "info": info}
        if mode == "n2":
            sc = 1.0 if rng.random() < 0.5 else float(10 ** rng.uniform(-3, 3))
            case["vertices"] = (p2 * sc).tolist()
            n_true = [0.0, 0.0, 1.0]
            case["embed"] = {"mode": "n2", "scale": sc}
        else:
            v, e = gen.c15_embed(rng, p2, mode)
            case["vertices"] = v.tolist()
            n_true = e["n_true"]
            case["embed"] = e
        u = rng.random()
        if u < 0.3:   # explicit normal, either sign, any length, float64 ndarray
            sgn = 1.0 if rng.random() < 0.5 else -1.0
            case["normal"] = (np.array(n_true) * sgn * float(np.exp(rng.uniform(-2, 2)))).tolist()
            case["normal_type"] = "ndarray" if rng.random() < 0.8 else "list"
            ctx.count("normal:explicit" + ("+" if sgn > 0 else "-"))
        case["arg_type"] = "ndarray" if rng.random() < 0.8 else "list"
        ctx.count("polygon:simple:" + info["kind"])
        ctx.count("orientation:" + ("cw" if info["clockwise"] else "ccw"))
        ctx.count("embed:" + case["embed"]["mode"])
        yield case
    for _ in range(max(3, n_simple // 12)):
        # simple polygon whose first three vertices are exactly collinear (a straight angle at vertex 1)
        p2, info = gen.c15_straight_first_corner(rng)
        mode = ["n2", "xy", "xyz0"][int(rng.integers(3))]
        case = {"kind": "polygon", "expect": "accept", "why": "straight-first-corner", "p2": p2.tolist(), "info": info}
        if mode == "n2":
            case["vertices"] = p2.tolist()
            case["embed"] = {"mode": "n2"}
        else:
            v, e = gen.c15_embed(rng, p2, mode)
            case["vertices"] = v.tolist()
            case["embed"] = e
        ctx.count("polygon:simple:straight-first-corner")
        yield case
    for _ in range(n_cross):
        q2, info = gen.c15_crossing_polygon(rng)
        mode = ["n2", "xy", "random", "random"][int(rng.integers(4))]
        case = {"kind": "polygon", "expect": "reject", "why": "crossing", "p2": q2.tolist(), "info": info}
        if mode == "n2":
            case["vertices"] = q2.tolist()
            case["embed"] = {"mode": "n2"}
        else:
            v, e = gen.c15_embed(rng, q2, mode)
            case["vertices"] = v.tolist()
            case["embed"] = e
        ctx.count("polygon:crossing:" + info["kind"])
        yield case
    for _ in range(n_other):
        p2, info = gen.c15_simple_polygon(rng)
        v, e = gen.c15_embed(rng, p2)
        why = ["duplicate", "short", "nonplanar", "nonplanar", "nonplanar", "badnormal", "badnormal", "shape",
               "duplicate-adjacent"][int(rng.integers(9))]
        case = {"kind": "polygon", "expect": "reject", "why": why, "info": info, "embed": e}
        if why in ("duplicate", "duplicate-adjacent"):
            n = len(v)
            i = int(rng.integers(n))
            j = (i + 1) % n if why == "duplicate-adjacent" else int((i + 1 + rng.integers(n - 1)) % n)
            w = v.copy()
            w[j] = w[i]
            case["vertices"] = w.tolist()
        elif why == "short":
            k = int(rng.integers(0, 3))
            case["vertices"] = v[:k].tolist()
        elif why == "shape":
            k = int(rng.integers(4))
            if k == 0:
                case["vertices"] = np.c_[v, np.ones(len(v))].tolist()        # (N,4)
            elif k == 1:
                case["vertices"] = v[:, :1].tolist()                          # (N,1)
            elif k == 2:
                case["vertices"] = v.ravel().tolist()                         # 1-D
            else:
                case["vertices"] = [v.tolist(), v.tolist()]                   # 3-D
        elif why == "nonplanar":
            if len(v) < 4:
                continue
            w, li = gen.c15_lift(rng, v, e["n_true"])
            size = gen.diameter(w)
            if gen.c15_width(w) / 2 <= 2e-4 * size + 2e-8:
                ctx.count("dropped:nonplanar-width")
                continue
            case["vertices"] = w.tolist()
            case["lift"] = li
        else:  # badnormal: tilted by >= 0.1 rad
            t = np.array(e["n_true"])
            a = rng.normal(size=3)
            a -= a.dot(t) * t
            a /= np.linalg.norm(a)
            ang = float(rng.uniform(0.1, np.pi - 0.1))
            case["vertices"] = v.tolist()
            case["normal"] = ((np.cos(ang) * t + np.sin(ang) * a) * float(np.exp(rng.uniform(-1, 1)))).tolist()
            if abs(np.cos(ang)) > 1 - 1e-3:
                continue
        ctx.count("polygon:" + why)
        yield case


# --------------------------------------------------------------------------- direct differential runs of _is_simple


def eval_is_simple(ctx, case):
    from coxeter.shapes import polygon as pg
    p = np.array(case["p2"], dtype=float) * case.get("scale", 1.0) + np.array(case.get("shift", [0.0, 0.0]))
    pl = np.c_[p, np.zeros(len(p))]
    impl = outcome(lambda: bool(pg._is_simple(pl)))
    m = ctx.driver.F("c15.simple", L([r for r in pl]))[0]
    q = ctx.driver.Q("spec.c15.simple", L([np.asarray(r, dtype=float) for r in case["p2"]]))[0]
    want = case["expect"] == "accept"
    if q != want:
        ctx.fail("Spec.simple:oracle-mismatch", "Lean spec (exact Q) disagrees with the integer oracle", case, [q])
    if impl[0] != "ok":
        ctx.fail("polygon._is_simple:raises", "_is_simple raised %s" % impl[0], case, list(impl))
        return
    if impl[1] != want:
        ctx.fail("polygon._is_simple:" + ("rejects-valid" if want else "accepts-invalid"),
                 "_is_simple returned %s on a clearly %s cycle" % (impl[1], "simple" if want else "crossing"), case, [])
    if impl[1] != m:
        ctx.disagree("c15.simple", case, [impl[1], m])


# --------------------------------------------------------------------------- ConvexPolygon / ConvexSpheropolygon


def eval_convex_polygon(ctx, case):
    from coxeter.shapes import polygon as pg
    from scipy.spatial import ConvexHull
    sh = shapes()
    V = make_arg(case["vertices"], case.get("arg_type", "ndarray"))
    N = make_arg(case.get("normal"), "ndarray")
    sV, sN = snap(V), snap(N)
    has_r = "radius" in case
    radius = float(case["radius"]) if has_r else None
    cls = "ConvexSpheropolygon" if has_r else "ConvexPolygon"
    kw = {"normal": N} if N is not None else {}
    if has_r:
        impl = outcome(lambda: sh.ConvexSpheropolygon(V, radius, **kw))
    else:
        impl = outcome(lambda: sh.ConvexPolygon(V, **kw))
    expect, why = case["expect"], case["why"]
    obj = impl[1] if impl[0] == "ok" else None
    poly = obj.polygon if (has_r and obj is not None) else obj
    if expect == "accept":
        if impl[0] != "ok":
            ctx.fail("%s.__init__:rejects-valid:%s" % (cls, why),
                     "%s raised %s (%s) on points in clear convex position" % (cls, impl[0], impl[1]), case, list(impl))
        else:
            vin = np.array(case["vertices"], dtype=float)
            if check_polygon_object(ctx, cls, case, poly, vin, case.get("normal"), same_order=False):
                ccw = ctx.driver.Q("spec.c15.ccw", np.array(poly.normal, dtype=float),
                                   L([r for r in np.array(poly.vertices, dtype=float)]))[0]
                if not ccw:
                    ctx.fail("%s.__init__:not-counter-clockwise" % cls,
                             "stored vertices are not in counter-clockwise convex order about the normal", case,
                             [np.array(poly.vertices).tolist(), np.array(poly.normal).tolist()])
            if has_r and not (obj.radius == radius):
                ctx.fail("%s.__init__:radius-changed" % cls, "stored radius differs", case, [obj.radius])
    else:
        if impl[0] == "ok":
            ctx.fail("%s.__init__:accepts-invalid:%s" % (cls, why), "%s accepted invalid input (%s)" % (cls, why),
                     case, [])
        elif impl[0] != "ValueError":
            ctx.fail("%s.__init__:wrong-exception:%s" % (cls, why), "%s raised %s instead of ValueError"
                     % (cls, impl[0]), case, [impl[0]])
    arrs = [("vertices", getattr(poly, "_vertices", None)), ("normal", getattr(poly, "_normal", None))]
    check_caller(ctx, cls, case, V, sV, arrs, "vertices")
    check_caller(ctx, cls, case, N, sN, arrs, "normal")
    # small inputs: the Lean spec of convex position (exact Q) on the generating coordinates
    if "p2" in case and len(case["p2"]) <= 8 and why in ("convex", "interior"):
        q = ctx.driver.Q("spec.c15.convexpos2", L([np.asarray(r, dtype=float) for r in case["p2"]]))[0]
        if q != (why == "convex"):
            ctx.fail("Spec.convexPosition2:oracle-mismatch", "Lean spec disagrees with the generator's class", case, [q])
    # ------------- B
    r3 = as_rows3(case["vertices"])
    ndim, ncols, rows = r3
    ntok = normal_tokens(case.get("normal"))
    ptol = 1e-5
    if has_r and not (radius >= 0):
        model = "ValueError:radius"   # the guard comes first; nothing else of the model is needed
        try:
            ctx.driver.F("c15.spheropolygon", ndim, ncols, L(rows), float(radius), ntok, 0, L([]))
            ctx.disagree("c15.spheropolygon", case, "model accepted an invalid radius")
        except ModelRaise as e:
            model = e.kind
        compare_decision(ctx, "c15.spheropolygon", case, impl, model)
        return
    pre = model_polygon(ctx, case, case["vertices"], case.get("normal"), ptol, test_simple=False)
    if pre is None:
        ctx.skipped_near_boundary += 1
        ctx.count("skip:polygon-tolerance-boundary")
        return
    if pre[0] != "ok":
        compare_decision(ctx, "c15.convexpolygon", case, impl, pre[0])
        return
    n_model = pre[1]
    Vr = np.array(rows)
    with warnings.catch_warnings():
        warnings.simplefilter("ignore")
        al, _ = pg._align_points_by_normal(n_model, Vr)
        alc, _ = pg._align_points_by_normal(n_model, Vr - np.mean(Vr, axis=0))
    try:
        hc = len(ConvexHull(al[:, :2]).vertices)
    except Exception:
        ctx.skipped_near_boundary += 1
        ctx.count("skip:hull-raised")
        return
    try:
        if has_r:
            r = ctx.driver.F("c15.spheropolygon", ndim, ncols, L(rows), float(radius), ntok, hc, L([a for a in alc]))
            r = r[1:]
        else:
            r = ctx.driver.F("c15.convexpolygon", ndim, ncols, L(rows), ntok, ptol, hc, L([a for a in alc]))
        model = "ok"
    except ModelRaise as e:
        model = e.kind
    op = "c15.spheropolygon" if has_r else "c15.convexpolygon"
    if not compare_decision(ctx, op, case, impl, model) or model != "ok":
        return
    mv = np.array(r[4:]).reshape(-1, 3)
    keys = np.array(ctx.driver.F("c15.anglegap", L([a for a in alc]))).reshape(-1, 2)
    ang = np.sort(keys[:, 0])
    gaps = np.diff(np.r_[ang, ang[0] + 2 * np.pi])
    if np.min(gaps) < 1e-7:
        ctx.skipped_near_boundary += 1
        ctx.count("skip:angle-tie")
        return
    if not np.array_equal(mv, np.array(poly.vertices)):
        ctx.disagree(op + ":order", case, [mv.tolist(), np.array(poly.vertices).tolist()])
    # vert_order itself (model of _reorder_verts on the same aligned points)
    order = ctx.driver.F("c15.reorder", L([a for a in alc]))
    if not np.array_equal(Vr[np.array(order, dtype=int)], np.array(poly.vertices)):
        ctx.disagree("c15.reorder", case, [order])


def extreme_embed(rng, p2):
    """z = 0 embedding, random proper rotation (half of the time), scale at an end of the quantifier's range"""
    v = np.c_[np.asarray(p2, dtype=float), np.zeros(len(p2))]
    R = gen.random_rotation(rng) if rng.random() < 0.5 else np.eye(3)
    v, sc = gen.c15_rescale(rng, v @ R.T)
    return v, {"mode": "extreme", "n_true": (R @ np.array([0.0, 0.0, 1.0])).tolist(), "scale": sc}


def convex_polygon_cases(ctx, n_perm_sets, n_random, n_interior, n_sphero):
    rng = ctx.rng

    def embed(p2, mode=None):
        mode = mode or ["n2", "xy", "random", "random"][int(rng.integers(4))]
        if mode == "n2":
            return np.array(p2, dtype=float), {"mode": "n2", "n_true": [0.0, 0.0, 1.0]}
        return gen.c15_embed(rng, p2, mode)

    # ALL permutations of small convex inputs
    for _ in range(n_perm_sets):
        for n in (3, 4, 5, 6):
            p2, info = gen.c15_convex_polygon(rng, n=n)
            v, e = embed(p2)
            ctx.count("convexpolygon:all-permutations:n=%d" % n)
            for perm in itertools.permutations(range(n)):
                perm = list(perm)
                yield {"kind": "convexpolygon", "expect": "accept", "why": "convex", "vertices": v[perm].tolist(),
                       "p2": p2[perm].tolist(), "perm": perm, "embed": e}
    for _ in range(n_random):
        p2, info = gen.c15_convex_polygon(rng)
        v, e = embed(p2)
        perm = rng.permutation(len(p2)).tolist()
        case = {"kind": "convexpolygon", "expect": "accept", "why": "convex", "vertices": v[perm].tolist(),
                "p2": p2[perm].tolist(), "perm": perm, "embed": e, "info": info}
        if rng.random() < 0.3:
            sgn = 1.0 if rng.random() < 0.5 else -1.0
            case["normal"] = (np.array(e["n_true"]) * sgn * float(np.exp(rng.uniform(-2, 2)))).tolist()
            ctx.count("normal:explicit" + ("+" if sgn > 0 else "-"))
        ctx.count("convexpolygon:random-permutation")
        yield case
    for _ in range(n_interior):
        p2, info = gen.c15_convex_polygon(rng, n=int(rng.integers(3, 30)))
        shallow = rng.random() < 0.5
        try:
            x, depth = (gen.c15_shallow_interior_point2 if shallow else gen.c15_interior_point2)(rng, p2)
        except RuntimeError:      # sliver: no point deeper than the margin
            ctx.count("dropped:no-deep-interior-point")
            continue
        q2 = np.vstack([p2, x])
        perm = rng.permutation(len(q2)).tolist()
        if shallow:
            # a point interior by a clear RELATIVE margin (1.5e-3..1e-2 diameters) must be refused at every scale of the
            # quantifier: place the set at an extreme scale (1e-3 / 1e3), rotated, so that an absolute tolerance shows
            v, e = extreme_embed(rng, q2)
            ctx.count("convexpolygon:interior-point:scale-%s" % ("small" if e["scale"] < 1 else "large"))
        else:
            v, e = embed(q2)
        ctx.count("convexpolygon:interior-point" + (":shallow" if shallow else ""))
        yield {"kind": "convexpolygon", "expect": "reject", "why": "interior", "vertices": v[perm].tolist(),
               "p2": q2[perm].tolist(), "perm": perm, "embed": e, "depth": depth}
    for _ in range(n_sphero):
        p2, info = gen.c15_convex_polygon(rng, n=int(rng.integers(3, 13)))
        rk = ["zero", "positive", "negative", "nan"][int(rng.integers(4))]
        radius = {"zero": 0.0, "positive": float(np.exp(rng.uniform(-3, 3))), "negative": -float(np.exp(rng.uniform(-6, 3))),
                  "nan": "nan"}[rk]
        bad = rng.random() < 0.35
        if bad:
            shallow = rng.random() < 0.5
            try:
                x, _ = (gen.c15_shallow_interior_point2 if shallow else gen.c15_interior_point2)(rng, p2)
            except RuntimeError:
                ctx.count("dropped:no-deep-interior-point")
                continue
            p2 = np.vstack([p2, x])
        perm = rng.permutation(len(p2)).tolist()
        v, e = extreme_embed(rng, p2) if (bad and shallow) else embed(p2)
        ok = (not bad) and rk in ("zero", "positive")
        ctx.count("spheropolygon:radius-%s:%s" % (rk, "interior" if bad else "convex"))
        yield {"kind": "convexpolygon", "expect": "accept" if ok else "reject",
               "why": ("interior" if bad else "convex") if rk in ("zero", "positive") else "radius-" + rk,
               "vertices": v[perm].tolist(), "p2": p2[perm].tolist(), "perm": perm, "embed": e, "radius": radius}


# --------------------------------------------------------------------------- ConvexPolyhedron / ConvexSpheropolyhedron


def eval_convex_polyhedron(ctx, case):
    from scipy.spatial import ConvexHull
    sh = shapes()
    V = make_arg(case["vertices"], case.get("arg_type", "ndarray"))
    sV = snap(V)
    has_r = "radius" in case
    radius = float(case["radius"]) if has_r else None
    cls = "ConvexSpheropolyhedron" if has_r else "ConvexPolyhedron"
    if has_r:
        impl = outcome(lambda: sh.ConvexSpheropolyhedron(V, radius))
    else:
        impl = outcome(lambda: sh.ConvexPolyhedron(V))
    expect, why = case["expect"], case["why"]
    obj = impl[1] if impl[0] == "ok" else None
    poly = obj.polyhedron if (has_r and obj is not None) else obj
    vin = np.array(case["vertices"], dtype=float)
    if expect == "accept":
        if impl[0] != "ok":
            ctx.fail("%s.__init__:rejects-valid:%s" % (cls, why),
                     "%s raised %s (%s) on points in clear convex position" % (cls, impl[0], impl[1]), case, list(impl))
        else:
            pv = np.array(poly.vertices)
            if pv.shape != vin.shape or not np.array_equal(pv, vin):
                ctx.fail("%s.__init__:vertices-changed" % cls, "stored vertices differ from the input", case, [])
            faces_v = set(int(i) for f in poly.faces for i in f)
            if faces_v != set(range(len(vin))):
                ctx.fail("%s.__init__:vertex-not-on-a-face" % cls, "some vertex belongs to no face", case,
                         [sorted(set(range(len(vin))) - faces_v)])
            if has_r and not (obj.radius == radius):
                ctx.fail("%s.__init__:radius-changed" % cls, "stored radius differs", case, [obj.radius])
    else:
        if impl[0] == "ok":
            ctx.fail("%s.__init__:accepts-invalid:%s" % (cls, why), "%s accepted invalid input (%s)" % (cls, why),
                     case, [])
        elif impl[0] != "ValueError":
            ctx.fail("%s.__init__:wrong-exception:%s" % (cls, why), "%s raised %s instead of ValueError"
                     % (cls, impl[0]), case, [impl[0]])
    check_caller(ctx, cls, case, V, sV, [("vertices", getattr(poly, "_vertices", None))], "vertices")
    if poly is not None and isinstance(V, np.ndarray):
        before = np.array(poly.vertices)
        V *= 2.0
        if not np.array_equal(before, poly.vertices):
            ctx.fail("%s.__init__:caller-array-stored:vertices" % cls, "mutating the caller's array moved the shape",
                     case, [])
    # ------------- B
    try:
        hc = len(ConvexHull(vin).vertices)
    except Exception:
        hc = -1
    rows = [r for r in vin]
    try:
        if has_r:
            ctx.driver.F("c15.spheropolyhedron", L(rows), float(radius), hc)
        else:
            ctx.driver.F("c15.convexpolyhedron", L(rows), hc)
        model = "ok"
    except ModelRaise as e:
        model = e.kind
    compare_decision(ctx, "c15.spheropolyhedron" if has_r else "c15.convexpolyhedron", case, impl, model)


def convex_polyhedron_cases(ctx, n_valid, n_interior, n_sphero):
    rng = ctx.rng
    for _ in range(n_valid):
        v, info = gen.convex_solid(rng)
        ctx.count("convexpolyhedron:convex:" + info["kind"])
        yield {"kind": "convexpolyhedron", "expect": "accept", "why": "convex", "vertices": v.tolist(), "info": info}
    for _ in range(n_interior):
        v, info = gen.convex_solid(rng)
        shallow = rng.random() < 0.5
        try:
            x, depth = (gen.c15_shallow_interior_point3 if shallow else gen.c15_interior_point3)(rng, v)
        except RuntimeError:
            continue
        k = int(rng.integers(len(v) + 1))
        w = np.insert(v, k, x, axis=0)
        ctx.count("convexpolyhedron:interior-point" + (":shallow" if shallow else ""))
        yield {"kind": "convexpolyhedron", "expect": "reject", "why": "interior", "vertices": w.tolist(), "info": info,
               "depth": depth, "at": k}
    for _ in range(n_sphero):
        v, info = gen.convex_solid(rng)
        rk = ["zero", "positive", "negative", "nan"][int(rng.integers(4))]
        radius = {"zero": 0.0, "positive": float(np.exp(rng.uniform(-3, 3))), "negative": -float(np.exp(rng.uniform(-6, 3))),
                  "nan": "nan"}[rk]
        bad = rng.random() < 0.35
        if bad:
            try:
                x, _ = gen.c15_interior_point3(rng, v)
            except RuntimeError:
                continue
            v = np.insert(v, int(rng.integers(len(v) + 1)), x, axis=0)
        ok = (not bad) and rk in ("zero", "positive")
        ctx.count("spheropolyhedron:radius-%s:%s" % (rk, "interior" if bad else "convex"))
        yield {"kind": "convexpolyhedron", "expect": "accept" if ok else "reject",
               "why": ("interior" if bad else "convex") if rk in ("zero", "positive") else "radius-" + rk,
               "vertices": v.tolist(), "info": info, "radius": radius}


# --------------------------------------------------------------------------- curved shapes

CURVED = {"Circle": 1, "Sphere": 1, "Ellipse": 2, "Ellipsoid": 3}
FIELD = {"Circle": ["radius"], "Sphere": ["radius"], "Ellipse": ["a", "b"], "Ellipsoid": ["a", "b", "c"]}


def eval_curved(ctx, case):
    sh = shapes()
    cls = case["cls"]
    params = [float(x) for x in case["params"]]
    ctype = case.get("center_type", "ndarray")
    center = case.get("center")
    if center is None:
        C = None
    elif ctype == "ndarray":
        C = np.array(center, dtype=np.float64)
    elif ctype == "tuple":
        C = tuple(center)
    else:
        C = list(center)
    sC = snap(C)
    ctor = getattr(sh, cls)
    impl = outcome(lambda: ctor(*params) if C is None else ctor(*params, C))
    valid = all(x > 0 for x in params)
    bad = [FIELD[cls][i] for i, x in enumerate(params) if not x > 0]
    if valid:
        if impl[0] != "ok":
            ctx.fail("%s.__init__:rejects-valid" % cls, "%s raised %s on positive parameters" % (cls, impl[0]), case,
                     list(impl))
        else:
            o = impl[1]
            got = [float(getattr(o, f)) for f in FIELD[cls]]
            if got != params:
                ctx.fail("%s.__init__:parameters-changed" % cls, "stored parameters differ", case, got)
            want_c = np.zeros(3) if center is None else np.array(center, dtype=float)
            if not np.array_equal(np.array(o.centroid, dtype=float), want_c):
                ctx.fail("%s.__init__:centre-changed" % cls, "stored centre differs", case, [np.array(o.centroid).tolist()])
    else:
        if impl[0] == "ok":
            ctx.fail("%s.__init__:accepts-invalid:%s" % (cls, case["why"]),
                     "%s accepted a non-positive/nan parameter" % cls, case, params)
        elif impl[0] != "ValueError":
            ctx.fail("%s.__init__:wrong-exception:%s" % (cls, case["why"]), "%s raised %s instead of ValueError"
                     % (cls, impl[0]), case, [impl[0]])
    obj = impl[1] if impl[0] == "ok" else None
    check_caller(ctx, cls, case, C, sC, [("centroid", getattr(obj, "_centroid", None))], "center")
    if obj is not None and isinstance(C, np.ndarray):
        before = np.array(obj.centroid)
        C += 99.0   # the caller changes his array afterwards
        if not np.array_equal(before, np.array(obj.centroid)):
            ctx.fail("%s.__init__:caller-array-stored:center" % cls,
                     "mutating the caller's centre array moved the shape", case, [np.array(obj.centroid).tolist()])
    # ------------- B
    cen = np.zeros(3) if center is None else np.array(center, dtype=float)
    try:
        r = ctx.driver.F("c15." + cls.lower(), *params, cen)
        model = "ok"
    except ModelRaise as e:
        model = e.kind
        r = None
    if compare_decision(ctx, "c15." + cls.lower(), case, impl, model) and model == "ok":
        k = len(params)
        if list(r[:k]) != params or r[k + 3] != 0:
            ctx.disagree("c15." + cls.lower() + ":stored", case, r)
    if not valid and impl[0] == "ValueError" and impl[1] is not None and impl[1] != bad[0]:
        # the first offending field (in assignment order) is the one reported
        ctx.disagree("c15." + cls.lower() + ":first-field", case, [impl[1], bad[0]])


def curved_cases(ctx, n):
    rng = ctx.rng

    def val(kind):
        if kind == "positive":
            return float(np.exp(rng.uniform(-6, 6)))
        if kind == "zero":
            return 0.0 if rng.random() < 0.7 else -0.0
        if kind == "negative":
            return -float(np.exp(rng.uniform(-6, 6)))
        return "nan"

    # systematic: every class, every field x {zero, negative, nan} with the others positive, plus all-positive
    for cls, k in CURVED.items():
        combos = [["positive"] * k]
        for i in range(k):
            for bad in ("zero", "negative", "nan"):
                c = ["positive"] * k
                c[i] = bad
                combos.append(c)
        combos.append(["negative"] * k)
        combos.append(["zero"] * k)
        for c in combos:
            for ctype in (["ndarray", "list", "tuple", "default"] if c == ["positive"] * k else [None]):
                yield curved_case(ctx, rng, cls, [val(x) for x in c], c, ctype)
    for _ in range(n):
        cls = list(CURVED)[int(rng.integers(4))]
        c = [["positive", "positive", "positive", "zero", "negative", "nan"][int(rng.integers(6))]
             for _ in range(CURVED[cls])]
        yield curved_case(ctx, rng, cls, [val(x) for x in c], c)


def curved_case(ctx, rng, cls, params, kinds, ctype=None):
    ctype = ctype or ["ndarray", "ndarray", "list", "tuple", "default"][int(rng.integers(5))]
    center = None if ctype == "default" else (rng.normal(size=3) * float(np.exp(rng.uniform(-2, 4)))).tolist()
    valid = all(k == "positive" for k in kinds)
    ctx.count("curved:%s:%s" % (cls, "valid" if valid else "invalid"))
    ctx.count("center:" + ctype)
    return {"kind": "curved", "cls": cls, "params": params, "center": center, "center_type": ctype,
            "why": "+".join(kinds), "expect": "accept" if valid else "reject"}


# --------------------------------------------------------------------------- driver


EVAL = {"polygon": eval_polygon, "is_simple": eval_is_simple, "convexpolygon": eval_convex_polygon,
        "convexpolyhedron": eval_convex_polyhedron, "curved": eval_curved}


def eval_case(ctx, case):
    EVAL[case["kind"]](ctx, case)


def is_simple_cases(ctx, n):
    rng = ctx.rng
    for i in range(n):
        far = False
        if i % 5 in (0, 2, 3):
            far = i % 5 != 0
            if far:    # far corner of the quantifier (scale ~1e3, offset 8..10 diameters), fragile kinds
                p2, info = gen.c15_simple_polygon(rng, kind=["star", "spiral", "star", "spiral", "convex"][int(rng.integers(5))])
            else:
                p2, info = gen.c15_simple_polygon(rng)
            exp = "accept"
        else:
            p2, info = gen.c15_crossing_polygon(rng)
            exp = "reject"
        if far:
            sc = float(rng.uniform(600, 1000))
            d = gen.diameter(np.c_[p2, np.zeros(len(p2))]) * sc
            u = rng.normal(size=2)
            shift = (u / np.linalg.norm(u) * d * float(rng.uniform(8, 10))).tolist()
            ctx.count("is_simple:far-corner")
        else:
            sc = 1.0 if rng.random() < 0.4 else float(10 ** rng.uniform(-3, 3))
            d = gen.diameter(np.c_[p2, np.zeros(len(p2))]) * sc
            shift = (rng.normal(size=2) * d * float(rng.uniform(0, 10))).tolist() if rng.random() < 0.6 else [0.0, 0.0]
        ctx.count("is_simple:" + exp + ":" + info["kind"])
        yield {"kind": "is_simple", "expect": exp, "p2": p2.tolist(), "scale": sc, "shift": shift, "info": info}


def run(ctx):
    b = ctx.budget
    streams = [
        polygon_cases(ctx, b(70, 1200), b(45, 800), b(40, 600)),
        is_simple_cases(ctx, b(250, 2500)),
        convex_polygon_cases(ctx, b(1, 6), b(40, 600), b(30, 400), b(30, 400)),
        convex_polyhedron_cases(ctx, b(25, 300), b(25, 300), b(25, 300)),
        curved_cases(ctx, b(40, 600)),
    ]
    for s in streams:
        for case in s:
            ctx.case(case)
            eval_case(ctx, case)


def replay(ctx, payload):
    case = payload.get("case", payload)
    ctx.case(case)
    eval_case(ctx, case)
