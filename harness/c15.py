"""C15 — constructors accept valid geometry and reject invalid geometry; never keep or modify caller arrays."""
import itertools
import json
import warnings

import numpy as np

import gen
from common import L, ModelRaise, exc_kind, read_shuffled

RULE = ("vertex lists classified by an exact integer oracle on their generating 2-D coordinates, margin-separated: "
        "simple polygons (star/comb/zigzag/spiral/regular/convex, 3-40 vertices, both orientations, any start vertex, "
        "edge separation and corner sines > 1e-3, first corner sine >= 0.05; dyadic ones whose first corner is an exact "
        "straight angle; ones whose first corner deviates from a straight angle by 1e-12..1e-3 rad) vs crossing cycles "
        "of EVERY kind in every run: two vertices swapped, bow-ties, star polygons {n/k} of points in convex position "
        "(every turn of the same sign, turning number >= 2), double windings / two laps, spirals closed by a chord, "
        "figure-eights, a vertex pushed through a far edge (proper crossing, margin 1e-2), and the boundary families "
        "vertex-on-edge / collinear-overlap / spike-tip-on-edge pushed through or held back by 1e-3..1e-2 of the height "
        "(exactly-on-the-boundary members are generated and OBSERVED only); (N,2), z=0, z=const, randomly rotated, "
        "almost-axis-aligned (tilt 1e-7..3e-2 rad) and far (scale ~1e3, offset 10 diameters) planes, scale 1e-3..1e3, and "
        "the placement grid sizes 2^-30..2^30 x {plane through the origin, 1e3..1e6 diameters away within the plane / along "
        "the normal / generic} with valid and 1 %-lifted polygons; "
        "duplicates, < 3 vertices, bad shapes, one vertex lifted off the plane by > 1 % of the diameter, explicit "
        "normals +-n (any length) and tilted >= 0.1 rad; convex position (depth > 1e-3) vs one interior point deeper "
        "than 1e-3 diameters for ConvexPolygon/ConvexSpheropolygon (ALL permutations for n <= 6, random ones above) and "
        "ConvexPolyhedron/ConvexSpheropolyhedron (gen.convex_solid), plus < 4 points, duplicate points, flat and collinear "
        "sets, nan / inf coordinates (point-on-face/edge sets observed only); a fixed corpus of the inputs of repaired defects; radii/axes positive, 0, negative, nan; "
        "rounding radii 0, positive, negative, nan; caller-array hygiene for all ten classes x container kinds (list, "
        "tuple, float64 / float32 / int64 ndarray, strided and negative-stride views, Fortran order, read-only; (N,2) and "
        "(N,3); non-unit normals; faces as nested lists, lists of arrays, one 2-D array): byte-for-byte snapshots, "
        "np.shares_memory against every ndarray reachable from the object, caller overwrites his buffers -> observables "
        "unchanged, shape is read and mutated through its own members -> caller arrays unchanged. "
        "non-trivial = every case (each has its own vertex list / parameter tuple)")
ASSUMPTIONS = [
    "clearly valid / clearly invalid is decided on the generating 2-D coordinates exactly (integer arithmetic) with the "
    "margins of RULE; the rigid motion into 3-D is done in floating point (rounding << margins)",
    "the O(n^2) edge-pair predicate Spec.simple is proved over R to BE the text-book definition (no two non-adjacent "
    "edges share a point, adjacent edges share exactly their vertex: simple_iff_simple_polygon); the Bentley-Ottmann "
    "sweep is tied to it only by the differential runs of this check, and only off the decision boundary: cycles "
    "EXACTLY on it (a vertex on a far edge, collinear overlap, a zero-width spike) get ValueError or are accepted "
    "depending on rounding (the sweep's internal AssertionError is caught since b73b691 and modelled as an external "
    "flag of the model) - they are generated, their outcome is recorded "
    "(coverage.input_distribution 'observed:boundary-*') and not judged",
    "a (nearly) straight FIRST corner is valid input (a straight angle is no decision boundary of simplicity): "
    "exactly collinear first three vertices reproduce the known finding Polygon.__init__:rejects-valid:straight-first-corner, "
    "deviations below ~1e-6 rad in planes that are not axis planes the known finding "
    "Polygon.__init__:rejects-valid:nearly-straight-first-corner; for accepted ones the stored normal is only required "
    "to be normal within 1e-3 of the size (a tenth of the property's planarity margin)",
    "planar inputs are planar up to rounding; since 744f807 the constructor compares the distance from the plane through "
    "vertex 0 with planar_tolerance x extent, so the verdict may not depend on position or size: valid polygons at sizes "
    "2^-30..2^30, in planes through the origin and 1e3..1e6 diameters away (within the plane, along the normal, "
    "generic) must be accepted and > 1 %-off-plane vertices rejected at every such placement",
    "Qhull (vertex count of the hull) and rowan.mapping.kabsch (alignment with z) are parameters of the model; their "
    "results are fed to the model in the correspondence runs",
    "3-D convex position is certified by gen.in_convex_position (scipy hulls with margins), not by the Lean spec",
    "points exactly on a face / edge of the hull sit on ConvexPolyhedron's decision boundary: outcome recorded and "
    "compared with the model (fed Qhull's own verdict), not judged; fewer than four points, duplicate points, flat and "
    "collinear sets, nan and infinite coordinates are no polyhedra: ValueError is demanded (f256559)",
    "cycles EXACTLY on the decision boundary of simplicity are not judged for accept / reject, but whatever they raise "
    "must be a ValueError (b73b691)",
    "'the caller's arrays' are ndarrays (the property's word); since b62a6dc Polyhedron also copies list faces",
]

CLAUSES = [
    ("Vertices must be specified as an Nx2 or Nx3 array", "shape"),
    ("A polygon must be composed of at least 3 vertices", "short"),
    ("Found duplicate vertices", "duplicate"),
    ("The provided normal vector is not orthogonal", "normal"),
    ("Not all vertices are coplanar", "coplanar"),
    ("The vertices must be passed in counterclockwise order", "simple"),
    ("The provided vertices do not form a convex polygon", "convex"),
    ("The vertices do not define a convex polygon", "convex"),
    ("Input vertices must be a convex set", "convex"),
    ("Input vertices do not define a three-dimensional convex polyhedron", "hull"),
    ("adius must be greater than or equal to zero", "radius"),
    ("Radius must be greater than zero", "radius"),
    ("a must be greater than zero", "a"),
    ("b must be greater than zero", "b"),
    ("c must be greater than zero", "c"),
]


def clause_of(e):
    s = str(e)
    for pat, cl in CLAUSES:
        if pat in s:
            return cl
    return None


def outcome(fn):
    """('ok', obj) or (kind, clause)"""
    with warnings.catch_warnings():
        warnings.simplefilter("ignore")
        old = np.seterr(all="ignore")
        try:
            return "ok", fn()
        except Exception as e:  # noqa: BLE001
            return exc_kind(e), clause_of(e)
        finally:
            np.seterr(**old)


def snap(a):
    return (a.tobytes(), a.shape, a.dtype.str) if isinstance(a, np.ndarray) else None


def same_snap(a, s):
    return s is None or snap(a) == s


def shapes():
    import coxeter
    return coxeter.shapes


def compare_decision(ctx, op, case, impl, model_kind):
    """impl = (kind, clause|obj); model_kind = 'ok' or 'ValueError:clause' / other kind"""
    ik = impl[0]
    if model_kind == "ok":
        if ik != "ok":
            ctx.disagree(op, case, ["model accepts, implementation raised", ik, impl[1]])
            return False
        return True
    mk, _, mcl = model_kind.partition(":")
    if mk == "other":
        mk = model_kind
        mcl = ""
    if ik == "ok":
        ctx.disagree(op, case, ["model raises " + model_kind + ", implementation accepts"])
        return False
    if ik != mk:
        ctx.disagree(op, case, ["exception kinds differ", ik, model_kind])
        return False
    if impl[1] is not None and mcl and impl[1] != mcl:
        ctx.disagree(op, case, ["different check rejects", impl[1], mcl])
        return False
    return True


def as_rows3(v):
    """(ndim, ncols, rows padded to 3 columns) of np.array(vertices)"""
    try:
        a = np.array(v, dtype=np.float64)
    except Exception:  # ragged
        return None
    ndim = a.ndim
    ncols = a.shape[1] if ndim == 2 else 0
    if ndim == 2 and ncols in (2, 3):
        rows = a if ncols == 3 else np.c_[a, np.zeros(len(a))]
        return ndim, ncols, [r for r in rows]
    return ndim, ncols, []


def normal_tokens(normal):
    if normal is None:
        return [0, np.zeros(3)]
    return [1, np.asarray(normal, dtype=float)]


def make_arg(values, arg_type):
    if values is None:
        return None
    if arg_type == "list":
        return [list(map(float, r)) if isinstance(r, (list, tuple)) else float(r) for r in values]
    return np.array(values, dtype=np.float64)


def check_caller(ctx, cls, case, arg, snapshot, attr_arrays, which):
    """caller array bit-for-bit unchanged and not shared with any stored array"""
    if not isinstance(arg, np.ndarray):
        return
    if not same_snap(arg, snapshot):
        ctx.fail("%s.__init__:caller-array-modified:%s" % (cls, which),
                 "the constructor modified the caller's %s array" % which, case, [arg.tolist()])
    for name, arr in attr_arrays:
        if isinstance(arr, np.ndarray) and np.shares_memory(arr, arg):
            ctx.fail("%s.__init__:caller-array-stored:%s" % (cls, which),
                     "the constructed object's %s shares memory with the caller's %s array" % (name, which), case,
                     [name])


# --------------------------------------------------------------------------- Polygon


def model_polygon(ctx, case, v, normal, ptol, test_simple=True):
    """model decision ('ok' | kind) and the normal; None if the case is too close to a decision boundary"""
    from coxeter.shapes import polygon as pg
    r3 = as_rows3(v)
    if r3 is None:
        return None
    ndim, ncols, rows = r3
    ntok = normal_tokens(normal)
    try:
        r = ctx.driver.F("c15.polygon", ndim, ncols, L(rows), ntok, float(ptol), 0, L([]), 0)
    except ModelRaise as e:
        kind = e.kind
        if kind in ("ValueError:normal", "ValueError:coplanar") and near_boundary(ctx, ncols, rows, ntok, ptol):
            return None
        return kind, None
    if near_boundary(ctx, ncols, rows, ntok, ptol):
        return None
    n_model = np.array(r[0:3])
    if not test_simple:
        return "ok", n_model
    V = np.array(rows)
    with warnings.catch_warnings():
        warnings.simplefilter("ignore")
        aligned, _ = pg._align_points_by_normal(n_model, V)
    asserted = sweep_asserts(aligned)
    try:
        r = ctx.driver.F("c15.polygon", ndim, ncols, L(rows), ntok, float(ptol), 1, L([a for a in aligned]),
                         1 if asserted else 0)
        fkind = "ok"
    except ModelRaise as e:
        fkind = e.kind
    if fkind not in ("ok", "ValueError:simple"):
        return fkind, n_model
    # The simplicity predicate at Float is unreliable where non-adjacent edges are (nearly) collinear — all four
    # orientation values of such a pair are rounding noise, and noise of opposite signs looks like a proper crossing —
    # although the edges are far apart. The verdict of the model is therefore taken from the EXACT evaluation (rationals)
    # of the same predicate on the same aligned doubles.
    exact = bool(ctx.driver.Q("c15.simple", L([a for a in aligned]))[0]) and not asserted
    if exact != (fkind == "ok"):
        ctx.count("model:float-orientation-overruled-by-exact")
    return ("ok" if exact else "ValueError:simple"), n_model


def sweep_asserts(aligned):
    """the EXTERNAL of the model: does the Bentley-Ottmann sweep fail one of its internal assertions on the vertices as
    `_is_simple` prepares them (x, y of the aligned points, centred, divided by the largest |coordinate|)?"""
    from coxeter.extern.bentley_ottmann import poly_point_isect
    v = np.asarray(aligned, dtype=np.float64)[:, :2]
    v = v - np.mean(v, axis=0)
    extent = np.max(np.abs(v))
    if extent > 0:
        v = v / extent
    try:
        with warnings.catch_warnings():
            warnings.simplefilter("ignore")
            poly_point_isect.isect_polygon(v)
        return False
    except AssertionError:
        return True
    except Exception:  # noqa: BLE001   (anything else is for the comparison with the implementation to show)
        return False


def near_boundary(ctx, ncols, rows, ntok, ptol):
    if not rows:
        return False
    s1, s2 = ctx.driver.F("c15.slacks", ncols, L(rows), ntok, float(ptol))
    V = np.array(rows)
    size = max(gen.diameter(V), float(np.max(np.abs(V))), 1e-300)
    if not (np.isfinite(s1) and np.isfinite(s2)):
        return False  # nan normal: np.isclose is False whatever the tolerance, no boundary
    # the two sides of each np.isclose differ between model and implementation by rounding only (~1e-15*size, size = largest |coordinate|)
    return abs(s1) < 1e-9 or abs(s2) < 1e-12 * size


def eval_polygon(ctx, case):
    sh = shapes()
    arg_type = case.get("arg_type", "ndarray")
    V = make_arg(case["vertices"], arg_type)
    N = make_arg(case.get("normal"), case.get("normal_type", "ndarray"))
    sV, sN = snap(V), snap(N)
    ptol = case.get("planar_tolerance", 1e-5)
    kw = {}
    if N is not None:
        kw["normal"] = N
    if "planar_tolerance" in case:
        kw["planar_tolerance"] = ptol
    impl = outcome(lambda: sh.Polygon(V, **kw))
    expect, why = case["expect"], case["why"]
    # ------------- C: oracle
    if expect == "accept":
        if impl[0] != "ok":
            ctx.fail("Polygon.__init__:rejects-valid:" + why,
                     "Polygon raised %s (%s) on a clearly valid polygon" % (impl[0], impl[1]), case, list(impl))
        else:
            p = impl[1]
            check_polygon_object(ctx, "Polygon", case, p, np.array(case["vertices"], dtype=float),
                                 case.get("normal"), same_order=True)
    elif expect == "reject":
        if impl[0] == "ok":
            ctx.fail("Polygon.__init__:accepts-invalid:" + why,
                     "Polygon accepted a clearly invalid vertex list (%s)" % why, case, [])
        elif impl[0] != "ValueError":
            sig = "Polygon.__init__:wrong-exception:" + why
            if (impl[0] == "AssertionError" and why == "crossing"
                    and case.get("info", {}).get("kind") in BOUNDARY_KINDS):
                # the notch families have collinear disjoint edges; in almost-axis-aligned planes the sweep trips over
                # them (repaired by b73b691: _is_simple catches the AssertionError) — kept apart from AssertionErrors on
                # any other kind of crossing cycle
                sig += ":sweep-assertion:collinear-edges"
            ctx.fail(sig, "Polygon raised %s instead of ValueError" % impl[0], case, [impl[0]])
    else:
        # exactly ON the decision boundary (outside the property's quantifier): accept / reject is recorded, not judged —
        # but whatever is raised must be a ValueError ("either an object or ValueError" has no quantifier)
        ctx.count("observed:%s:%s" % (why, "accepted" if impl[0] == "ok" else impl[0]))
        if impl[0] not in ("ok", "ValueError"):
            ctx.fail("Polygon.__init__:wrong-exception:boundary",
                     "Polygon raised %s instead of ValueError on a touching / overlapping cycle" % impl[0], case,
                     [impl[0]])
    obj = impl[1] if impl[0] == "ok" else None
    check_caller(ctx, "Polygon", case, V, sV,
                 [("vertices", getattr(obj, "_vertices", None)), ("normal", getattr(obj, "_normal", None))], "vertices")
    check_caller(ctx, "Polygon", case, N, sN,
                 [("vertices", getattr(obj, "_vertices", None)), ("normal", getattr(obj, "_normal", None))], "normal")
    if obj is not None and isinstance(V, np.ndarray) and V.size:
        before = np.array(obj.vertices)
        V += 1.0  # mutate the caller's array afterwards: the polygon must not move
        if not np.array_equal(before, obj.vertices):
            ctx.fail("Polygon.__init__:caller-array-stored:vertices", "mutating the caller's array moved the polygon",
                     case, [])
    # exact spec on the generating coordinates (ties generator, python oracle and Lean spec together)
    if "p2" in case:
        q = ctx.driver.Q("spec.c15.simple", L([np.asarray(r, dtype=float) for r in case["p2"]]))
        want = (expect == "accept") if why in ("simple", "crossing", "straight-first-corner",
                                               "nearly-straight-first-corner",
                                               "coplanarity-depends-on-placement") else None
        if why.startswith("boundary-"):
            want = False        # closed segments: touching / overlapping is "not simple"
        if want is not None and q[0] != want:
            ctx.fail("Spec.simple:oracle-mismatch", "Lean spec (exact Q) disagrees with the integer oracle", case, q)
        if case.get("info", {}).get("star") and "p2" in case:
            # the seeded fast path's premise: every turn of a star {n/k} has the same sign (Spec.sameTurns, exact)
            if not ctx.driver.Q("spec.c15.sameturns", L([np.asarray(r, dtype=float) for r in case["p2"]]))[0]:
                ctx.fail("Spec.sameTurns:oracle-mismatch", "a star polygon {n/k} must turn the same way everywhere",
                         case, [])
    if expect == "observe":
        return
    # ------------- B: model decision
    m = model_polygon(ctx, case, case["vertices"], case.get("normal"), ptol)
    if m is None:
        ctx.skipped_near_boundary += 1
        ctx.count("skip:polygon-tolerance-boundary")
        return
    ok = compare_decision(ctx, "c15.polygon", case, impl, m[0])
    if ok and impl[0] == "ok" and m[1] is not None:
        if not ctx.close_enough(np.array(impl[1].normal), m[1], 1.0):
            ctx.disagree("c15.polygon:normal", case, [np.array(impl[1].normal), m[1]])


def check_polygon_object(ctx, cls, case, p, vin, normal, same_order):
    """defining condition of an accepted polygon, independently of the constructor's own tests"""
    v3 = vin if vin.shape[1] == 3 else np.c_[vin, np.zeros(len(vin))]
    pv = np.array(p.vertices, dtype=float)
    size = max(gen.diameter(v3), 1e-300)
    if same_order:
        if pv.shape != v3.shape or not np.array_equal(pv, v3):
            ctx.fail("%s.__init__:vertices-changed" % cls, "stored vertices differ from the input vertices", case,
                     [pv.tolist()])
            return False
    else:
        a = pv[np.lexsort(pv.T[::-1])]
        b = v3[np.lexsort(v3.T[::-1])]
        if a.shape != b.shape or not np.array_equal(a, b):
            ctx.fail("%s.__init__:vertex-set-changed" % cls, "stored vertices are not a permutation of the input",
                     case, [pv.tolist()])
            return False
    n = np.array(p.normal, dtype=float)
    # well-conditioned first corner: the normal is accurate to rounding. A nearly straight first corner amplifies the
    # rounding of the cross product (the constructor's own plane test then bounds the tilt by ~2e-4): judged with a
    # tenth of the property's planarity margin (1 % of the size).
    ntol = 1e-3 * size if case.get("why") == "nearly-straight-first-corner" else 1e-7 * size + 1e-7
    if not (abs(np.linalg.norm(n) - 1) < 1e-9 and np.max(np.abs((pv - pv[0]) @ n)) < ntol):
        ctx.fail("%s.__init__:normal-not-normal" % cls, "stored normal is not a unit normal of the vertex plane", case,
                 [n.tolist()])
        return False
    if normal is not None:
        nn = np.asarray(normal, dtype=float)
        if np.dot(n, nn / np.linalg.norm(nn)) < 1 - 1e-6:
            ctx.fail("%s.__init__:normal-not-supplied-one" % cls, "stored normal is not the supplied direction", case,
                     [n.tolist()])
            return False
    return True


PLACEMENT_SCALES = [2.0 ** -30, 2.0 ** -20, 2.0 ** -10, 1.0, 2.0 ** 10, 2.0 ** 20, 2.0 ** 30]
PLACEMENT_OFFSETS = ["through-origin", "in-plane-far", "normal-far", "generic-far"]


def placement_embed(rng, p2, k=None):
    """The placements at which a test that compares with the distance of the PLANE FROM THE ORIGIN, or with an absolute
    size, goes wrong (744f807): size 2^-30 .. 2^30, a plane through the origin (d = 0: nothing but rounding is
    tolerated by a relative test against d), the polygon moved 1e3 .. 1e6 diameters within its plane, along its normal,
    or in a generic direction; generic, almost-axis-aligned or axis-aligned orientation."""
    p2 = np.asarray(p2, dtype=float)
    k = int(rng.integers(10 ** 6)) if k is None else k
    sc = PLACEMENT_SCALES[k % len(PLACEMENT_SCALES)]
    off = PLACEMENT_OFFSETS[(k // len(PLACEMENT_SCALES)) % len(PLACEMENT_OFFSETS)]
    orient = ["random", "random", "neartilt", "axis"][int(rng.integers(4))]
    if orient == "random":
        R = gen.random_rotation(rng)
    elif orient == "neartilt":
        R = gen.near_axis_rotation(rng)
    else:
        R = np.eye(3)[:, [[1, 2, 0], [2, 0, 1], [0, 1, 2]][int(rng.integers(3))]]
    u, w, n = R[:, 0], R[:, 1], R[:, 2]
    q = p2 * sc
    d = float(np.max(np.linalg.norm(q[:, None] - q[None], axis=-1)))
    far = float(10 ** rng.uniform(3, 6)) * d * (1.0 if rng.random() < 0.5 else -1.0)
    if off == "through-origin":
        t = np.zeros(3)
    elif off == "in-plane-far":
        a = rng.uniform(0, 2 * np.pi)
        t = far * (np.cos(a) * u + np.sin(a) * w)
    elif off == "normal-far":
        t = far * n
    else:
        g = rng.normal(size=3)
        t = far * g / np.linalg.norm(g)
    v = t[None, :] + q[:, :1] * u[None, :] + q[:, 1:2] * w[None, :]
    return v, {"mode": "placement", "scale": sc, "offset": off, "orientation": orient, "n_true": n.tolist()}


def embed_any(rng, p2, mode):
    """(vertices, embed info) for mode in n2 / xy / xyz0 / random / far / neartilt / axis / extreme / placement"""
    p2 = np.asarray(p2, dtype=float)
    if mode == "placement":
        return placement_embed(rng, p2)
    if mode == "n2":
        sc = 1.0 if rng.random() < 0.5 else float(10 ** rng.uniform(-3, 3))
        return p2 * sc, {"mode": "n2", "scale": sc, "n_true": [0.0, 0.0, 1.0]}
    if mode == "extreme":
        v, e = extreme_embed(rng, p2)
        return v, e
    if mode == "axis":
        # a coordinate plane other than xy, exactly: (x, y) -> (c, x, y) [normal +x] or (y, c, x) [normal +y]
        sc = 1.0 if rng.random() < 0.5 else float(2.0 ** int(rng.integers(-10, 11)))
        c = float(np.round(rng.uniform(-5, 5) * 16) / 16) * sc
        q = p2 * sc
        if rng.random() < 0.5:
            return np.c_[np.full(len(q), c), q[:, 0], q[:, 1]], {"mode": "axis", "scale": sc, "n_true": [1.0, 0.0, 0.0]}
        return np.c_[q[:, 1], np.full(len(q), c), q[:, 0]], {"mode": "axis", "scale": sc, "n_true": [0.0, 1.0, 0.0]}
    if mode == "neartilt":
        sc = 1.0 if rng.random() < 0.5 else float(10 ** rng.uniform(-3, 3))
        v, fr = gen.embed_polygon(rng, p2, plane="neartilt", scale=sc)
        return v, {"mode": "neartilt", "scale": sc, "n_true": np.asarray(fr["n"]).tolist(),
                   "offset_diams": fr["offset_diams"]}
    return gen.c15_embed(rng, p2, mode)


CROSSING_KINDS = ["bowtie", "star", "doublewind", "twolaps", "spiralchord", "figure8", "pushthrough"]
BOUNDARY_KINDS = ["touch", "overlap", "tjunction"]
EMBED_MODES = ["n2", "xy", "xyz0", "random", "far", "neartilt", "axis", "extreme", "random", "placement"]


def polygon_cases(ctx, n_simple, n_cross, n_other):
    rng = ctx.rng
    yield from crossing_kind_cases(ctx, max(2, n_cross // 12))
    yield from near_straight_cases(ctx, max(6, n_simple // 6))
    yield from placement_cases(ctx, max(1, n_simple // 70))
    for i in range(max(16, n_simple // 4)):
        # two neighbouring vertices 1.5e-3..1e-2 diameters apart, at an end of the scale range (and (N,2) at scale 1e-3):
        # clearly different vertices whatever the absolute size
        p2, info = gen.c15_close_vertices_polygon(rng)
        if i % 4 == 0:
            sc = 1e-3 * float(rng.uniform(1.0, 2.0))
            v, e = p2 * sc, {"mode": "n2", "scale": sc, "n_true": [0.0, 0.0, 1.0]}
        else:
            v, e = extreme_embed(rng, p2)
        ctx.count("polygon:simple:close-vertices:scale-%s" % ("small" if e["scale"] < 1 else "large"))
        ctx.count("embed:" + e["mode"])
        yield {"kind": "polygon", "expect": "accept", "why": "simple", "p2": p2.tolist(),
               "info": dict(info, kind="close-vertices", clockwise=info.get("clockwise")),
               "vertices": np.asarray(v).tolist(), "embed": e, "arg_type": "ndarray" if rng.random() < 0.7 else "list"}
    for _ in range(n_simple):
        p2, info = gen.c15_simple_polygon(rng)
        mode = ["n2", "xy", "xyz0", "random", "random", "random", "far", "far", "axis", "neartilt"][int(rng.integers(10))]
        if mode == "far" and rng.random() < 0.7:   # the sweep is most fragile on stars / spirals far from the origin
            p2, info = gen.c15_simple_polygon(rng, kind=["star", "spiral"][int(rng.integers(2))])
        case = {"kind": "polygon", "expect": "accept", "why": "simple", "p2": p2.tolist(), "info": info}
        if mode == "n2":
            sc = 1.0 if rng.random() < 0.5 else float(10 ** rng.uniform(-3, 3))
            case["vertices"] = (p2 * sc).tolist()
            n_true = [0.0, 0.0, 1.0]
            case["embed"] = {"mode": "n2", "scale": sc}
        else:
            v, e = embed_any(rng, p2, mode)
            case["vertices"] = np.asarray(v).tolist()
            n_true = e["n_true"]
            case["embed"] = e
        u = rng.random()
        if u < 0.3:   # explicit normal, either sign, any length, float64 ndarray
            sgn = 1.0 if rng.random() < 0.5 else -1.0
            case["normal"] = (np.array(n_true) * sgn * float(np.exp(rng.uniform(-2, 2)))).tolist()
            case["normal_type"] = "ndarray" if rng.random() < 0.8 else "list"
            ctx.count("normal:explicit" + ("+" if sgn > 0 else "-"))
        case["arg_type"] = "ndarray" if rng.random() < 0.8 else "list"
        ctx.count("polygon:simple:" + info["kind"])
        ctx.count("orientation:" + ("cw" if info["clockwise"] else "ccw"))
        ctx.count("embed:" + case["embed"]["mode"])
        yield case
    for _ in range(max(3, n_simple // 12)):
        # simple polygon whose first three vertices are exactly collinear (a straight angle at vertex 1)
        p2, info = gen.c15_straight_first_corner(rng)
        mode = ["n2", "xy", "xyz0"][int(rng.integers(3))]
        case = {"kind": "polygon", "expect": "accept", "why": "straight-first-corner", "p2": p2.tolist(), "info": info}
        if mode == "n2":
            case["vertices"] = p2.tolist()
            case["embed"] = {"mode": "n2"}
        else:
            v, e = gen.c15_embed(rng, p2, mode)
            case["vertices"] = v.tolist()
            case["embed"] = e
        ctx.count("polygon:simple:straight-first-corner")
        yield case
    for _ in range(n_cross):
        q2, info = gen.c15_crossing_polygon(rng)
        mode = ["n2", "xy", "random", "random"][int(rng.integers(4))]
        case = {"kind": "polygon", "expect": "reject", "why": "crossing", "p2": q2.tolist(), "info": info}
        if mode == "n2":
            case["vertices"] = q2.tolist()
            case["embed"] = {"mode": "n2"}
        else:
            v, e = gen.c15_embed(rng, q2, mode)
            case["vertices"] = v.tolist()
            case["embed"] = e
        ctx.count("polygon:crossing:" + info["kind"])
        yield case
    for _ in range(n_other):
        p2, info = gen.c15_simple_polygon(rng)
        v, e = gen.c15_embed(rng, p2)
        why = ["duplicate", "short", "nonplanar", "nonplanar", "nonplanar", "badnormal", "badnormal", "shape",
               "duplicate-adjacent"][int(rng.integers(9))]
        case = {"kind": "polygon", "expect": "reject", "why": why, "info": info, "embed": e}
        if why in ("duplicate", "duplicate-adjacent"):
            n = len(v)
            i = int(rng.integers(n))
            j = (i + 1) % n if why == "duplicate-adjacent" else int((i + 1 + rng.integers(n - 1)) % n)
            w = v.copy()
            w[j] = w[i]
            case["vertices"] = w.tolist()
        elif why == "short":
            k = int(rng.integers(0, 3))
            case["vertices"] = v[:k].tolist()
        elif why == "shape":
            k = int(rng.integers(4))
            if k == 0:
                case["vertices"] = np.c_[v, np.ones(len(v))].tolist()        # (N,4)
            elif k == 1:
                case["vertices"] = v[:, :1].tolist()                          # (N,1)
            elif k == 2:
                case["vertices"] = v.ravel().tolist()                         # 1-D
            else:
                case["vertices"] = [v.tolist(), v.tolist()]                   # 3-D
        elif why == "nonplanar":
            if len(v) < 4:
                continue
            w, li = gen.c15_lift(rng, v, e["n_true"])
            size = gen.diameter(w)
            if gen.c15_width(w) / 2 <= 2e-4 * size + 2e-8:
                ctx.count("dropped:nonplanar-width")
                continue
            case["vertices"] = w.tolist()
            case["lift"] = li
        else:  # badnormal: tilted by >= 0.1 rad
            t = np.array(e["n_true"])
            a = rng.normal(size=3)
            a -= a.dot(t) * t
            a /= np.linalg.norm(a)
            ang = float(rng.uniform(0.1, np.pi - 0.1))
            case["vertices"] = v.tolist()
            case["normal"] = ((np.cos(ang) * t + np.sin(ang) * a) * float(np.exp(rng.uniform(-1, 1)))).tolist()
            if abs(np.cos(ang)) > 1 - 1e-3:
                continue
        ctx.count("polygon:" + why)
        yield case


def crossing_kind_cases(ctx, reps):
    """EVERY kind of self-intersecting cycle in every run: bow-ties, star polygons {n/k} of points in convex position
    (all turns of the same sign), two laps / double windings, spirals closed by a chord, figure-eights, a vertex pushed
    through a far edge; the boundary families (vertex ON an edge, collinear OVERLAP, spike tip on an edge) pushed
    through by 1e-3..1e-2 of the height (clearly crossing) or held back by as much (clearly simple), and — observed
    only — exactly on the boundary.  Each in (N,2) and (N,3) form, in axis planes, tilted, almost-axis-aligned and far
    placements."""
    rng = ctx.rng
    k = 0
    for _ in range(reps):
        for kind in CROSSING_KINDS:
            q2, info = gen.c15_crossing_kind(rng, kind)
            mode = EMBED_MODES[k % len(EMBED_MODES)]
            k += 1
            v, e = embed_any(rng, q2, mode)
            case = {"kind": "polygon", "expect": "reject", "why": "crossing", "p2": q2.tolist(), "info": info,
                    "vertices": np.asarray(v).tolist(), "embed": e}
            if mode != "n2" and rng.random() < 0.35:     # an explicit normal of any length / sign does not help either
                sgn = 1.0 if rng.random() < 0.5 else -1.0
                case["normal"] = (np.array(e["n_true"]) * sgn * float(np.exp(rng.uniform(-2, 2)))).tolist()
            case["arg_type"] = "ndarray" if rng.random() < 0.7 else "list"
            ctx.count("polygon:crossing:" + kind)
            ctx.count("embed:" + mode)
            yield case
        for kind in BOUNDARY_KINDS:
            for side in (-1.0, 1.0):
                d = side * float(np.exp(rng.uniform(np.log(1e-3), np.log(1e-2))))
                q2, info = gen.c15_boundary_cycle(rng, kind, delta=d)
                mode = EMBED_MODES[k % len(EMBED_MODES)]
                k += 1
                v, e = embed_any(rng, q2, mode)
                ok = side > 0
                ctx.count("polygon:%s:near-%s" % ("simple" if ok else "crossing", kind))
                yield {"kind": "polygon", "expect": "accept" if ok else "reject", "why": "simple" if ok else "crossing",
                       "p2": q2.tolist(), "info": dict(info, clockwise=None), "vertices": np.asarray(v).tolist(),
                       "embed": e, "arg_type": "ndarray" if rng.random() < 0.7 else "list"}
            q2, info = gen.c15_boundary_cycle(rng, kind, delta=0.0)
            mode = ["n2", "xy", "xyz0"][k % 3]
            v, e = embed_any(rng, q2, mode) if mode != "n2" else (q2, {"mode": "n2"})
            ctx.count("polygon:boundary:" + kind)
            yield {"kind": "polygon", "expect": "observe", "why": "boundary-" + kind, "p2": q2.tolist(), "info": info,
                   "vertices": np.asarray(v).tolist(), "embed": e}


def placement_cases(ctx, reps):
    """every size 2^-30 .. 2^30 x every kind of offset (plane through the origin, far within the plane, far along the
    normal, far in a generic direction), each with a clearly valid polygon (must be accepted) and with the same kind of
    polygon one vertex of which is lifted off the plane by > 1 % of the diameter (must be rejected): the decision may
    not depend on where the polygon is or how large it is (744f807)."""
    rng = ctx.rng
    k = int(rng.integers(1000))
    for _ in range(reps):
        for j in range(len(PLACEMENT_SCALES) * len(PLACEMENT_OFFSETS)):
            p2, info = gen.c15_simple_polygon(rng, margin=1e-2)
            v, e = placement_embed(rng, p2, k + j)
            tag = "scale-2^%d:%s" % (int(round(np.log2(e["scale"]))), e["offset"])
            if j % 2 == 0 or len(p2) < 4:
                ctx.count("polygon:placement:valid:" + tag)
                case = {"kind": "polygon", "expect": "accept", "why": "coplanarity-depends-on-placement",
                        "p2": p2.tolist(), "info": info, "vertices": v.tolist(), "embed": e}
                if rng.random() < 0.3:
                    sgn = 1.0 if rng.random() < 0.5 else -1.0
                    case["normal"] = (np.array(e["n_true"]) * sgn * float(np.exp(rng.uniform(-2, 2)))).tolist()
                yield case
            else:
                w, li = gen.c15_lift(rng, v, e["n_true"])
                if gen.c15_width(w) / 2 <= 2e-4 * gen.diameter(w):
                    ctx.count("dropped:nonplanar-width")
                    continue
                ctx.count("polygon:placement:lifted:" + tag)
                yield {"kind": "polygon", "expect": "reject", "why": "nonplanar-at-placement", "info": info,
                       "vertices": w.tolist(), "embed": e, "lift": li}
        k += 3


def near_straight_cases(ctx, n):
    """simple planar polygons whose FIRST corner deviates from a straight angle by 1e-12 .. 1e-3 rad: clearly simple
    (a straight angle is no decision boundary of simplicity), planar up to rounding — the property demands acceptance."""
    rng = ctx.rng
    for i in range(n):
        lo, hi = [(1e-12, 1e-9), (1e-9, 1e-6), (1e-6, 1e-3)][i % 3]
        p2, info = gen.c15_near_straight_first_corner(rng, lo, hi)
        mode = ["random", "neartilt", "random", "xy", "n2", "far"][i % 6]
        v, e = embed_any(rng, p2, mode)
        ctx.count("polygon:simple:nearly-straight-first-corner:%s" % ("<1e-9" if hi <= 1e-9 else "<1e-6" if hi <= 1e-6 else "<1e-3"))
        ctx.count("embed:" + mode)
        yield {"kind": "polygon", "expect": "accept", "why": "nearly-straight-first-corner", "p2": p2.tolist(),
               "info": info, "vertices": np.asarray(v).tolist(), "embed": e}


# --------------------------------------------------------------------------- direct differential runs of _is_simple


def eval_is_simple(ctx, case):
    from coxeter.shapes import polygon as pg
    p = np.array(case["p2"], dtype=float) * case.get("scale", 1.0) + np.array(case.get("shift", [0.0, 0.0]))
    pl = np.c_[p, np.zeros(len(p))]
    impl = outcome(lambda: bool(pg._is_simple(pl)))
    # the model's verdict on the very doubles the implementation gets, evaluated exactly (see model_polygon)
    m = ctx.driver.Q("c15.simple", L([r for r in pl]))[0]
    if ctx.driver.F("c15.simple", L([r for r in pl]))[0] != m:
        ctx.count("model:float-orientation-overruled-by-exact")
    q = ctx.driver.Q("spec.c15.simple", L([np.asarray(r, dtype=float) for r in case["p2"]]))[0]
    want = case["expect"] == "accept"
    if q != want:
        ctx.fail("Spec.simple:oracle-mismatch", "Lean spec (exact Q) disagrees with the integer oracle", case, [q])
    if case.get("info", {}).get("star"):
        if not ctx.driver.Q("spec.c15.sameturns", L([np.asarray(r, dtype=float) for r in case["p2"]]))[0]:
            ctx.fail("Spec.sameTurns:oracle-mismatch", "a star polygon {n/k} must turn the same way everywhere", case, [])
    if impl[0] != "ok":
        ctx.fail("polygon._is_simple:raises", "_is_simple raised %s" % impl[0], case, list(impl))
        return
    if impl[1] != want:
        ctx.fail("polygon._is_simple:" + ("rejects-valid" if want else "accepts-invalid"),
                 "_is_simple returned %s on a clearly %s cycle" % (impl[1], "simple" if want else "crossing"), case, [])
    if impl[1] != m:
        ctx.disagree("c15.simple", case, [impl[1], m])


# --------------------------------------------------------------------------- ConvexPolygon / ConvexSpheropolygon


def eval_convex_polygon(ctx, case):
    from coxeter.shapes import polygon as pg
    from scipy.spatial import ConvexHull
    sh = shapes()
    V = make_arg(case["vertices"], case.get("arg_type", "ndarray"))
    N = make_arg(case.get("normal"), "ndarray")
    sV, sN = snap(V), snap(N)
    has_r = "radius" in case
    radius = float(case["radius"]) if has_r else None
    cls = "ConvexSpheropolygon" if has_r else "ConvexPolygon"
    kw = {"normal": N} if N is not None else {}
    if has_r:
        impl = outcome(lambda: sh.ConvexSpheropolygon(V, radius, **kw))
    else:
        impl = outcome(lambda: sh.ConvexPolygon(V, **kw))
    expect, why = case["expect"], case["why"]
    obj = impl[1] if impl[0] == "ok" else None
    poly = obj.polygon if (has_r and obj is not None) else obj
    if expect == "accept":
        if impl[0] != "ok":
            ctx.fail("%s.__init__:rejects-valid:%s" % (cls, why),
                     "%s raised %s (%s) on points in clear convex position" % (cls, impl[0], impl[1]), case, list(impl))
        else:
            vin = np.array(case["vertices"], dtype=float)
            if check_polygon_object(ctx, cls, case, poly, vin, case.get("normal"), same_order=False):
                ccw = ctx.driver.Q("spec.c15.ccw", np.array(poly.normal, dtype=float),
                                   L([r for r in np.array(poly.vertices, dtype=float)]))[0]
                if not ccw:
                    ctx.fail("%s.__init__:not-counter-clockwise" % cls,
                             "stored vertices are not in counter-clockwise convex order about the normal", case,
                             [np.array(poly.vertices).tolist(), np.array(poly.normal).tolist()])
            if has_r and not (obj.radius == radius):
                ctx.fail("%s.__init__:radius-changed" % cls, "stored radius differs", case, [obj.radius])
    else:
        if impl[0] == "ok":
            ctx.fail("%s.__init__:accepts-invalid:%s" % (cls, why), "%s accepted invalid input (%s)" % (cls, why),
                     case, [])
        elif impl[0] != "ValueError":
            ctx.fail("%s.__init__:wrong-exception:%s" % (cls, why), "%s raised %s instead of ValueError"
                     % (cls, impl[0]), case, [impl[0]])
    arrs = [("vertices", getattr(poly, "_vertices", None)), ("normal", getattr(poly, "_normal", None))]
    check_caller(ctx, cls, case, V, sV, arrs, "vertices")
    check_caller(ctx, cls, case, N, sN, arrs, "normal")
    # small inputs: the Lean spec of convex position (exact Q) on the generating coordinates
    if "p2" in case and len(case["p2"]) <= 8 and why in ("convex", "interior"):
        q = ctx.driver.Q("spec.c15.convexpos2", L([np.asarray(r, dtype=float) for r in case["p2"]]))[0]
        if q != (why == "convex"):
            ctx.fail("Spec.convexPosition2:oracle-mismatch", "Lean spec disagrees with the generator's class", case, [q])
    # ------------- B
    r3 = as_rows3(case["vertices"])
    ndim, ncols, rows = r3
    ntok = normal_tokens(case.get("normal"))
    ptol = 1e-5
    if has_r and not (radius >= 0):
        model = "ValueError:radius"   # the guard comes first; nothing else of the model is needed
        try:
            ctx.driver.F("c15.spheropolygon", ndim, ncols, L(rows), float(radius), ntok, 0, L([]))
            ctx.disagree("c15.spheropolygon", case, "model accepted an invalid radius")
        except ModelRaise as e:
            model = e.kind
        compare_decision(ctx, "c15.spheropolygon", case, impl, model)
        return
    pre = model_polygon(ctx, case, case["vertices"], case.get("normal"), ptol, test_simple=False)
    if pre is None:
        ctx.skipped_near_boundary += 1
        ctx.count("skip:polygon-tolerance-boundary")
        return
    if pre[0] != "ok":
        compare_decision(ctx, "c15.convexpolygon", case, impl, pre[0])
        return
    n_model = pre[1]
    Vr = np.array(rows)
    with warnings.catch_warnings():
        warnings.simplefilter("ignore")
        al, _ = pg._align_points_by_normal(n_model, Vr)
        alc, _ = pg._align_points_by_normal(n_model, Vr - np.mean(Vr, axis=0))
    try:
        hc = len(ConvexHull(al[:, :2]).vertices)
    except Exception:
        ctx.skipped_near_boundary += 1
        ctx.count("skip:hull-raised")
        return
    try:
        if has_r:
            r = ctx.driver.F("c15.spheropolygon", ndim, ncols, L(rows), float(radius), ntok, hc, L([a for a in alc]))
            r = r[1:]
        else:
            r = ctx.driver.F("c15.convexpolygon", ndim, ncols, L(rows), ntok, ptol, hc, L([a for a in alc]))
        model = "ok"
    except ModelRaise as e:
        model = e.kind
    op = "c15.spheropolygon" if has_r else "c15.convexpolygon"
    if not compare_decision(ctx, op, case, impl, model) or model != "ok":
        return
    mv = np.array(r[4:]).reshape(-1, 3)
    keys = np.array(ctx.driver.F("c15.anglegap", L([a for a in alc]))).reshape(-1, 2)
    ang = np.sort(keys[:, 0])
    gaps = np.diff(np.r_[ang, ang[0] + 2 * np.pi])
    if np.min(gaps) < 1e-7:
        ctx.skipped_near_boundary += 1
        ctx.count("skip:angle-tie")
        return
    if not np.array_equal(mv, np.array(poly.vertices)):
        ctx.disagree(op + ":order", case, [mv.tolist(), np.array(poly.vertices).tolist()])
    # vert_order itself (model of _reorder_verts on the same aligned points)
    order = ctx.driver.F("c15.reorder", L([a for a in alc]))
    if not np.array_equal(Vr[np.array(order, dtype=int)], np.array(poly.vertices)):
        ctx.disagree("c15.reorder", case, [order])


def extreme_embed(rng, p2):
    """z = 0 embedding, random proper rotation (half of the time), scale at an end of the quantifier's range"""
    v = np.c_[np.asarray(p2, dtype=float), np.zeros(len(p2))]
    R = gen.random_rotation(rng) if rng.random() < 0.5 else np.eye(3)
    v, sc = gen.c15_rescale(rng, v @ R.T)
    return v, {"mode": "extreme", "n_true": (R @ np.array([0.0, 0.0, 1.0])).tolist(), "scale": sc}


def convex_polygon_cases(ctx, n_perm_sets, n_random, n_interior, n_sphero):
    rng = ctx.rng

    def embed(p2, mode=None):
        mode = mode or ["n2", "xy", "random", "random", "axis", "neartilt", "placement"][int(rng.integers(7))]
        ctx.count("embed:" + mode)
        if mode == "n2":
            return np.array(p2, dtype=float), {"mode": "n2", "n_true": [0.0, 0.0, 1.0]}
        return embed_any(rng, p2, mode)

    # ALL permutations of small convex inputs
    for _ in range(n_perm_sets):
        for n in (3, 4, 5, 6):
            p2, info = gen.c15_convex_polygon(rng, n=n)
            v, e = embed(p2)
            perms = list(itertools.permutations(range(n)))
            if n == 6 and ctx.tier == "quick":
                # quick tier: every permutation for n <= 5, a sample of 200 of the 720 for n = 6 (all in the thorough tier)
                perms = [perms[i] for i in sorted(rng.choice(len(perms), size=200, replace=False))]
                ctx.count("convexpolygon:sampled-permutations:n=6")
            else:
                ctx.count("convexpolygon:all-permutations:n=%d" % n)
            for perm in perms:
                perm = list(perm)
                yield {"kind": "convexpolygon", "expect": "accept", "why": "convex", "vertices": v[perm].tolist(),
                       "p2": p2[perm].tolist(), "perm": perm, "embed": e}
    for _ in range(n_random):
        p2, info = gen.c15_convex_polygon(rng)
        v, e = embed(p2)
        perm = rng.permutation(len(p2)).tolist()
        case = {"kind": "convexpolygon", "expect": "accept", "why": "convex", "vertices": v[perm].tolist(),
                "p2": p2[perm].tolist(), "perm": perm, "embed": e, "info": info}
        if rng.random() < 0.3:
            sgn = 1.0 if rng.random() < 0.5 else -1.0
            case["normal"] = (np.array(e["n_true"]) * sgn * float(np.exp(rng.uniform(-2, 2)))).tolist()
            ctx.count("normal:explicit" + ("+" if sgn > 0 else "-"))
        ctx.count("convexpolygon:random-permutation")
        yield case
    for _ in range(n_interior):
        p2, info = gen.c15_convex_polygon(rng, n=int(rng.integers(3, 30)))
        shallow = rng.random() < 0.5
        try:
            x, depth = (gen.c15_shallow_interior_point2 if shallow else gen.c15_interior_point2)(rng, p2)
        except RuntimeError:      # sliver: no point deeper than the margin
            ctx.count("dropped:no-deep-interior-point")
            continue
        q2 = np.vstack([p2, x])
        perm = rng.permutation(len(q2)).tolist()
        if shallow:
            # a point interior by a clear RELATIVE margin (1.5e-3..1e-2 diameters) must be refused at every scale of the
            # quantifier: place the set at an extreme scale (1e-3 / 1e3), rotated, so that an absolute tolerance shows
            v, e = extreme_embed(rng, q2)
            ctx.count("convexpolygon:interior-point:scale-%s" % ("small" if e["scale"] < 1 else "large"))
        else:
            v, e = embed(q2)
        ctx.count("convexpolygon:interior-point" + (":shallow" if shallow else ""))
        yield {"kind": "convexpolygon", "expect": "reject", "why": "interior", "vertices": v[perm].tolist(),
               "p2": q2[perm].tolist(), "perm": perm, "embed": e, "depth": depth}
    for _ in range(n_sphero):
        p2, info = gen.c15_convex_polygon(rng, n=int(rng.integers(3, 13)))
        rk = ["zero", "positive", "negative", "nan"][int(rng.integers(4))]
        radius = {"zero": 0.0, "positive": float(np.exp(rng.uniform(-3, 3))), "negative": -float(np.exp(rng.uniform(-6, 3))),
                  "nan": "nan"}[rk]
        bad = rng.random() < 0.35
        if bad:
            shallow = rng.random() < 0.5
            try:
                x, _ = (gen.c15_shallow_interior_point2 if shallow else gen.c15_interior_point2)(rng, p2)
            except RuntimeError:
                ctx.count("dropped:no-deep-interior-point")
                continue
            p2 = np.vstack([p2, x])
        perm = rng.permutation(len(p2)).tolist()
        v, e = extreme_embed(rng, p2) if (bad and shallow) else embed(p2)
        ok = (not bad) and rk in ("zero", "positive")
        ctx.count("spheropolygon:radius-%s:%s" % (rk, "interior" if bad else "convex"))
        yield {"kind": "convexpolygon", "expect": "accept" if ok else "reject",
               "why": ("interior" if bad else "convex") if rk in ("zero", "positive") else "radius-" + rk,
               "vertices": v[perm].tolist(), "p2": p2[perm].tolist(), "perm": perm, "embed": e, "radius": radius}


# --------------------------------------------------------------------------- ConvexPolyhedron / ConvexSpheropolyhedron


def eval_convex_polyhedron(ctx, case):
    from scipy.spatial import ConvexHull
    sh = shapes()
    V = make_arg(case["vertices"], case.get("arg_type", "ndarray"))
    sV = snap(V)
    has_r = "radius" in case
    radius = float(case["radius"]) if has_r else None
    cls = "ConvexSpheropolyhedron" if has_r else "ConvexPolyhedron"
    if has_r:
        impl = outcome(lambda: sh.ConvexSpheropolyhedron(V, radius))
    else:
        impl = outcome(lambda: sh.ConvexPolyhedron(V))
    expect, why = case["expect"], case["why"]
    obj = impl[1] if impl[0] == "ok" else None
    poly = obj.polyhedron if (has_r and obj is not None) else obj
    vin = np.array(case["vertices"], dtype=float)
    if expect == "accept":
        if impl[0] != "ok":
            ctx.fail("%s.__init__:rejects-valid:%s" % (cls, why),
                     "%s raised %s (%s) on points in clear convex position" % (cls, impl[0], impl[1]), case, list(impl))
        else:
            pv = np.array(poly.vertices)
            if pv.shape != vin.shape or not np.array_equal(pv, vin):
                ctx.fail("%s.__init__:vertices-changed" % cls, "stored vertices differ from the input", case, [])
            faces_v = set(int(i) for f in poly.faces for i in f)
            if faces_v != set(range(len(vin))):
                ctx.fail("%s.__init__:vertex-not-on-a-face" % cls, "some vertex belongs to no face", case,
                         [sorted(set(range(len(vin))) - faces_v)])
            if has_r and not (obj.radius == radius):
                ctx.fail("%s.__init__:radius-changed" % cls, "stored radius differs", case, [obj.radius])
    elif expect == "reject":
        if impl[0] == "ok":
            ctx.fail("%s.__init__:accepts-invalid:%s" % (cls, why), "%s accepted invalid input (%s)" % (cls, why),
                     case, [])
        elif impl[0] != "ValueError":
            # (a spheropolyhedron's vertex checks ARE ConvexPolyhedron's: one signature for both)
            ctx.fail("%s.__init__:wrong-exception:%s" % ("ConvexPolyhedron" if case.get("degenerate") else cls, why),
                     "%s raised %s instead of ValueError" % (cls, impl[0]), case, [impl[0]])
    else:       # a point exactly ON the hull's boundary: outcome recorded only
        ctx.count("observed:%s:%s:%s" % (cls, why, "accepted" if impl[0] == "ok" else impl[0]))
    check_caller(ctx, cls, case, V, sV, [("vertices", getattr(poly, "_vertices", None))], "vertices")
    if poly is not None and isinstance(V, np.ndarray):
        before = np.array(poly.vertices)
        V *= 2.0
        if not np.array_equal(before, poly.vertices):
            ctx.fail("%s.__init__:caller-array-stored:vertices" % cls, "mutating the caller's array moved the shape",
                     case, [])
    # ------------- B
    try:
        hc = len(ConvexHull(vin).vertices)
    except ValueError:      # scipy's own input validation ("Points cannot contain NaN", "No points given")
        hc = -2
    except Exception:       # QhullError (a RuntimeError)
        hc = -1
    rows = [r for r in vin]
    try:
        if has_r:
            ctx.driver.F("c15.spheropolyhedron", L(rows), float(radius), hc)
        else:
            ctx.driver.F("c15.convexpolyhedron", L(rows), hc)
        model = "ok"
    except ModelRaise as e:
        model = e.kind
    compare_decision(ctx, "c15.spheropolyhedron" if has_r else "c15.convexpolyhedron", case, impl, model)


def convex_polyhedron_cases(ctx, n_valid, n_interior, n_sphero):
    rng = ctx.rng
    for _ in range(n_valid):
        v, info = gen.convex_solid(rng)
        ctx.count("convexpolyhedron:convex:" + info["kind"])
        yield {"kind": "convexpolyhedron", "expect": "accept", "why": "convex", "vertices": v.tolist(), "info": info}
    for _ in range(n_interior):
        v, info = gen.convex_solid(rng)
        shallow = rng.random() < 0.5
        try:
            x, depth = (gen.c15_shallow_interior_point3 if shallow else gen.c15_interior_point3)(rng, v)
        except RuntimeError:
            continue
        k = int(rng.integers(len(v) + 1))
        w = np.insert(v, k, x, axis=0)
        ctx.count("convexpolyhedron:interior-point" + (":shallow" if shallow else ""))
        yield {"kind": "convexpolyhedron", "expect": "reject", "why": "interior", "vertices": w.tolist(), "info": info,
               "depth": depth, "at": k}
    for _ in range(n_sphero):
        v, info = gen.convex_solid(rng)
        rk = ["zero", "positive", "negative", "nan"][int(rng.integers(4))]
        radius = {"zero": 0.0, "positive": float(np.exp(rng.uniform(-3, 3))), "negative": -float(np.exp(rng.uniform(-6, 3))),
                  "nan": "nan"}[rk]
        bad = rng.random() < 0.35
        if bad:
            try:
                x, _ = gen.c15_interior_point3(rng, v)
            except RuntimeError:
                continue
            v = np.insert(v, int(rng.integers(len(v) + 1)), x, axis=0)
        ok = (not bad) and rk in ("zero", "positive")
        ctx.count("spheropolyhedron:radius-%s:%s" % (rk, "interior" if bad else "convex"))
        yield {"kind": "convexpolyhedron", "expect": "accept" if ok else "reject",
               "why": ("interior" if bad else "convex") if rk in ("zero", "positive") else "radius-" + rk,
               "vertices": v.tolist(), "info": info, "radius": radius}


# --------------------------------------------------------------------------- curved shapes

CURVED = {"Circle": 1, "Sphere": 1, "Ellipse": 2, "Ellipsoid": 3}
FIELD = {"Circle": ["radius"], "Sphere": ["radius"], "Ellipse": ["a", "b"], "Ellipsoid": ["a", "b", "c"]}


def eval_curved(ctx, case):
    sh = shapes()
    cls = case["cls"]
    params = [float(x) for x in case["params"]]
    ctype = case.get("center_type", "ndarray")
    center = case.get("center")
    if center is None:
        C = None
    elif ctype == "ndarray":
        C = np.array(center, dtype=np.float64)
    elif ctype == "tuple":
        C = tuple(center)
    else:
        C = list(center)
    sC = snap(C)
    ctor = getattr(sh, cls)
    impl = outcome(lambda: ctor(*params) if C is None else ctor(*params, C))
    valid = all(x > 0 for x in params)
    bad = [FIELD[cls][i] for i, x in enumerate(params) if not x > 0]
    if valid:
        if impl[0] != "ok":
            ctx.fail("%s.__init__:rejects-valid" % cls, "%s raised %s on positive parameters" % (cls, impl[0]), case,
                     list(impl))
        else:
            o = impl[1]
            got = [float(getattr(o, f)) for f in FIELD[cls]]
            if got != params:
                ctx.fail("%s.__init__:parameters-changed" % cls, "stored parameters differ", case, got)
            want_c = np.zeros(3) if center is None else np.array(center, dtype=float)
            if not np.array_equal(np.array(o.centroid, dtype=float), want_c):
                ctx.fail("%s.__init__:centre-changed" % cls, "stored centre differs", case, [np.array(o.centroid).tolist()])
    else:
        if impl[0] == "ok":
            ctx.fail("%s.__init__:accepts-invalid:%s" % (cls, case["why"]),
                     "%s accepted a non-positive/nan parameter" % cls, case, params)
        elif impl[0] != "ValueError":
            ctx.fail("%s.__init__:wrong-exception:%s" % (cls, case["why"]), "%s raised %s instead of ValueError"
                     % (cls, impl[0]), case, [impl[0]])
    obj = impl[1] if impl[0] == "ok" else None
    check_caller(ctx, cls, case, C, sC, [("centroid", getattr(obj, "_centroid", None))], "center")
    if obj is not None and isinstance(C, np.ndarray):
        before = np.array(obj.centroid)
        C += 99.0   # the caller changes his array afterwards
        if not np.array_equal(before, np.array(obj.centroid)):
            ctx.fail("%s.__init__:caller-array-stored:center" % cls,
                     "mutating the caller's centre array moved the shape", case, [np.array(obj.centroid).tolist()])
    # ------------- B
    cen = np.zeros(3) if center is None else np.array(center, dtype=float)
    try:
        r = ctx.driver.F("c15." + cls.lower(), *params, cen)
        model = "ok"
    except ModelRaise as e:
        model = e.kind
        r = None
    if compare_decision(ctx, "c15." + cls.lower(), case, impl, model) and model == "ok":
        k = len(params)
        if list(r[:k]) != params or r[k + 3] != 0:
            ctx.disagree("c15." + cls.lower() + ":stored", case, r)
    if not valid and impl[0] == "ValueError" and impl[1] is not None and impl[1] != bad[0]:
        # the first offending field (in assignment order) is the one reported
        ctx.disagree("c15." + cls.lower() + ":first-field", case, [impl[1], bad[0]])


def curved_cases(ctx, n):
    rng = ctx.rng

    def val(kind):
        if kind == "positive":
            return float(np.exp(rng.uniform(-6, 6)))
        if kind == "zero":
            return 0.0 if rng.random() < 0.7 else -0.0
        if kind == "negative":
            return -float(np.exp(rng.uniform(-6, 6)))
        return "nan"

    # systematic: every class, every field x {zero, negative, nan} with the others positive, plus all-positive
    for cls, k in CURVED.items():
        combos = [["positive"] * k]
        for i in range(k):
            for bad in ("zero", "negative", "nan"):
                c = ["positive"] * k
                c[i] = bad
                combos.append(c)
        combos.append(["negative"] * k)
        combos.append(["zero"] * k)
        for c in combos:
            for ctype in (["ndarray", "list", "tuple", "default"] if c == ["positive"] * k else [None]):
                yield curved_case(ctx, rng, cls, [val(x) for x in c], c, ctype)
    for _ in range(n):
        cls = list(CURVED)[int(rng.integers(4))]
        c = [["positive", "positive", "positive", "zero", "negative", "nan"][int(rng.integers(6))]
             for _ in range(CURVED[cls])]
        yield curved_case(ctx, rng, cls, [val(x) for x in c], c)


def curved_case(ctx, rng, cls, params, kinds, ctype=None):
    ctype = ctype or ["ndarray", "ndarray", "list", "tuple", "default"][int(rng.integers(5))]
    center = None if ctype == "default" else (rng.normal(size=3) * float(np.exp(rng.uniform(-2, 4)))).tolist()
    valid = all(k == "positive" for k in kinds)
    ctx.count("curved:%s:%s" % (cls, "valid" if valid else "invalid"))
    ctx.count("center:" + ctype)
    return {"kind": "curved", "cls": cls, "params": params, "center": center, "center_type": ctype,
            "why": "+".join(kinds), "expect": "accept" if valid else "reject"}


# --------------------------------------------------------------------------- caller-array hygiene, all ten classes
#
# "A constructor never stores or modifies the caller's arrays": every array-like argument (vertices, normal, centre,
# faces) in every container kind; every ndarray the caller owns (incl. the base buffer of a view and the members of a
# list of arrays) is snapshotted byte for byte; after construction (successful or not) the snapshots must be unchanged,
# no ndarray reachable from the new object (nested: shape.polygon._vertices, ._normal, ._equations, faces …) may share
# memory with any of them; then the CALLER's arrays are overwritten and every observable of the shape must stay bitwise
# the same; then the shape is queried and mutated through its own public members and the caller's arrays must stay.

CLASSES10 = ["Polygon", "ConvexPolygon", "ConvexSpheropolygon", "Polyhedron", "ConvexPolyhedron",
             "ConvexSpheropolyhedron", "Circle", "Sphere", "Ellipse", "Ellipsoid"]
CONTAINERS = ["list", "tuple", "f64", "f32", "int", "view", "revview", "fortran", "readonly"]
KIND_CODE = {"list": 0, "tuple": 0, "f64": 1, "view": 1, "revview": 1, "fortran": 1, "readonly": 1, "f32": 2, "int": 2}


def make_container(kind, values, dtype_int=np.int64):
    """(argument object, list of ndarrays the caller owns that back it)"""
    a = np.array(values, dtype=np.float64)
    if kind == "list":
        return a.tolist(), []
    if kind == "tuple":
        return (tuple(map(tuple, a.tolist())) if a.ndim == 2 else tuple(a.tolist())), []
    if kind == "f64":
        x = a.copy()
        return x, [x]
    if kind == "f32":
        x = a.astype(np.float32)
        return x, [x]
    if kind == "int":
        x = a.astype(dtype_int)
        return x, [x]
    if kind == "fortran":
        x = np.asfortranarray(a.copy())
        return x, [x]
    if kind == "readonly":
        x = a.copy()
        x.setflags(write=False)
        return x, [x]
    if kind == "view":        # every second row / column of a larger buffer
        base = np.full(tuple(2 * n for n in a.shape), 7.25)
        base[(slice(None, None, 2),) * a.ndim] = a
        return base[(slice(None, None, 2),) * a.ndim], [base]
    if kind == "revview":     # negative strides
        base = a[::-1].copy()
        return base[::-1], [base]
    raise ValueError(kind)


def deep_arrays(o, prefix="", seen=None, depth=0):
    """every ndarray reachable from a coxeter object (attributes, nested objects, lists / tuples / dicts)"""
    seen = seen if seen is not None else set()
    if id(o) in seen or depth > 5:
        return []
    seen.add(id(o))
    if isinstance(o, np.ndarray):
        return [(prefix, o)]
    res = []
    if isinstance(o, (list, tuple)):
        for i, x in enumerate(o):
            res += deep_arrays(x, "%s[%d]" % (prefix, i), seen, depth + 1)
    elif isinstance(o, dict):
        for k, x in o.items():
            res += deep_arrays(x, "%s[%r]" % (prefix, k), seen, depth + 1)
    elif hasattr(o, "__dict__") and type(o).__module__.startswith("coxeter"):
        for k, x in vars(o).items():
            res += deep_arrays(x, prefix + "." + k, seen, depth + 1)
    return res


def full_snap(a):
    return (a.tobytes(), a.shape, a.dtype.str, a.strides)


def observables(obj, key=None):
    """name -> value of the cheap public read-outs of a shape (errors become strings)"""
    name = type(obj).__name__
    if name in ("Polygon", "ConvexPolygon"):
        names = ["vertices", "normal", "signed_area", "perimeter", "centroid", "num_vertices"]
    elif name == "ConvexSpheropolygon":
        names = ["vertices", "normal", "radius", "signed_area", "perimeter"]
    elif name in ("Polyhedron", "ConvexPolyhedron"):
        names = ["vertices", "faces", "volume", "surface_area", "centroid", "equations", "num_faces"]
    elif name == "ConvexSpheropolyhedron":
        names = ["vertices", "radius", "volume", "surface_area"]
    else:
        names = ["centroid"] + FIELD[name] + ["area" if name in ("Circle", "Ellipse") else "volume"]
    def reader(n):
        def read():
            try:
                v = getattr(obj, n)
                if n == "faces":
                    v = [int(i) for f in v for i in list(f) + [-1]]
                return np.array(v, dtype=float)
            except Exception as e:  # noqa: BLE001
                return "raises:" + type(e).__name__
        return read
    with warnings.catch_warnings():
        warnings.simplefilter("ignore")
        out, _ = read_shuffled({n: reader(n) for n in names}, key if key is not None else names)
    return out


def same_observables(a, b):
    bad = []
    for k in a:
        x, y = a[k], b[k]
        if isinstance(x, str) or isinstance(y, str):
            if not (isinstance(x, str) and isinstance(y, str) and x == y):
                bad.append(k)
        elif x.shape != y.shape or not np.array_equal(x, y, equal_nan=True):
            bad.append(k)
    return bad


def scribble(owned, rng):
    """the caller re-uses his buffers"""
    for a in owned:
        w = a.flags.writeable
        if not w:
            a.setflags(write=True)      # his own array: he may
        if a.dtype.kind == "f":
            a[...] = a * -1.75 + 3.5 + rng.normal(size=a.shape).astype(a.dtype)
        else:
            a[...] = a[..., ::-1] + 1 if a.ndim else a + 1
        if not w:
            a.setflags(write=False)


def exercise(obj, rng):
    """read everything once, then mutate the shape through its own public members (each failure ignored: this is not
    what is judged here)"""
    import history
    with warnings.catch_warnings():
        warnings.simplefilter("ignore")
        old = np.seterr(all="ignore")
        try:
            history.warm(obj, rng)
            name = type(obj).__name__
            ops = []
            if name in CURVED:
                ops += [lambda: setattr(obj, "centroid", np.array(obj.centroid, dtype=float) + 1.5)]
                ops += [(lambda f: (lambda: setattr(obj, f, float(getattr(obj, f)) * 1.25)))(f) for f in FIELD[name]]
                ops += [lambda: setattr(obj, "area" if name in ("Circle", "Ellipse") else "volume", 2.0)]
            elif name in ("Polygon", "ConvexPolygon"):
                ops += [lambda: setattr(obj, "area", float(obj.area) * 1.5),
                        lambda: setattr(obj, "centroid", np.array(obj.centroid, dtype=float) + 0.75),
                        lambda: setattr(obj, "perimeter", float(obj.perimeter) * 0.5),
                        lambda: obj.inertia_tensor, lambda: obj.to_hoomd()]
            elif name == "ConvexSpheropolygon":
                ops += [lambda: setattr(obj, "radius", float(obj.radius) + 0.5),
                        lambda: setattr(obj, "area", float(obj.area) * 1.5),
                        lambda: setattr(obj, "perimeter", float(obj.perimeter) * 0.5), lambda: obj.to_hoomd()]
            elif name in ("Polyhedron", "ConvexPolyhedron"):
                ops += [lambda: setattr(obj, "volume", float(obj.volume) * 1.5),
                        lambda: setattr(obj, "centroid", np.array(obj.centroid, dtype=float) + 0.75),
                        lambda: setattr(obj, "surface_area", float(obj.surface_area) * 0.5),
                        lambda: obj.sort_faces(), lambda: obj.merge_faces(), lambda: obj.inertia_tensor,
                        lambda: obj.diagonalize_inertia(), lambda: obj.to_hoomd()]
            else:
                ops += [lambda: setattr(obj, "radius", float(obj.radius) + 0.5),
                        lambda: setattr(obj, "volume", float(obj.volume) * 1.5),
                        lambda: setattr(obj, "surface_area", float(obj.surface_area) * 0.5), lambda: obj.to_hoomd()]
            for i in rng.permutation(len(ops)):
                try:
                    ops[int(i)]()
                except Exception:  # noqa: BLE001
                    pass
        finally:
            np.seterr(**old)


def build_hygiene_args(case):
    """(ctor thunk taking the containers, {argname: (object, owned arrays)})"""
    sh = shapes()
    cls = case["cls"]
    args = {}
    if cls in CURVED:
        if case.get("center_kind") != "default":
            args["center"] = make_container(case["center_kind"], case["center"])
        params = [float(x) for x in case["params"]]
        ctor = getattr(sh, cls)
        return (lambda a: ctor(*params, **a)), args
    args["vertices"] = make_container(case["vertices_kind"], case["vertices"])
    if case.get("normal") is not None:
        args["normal"] = make_container(case["normal_kind"], case["normal"])
    if cls == "Polyhedron":
        fk = case["faces_kind"]
        F = case["faces"]
        if fk in ("list", "tuple"):
            obj = [list(f) for f in F] if fk == "list" else tuple(tuple(f) for f in F)
            args["faces"] = (obj, [])
        elif fk in ("listarr", "tuplearr"):
            arrs = [np.array(f, dtype=np.int64) for f in F]
            args["faces"] = (arrs if fk == "listarr" else tuple(arrs), arrs)
        else:                                   # one 2-D ndarray (all faces of the same length)
            x = np.array(F, dtype=np.int32 if fk == "array2d32" else np.int64)
            args["faces"] = (x, [x])
    ctor = getattr(sh, cls)
    if cls in ("ConvexSpheropolygon", "ConvexSpheropolyhedron"):
        r = float(case["radius"])
        if cls == "ConvexSpheropolygon":
            return (lambda a: ctor(a["vertices"], r, **({"normal": a["normal"]} if "normal" in a else {}))), args
        return (lambda a: ctor(a["vertices"], r)), args
    return (lambda a: ctor(**a)), args


MODELLED_ATTR = {"vertices": "_vertices", "normal": "_normal", "centre": "_centroid", "equations": "_equations"}


def eval_hygiene(ctx, case):
    import history
    cls = case["cls"]
    ctor, args = build_hygiene_args(case)
    owned = {k: v[1] for k, v in args.items()}
    snaps = {k: [full_snap(a) for a in v] for k, v in owned.items()}
    impl = outcome(lambda: ctor({k: v[0] for k, v in args.items()}))
    obj = impl[1] if impl[0] == "ok" else None
    ctx.count("hygiene:%s:%s" % (cls, "constructed" if obj is not None else impl[0]))
    if case.get("expect") == "accept" and obj is None:
        sig = ("%s.__init__:rejects-valid" % cls if cls in CURVED
               else "%s.__init__:rejects-valid:%s" % (cls, "simple" if cls == "Polygon" else "convex"))
        ctx.fail(sig, "%s raised %s (%s) on valid geometry passed as %s" % (cls, impl[0], impl[1],
                 case.get("vertices_kind", case.get("center_kind"))), case, list(impl))
    # 1. the constructor (whether it returned or raised) left every caller array as it was
    modified = set()
    for k, arrs in owned.items():
        for a, sn in zip(arrs, snaps[k]):
            if full_snap(a) != sn:
                modified.add(k)
                ctx.fail("%s.__init__:caller-array-modified:%s" % (cls, k),
                         "the constructor modified the caller's %s array" % k, case, [a.tolist()])
    # 2. nothing reachable from the object shares memory with a caller array
    shared = {}        # attribute path -> argument name
    if obj is not None:
        for path, arr in deep_arrays(obj):
            for k, arrs in owned.items():
                if any(np.shares_memory(arr, a) for a in arrs):
                    shared[path] = k
        for k in sorted(set(shared.values())):
            paths = sorted(p_ for p_, kk in shared.items() if kk == k)
            ctx.fail("%s.__init__:caller-array-stored:%s" % (cls, k),
                     "arrays of the new object share memory with the caller's %s: %s" % (k, ", ".join(paths[:4])),
                     case, paths[:8])
    # B. the allocation model (np.array / np.asarray / list comprehension semantics) predicts exactly this
    core = obj
    if obj is not None and cls == "ConvexSpheropolygon":
        core = obj.polygon
    if obj is not None and cls == "ConvexSpheropolyhedron":
        core = obj.polyhedron
    if obj is not None:
        vk = KIND_CODE.get(case.get("vertices_kind", "list"), 0)
        nk = KIND_CODE[case["normal_kind"]] if case.get("normal") is not None else -1
        fk = {"list": 0, "tuple": 0, "listarr": 1, "tuplearr": 1, "array2d": 2, "array2d32": 2}.get(case.get("faces_kind"), 0)
        ck = KIND_CODE.get(case.get("center_kind"), 0) if case.get("center_kind") != "default" else 0
        nf = len(core.faces) if hasattr(core, "faces") and cls in ("Polyhedron", "ConvexPolyhedron", "ConvexSpheropolyhedron") else 0
        ncols = int(np.array(case["vertices"]).shape[1]) if "vertices" in case else 0
        r = [int(x) for x in ctx.driver.F("c15.alloc", CLASSES10.index(cls), ncols, vk, nk, fk, nf, ck)]
        mv, mn, mc, me, kw = r[0], r[1], r[2], r[3], r[4]
        writes = r[5:5 + kw]
        mfaces = r[6 + kw:]
        blockname = {1: "vertices", 2: "normal", 3: "center", 4: "faces"}
        blockname.update({10 + i: "faces" for i in range(nf)})
        model_shared = {}
        for attr, blk in (("_vertices", mv), ("_normal", mn), ("_centroid", mc), ("_equations", me)):
            if 0 <= blk < 1000:
                model_shared[attr] = blockname[blk]
        for i, blk in enumerate(mfaces):
            if 0 <= blk < 1000:
                model_shared["_faces[%d]" % i] = blockname[blk]
        impl_shared = {}
        for attr in ("_vertices", "_normal", "_centroid", "_equations"):
            arr = getattr(core, attr, None)
            if isinstance(arr, np.ndarray):
                for k, arrs in owned.items():
                    if any(np.shares_memory(arr, a) for a in arrs):
                        impl_shared[attr] = k
        if cls == "Polyhedron":
            for i, f in enumerate(core._faces):
                if isinstance(f, np.ndarray):
                    for k, arrs in owned.items():
                        if any(np.shares_memory(f, a) for a in arrs):
                            impl_shared["_faces[%d]" % i] = k
        if model_shared != impl_shared:
            ctx.disagree("c15.alloc:stored", case, [model_shared, impl_shared])
        model_mod = set(blockname[w] for w in writes if w < 1000)
        if model_mod != modified:
            ctx.disagree("c15.alloc:writes", case, [sorted(model_mod), sorted(modified)])
    if obj is None:
        return
    # 3. the caller re-uses his buffers: the shape does not notice
    hr = history.rng_for(case.get("vertices", case.get("center", [0.0])))
    okey = [cls, case.get("vertices_kind"), case.get("center_kind"), case.get("params"), case.get("vertices")]
    before = observables(obj, okey)
    for arrs in owned.values():
        scribble(arrs, hr)
    after = observables(obj, okey + ["after"])
    bad = same_observables(before, after)
    if bad:
        culprit = sorted(set(shared.values())) or sorted(owned)
        ctx.fail("%s.__init__:caller-array-stored:%s" % (cls, culprit[0]),
                 "overwriting the caller's arrays changed %s of the shape" % ", ".join(bad), case, bad)
    # 4. the shape is read and mutated through its own members: the caller's arrays do not notice
    snaps2 = {k: [full_snap(a) for a in v] for k, v in owned.items()}
    exercise(obj, hr)
    for k, arrs in owned.items():
        for a, sn in zip(arrs, snaps2[k]):
            if full_snap(a) != sn:
                ctx.fail("%s:caller-array-modified-later:%s" % (cls, k),
                         "queries / setters of the shape wrote into the caller's %s array" % k, case, [])


def hygiene_geometry(rng, cls, integer):
    """valid geometry for `cls`; integer = coordinates are (small) integers (exact in float32 / int containers)"""
    out = {}
    if cls in CURVED:
        out["params"] = [float(np.round(np.exp(rng.uniform(-2, 3)) * 64) / 64 + 0.125) for _ in range(CURVED[cls])]
        c = rng.integers(-50, 51, size=3).astype(float)
        out["center"] = (c if integer else c + rng.normal(size=3)).tolist()
        return out
    if cls in ("Polygon", "ConvexPolygon", "ConvexSpheropolygon"):
        for _ in range(100):
            if cls == "Polygon":
                p2, info = gen.c15_simple_polygon(rng, margin=2e-2)
            else:
                p2, info = gen.c15_convex_polygon(rng, n=int(rng.integers(3, 13)))
                p2 = p2[rng.permutation(len(p2))]
            if integer:
                q2 = np.round(p2 * 200 / max(1e-9, np.max(np.abs(p2))))
                if cls == "Polygon":
                    if not gen.c15_exact_simple(q2) or gen.c15_simple_margin(q2) < 1e-2 or gen.c15_corner_sines(q2)[1] < 0.05:
                        continue
                else:
                    o = np.argsort(np.arctan2(*(q2 - q2.mean(axis=0)).T[::-1]))
                    if len(set(map(tuple, q2.tolist()))) != len(q2) or gen.c15_convex_depth(q2[o]) < 2e-3:
                        continue
                    if gen.c15_corner_sines(q2)[1] < 0.05:
                        continue
                emb = ["n2", "z", "x", "lattice"][int(rng.integers(4))]
                if emb == "n2":
                    v, n_true = q2, np.array([0.0, 0.0, 1.0])
                elif emb == "z":
                    v, n_true = np.c_[q2, np.full(len(q2), float(rng.integers(-9, 10)))], np.array([0.0, 0.0, 1.0])
                elif emb == "x":
                    v, n_true = np.c_[np.full(len(q2), float(rng.integers(-9, 10))), q2], np.array([1.0, 0.0, 0.0])
                else:
                    v, n_true = np.c_[q2, q2[:, 0] + q2[:, 1]], np.array([-1.0, -1.0, 1.0])
                nscale = float(rng.integers(1, 6)) * (1.0 if rng.random() < 0.5 else -1.0)
            else:
                mode = ["n2", "xy", "random", "neartilt", "random"][int(rng.integers(5))]
                v, e = embed_any(rng, p2, mode)
                n_true = np.array(e["n_true"])
                nscale = float(np.exp(rng.uniform(-2, 2))) * (1.0 if rng.random() < 0.5 else -1.0)
            out["vertices"] = np.asarray(v, dtype=float).tolist()
            out["n_true"] = n_true.tolist()
            out["normal"] = (n_true * nscale).tolist()      # NOT of unit length
            if cls == "ConvexSpheropolygon":
                out["radius"] = float(rng.integers(0, 4)) / 2
            return out
        raise RuntimeError("hygiene polygon")
    for _ in range(100):
        v, info = gen.convex_solid(rng)
        if len(v) > 24:
            continue
        if integer:
            v = np.round((v - v.mean(axis=0)) * 300 / gen.diameter(v)) + rng.integers(-20, 21, size=3)
            if not gen.in_convex_position(v, margin=1e-4):
                continue
        out["vertices"] = np.asarray(v, dtype=float).tolist()
        if cls == "Polyhedron":
            with warnings.catch_warnings():
                warnings.simplefilter("ignore")
                cp = shapes().ConvexPolyhedron(np.array(out["vertices"]))
            out["faces"] = [[int(i) for i in f] for f in cp.faces]
        if cls == "ConvexSpheropolyhedron":
            out["radius"] = float(rng.integers(0, 4)) / 2
        return out
    raise RuntimeError("hygiene solid")


def hygiene_cases(ctx, reps):
    """every class x every container kind of its primary array argument (secondary arguments cycle through theirs)"""
    rng = ctx.rng
    k = 0
    for _ in range(reps):
        for cls in CLASSES10:
            for kind in CONTAINERS:
                integer = kind in ("f32", "int") or rng.random() < 0.25
                g = hygiene_geometry(rng, cls, integer)
                case = {"kind": "hygiene", "cls": cls, "expect": "accept"}
                k += 1
                sec = CONTAINERS[int(rng.integers(len(CONTAINERS)))]
                if not integer and sec in ("f32", "int"):
                    sec = ["f64", "view", "readonly"][k % 3]
                if cls in CURVED:
                    case.update(params=g["params"], center=g["center"],
                                center_kind=kind if k % 10 else "default")
                    ctx.count("hygiene:center:" + case["center_kind"])
                else:
                    case.update(vertices=g["vertices"], vertices_kind=kind)
                    ctx.count("hygiene:vertices:%s:(N,%d)" % (kind, len(g["vertices"][0])))
                    if "normal" in g and k % 3:
                        case.update(normal=g["normal"], normal_kind=sec)
                        ctx.count("hygiene:normal:" + sec)
                    if "radius" in g:
                        case["radius"] = g["radius"]
                    if cls == "Polyhedron":
                        same_len = len(set(len(f) for f in g["faces"])) == 1
                        fks = ["list", "tuple", "listarr", "tuplearr"] + (["array2d", "array2d32"] if same_len else ["listarr"])
                        case.update(faces=g["faces"], faces_kind=fks[k % len(fks)])
                        ctx.count("hygiene:faces:" + case["faces_kind"])
                yield case


# --------------------------------------------------------------------------- degenerate input of the 3-D convex classes


def degenerate_cases(ctx, reps):
    """ConvexPolyhedron / ConvexSpheropolyhedron on input that is no polyhedron: fewer than four points, duplicate
    points, non-finite coordinates, flat and collinear sets (ValueError demanded since f256559 made that the contract);
    a lattice point exactly on a face / an edge of an integer box is observed and compared with the model only."""
    rng = ctx.rng
    for _ in range(reps):
        for why in ("too-few-points", "duplicate-point", "point-on-face", "point-on-edge", "nan", "inf",
                    "flat", "collinear"):
            v, info = gen.convex_solid(rng)
            v = np.asarray(v, dtype=float)
            expect = "reject"
            if why == "too-few-points":
                v = v[: int(rng.integers(1, 4))]
            elif why == "duplicate-point":
                v = np.insert(v, int(rng.integers(len(v) + 1)), v[int(rng.integers(len(v)))], axis=0)
            elif why in ("point-on-face", "point-on-edge"):
                # exactly representable: a box with integer corners, the extra point a lattice point of a face / an edge
                a, b, c = (int(x) for x in rng.integers(2, 9, size=3))
                o = rng.integers(-5, 6, size=3)
                box = np.array([[x, y, z] for x in (0, 2 * a) for y in (0, 2 * b) for z in (0, 2 * c)], dtype=float) + o
                extra = np.array([a, b, 0.0]) + o if why == "point-on-face" else np.array([a, 0.0, 0.0]) + o
                v = np.insert(box, int(rng.integers(9)), extra, axis=0)
            elif why in ("nan", "inf"):
                v = v.copy()
                v[int(rng.integers(len(v))), int(rng.integers(3))] = np.nan if why == "nan" else np.inf
            elif why == "flat":
                p2, _ = gen.c15_convex_polygon(rng, n=int(rng.integers(4, 9)))
                v = np.c_[np.round(p2 * 64), np.zeros(len(p2))]
            else:
                d = rng.integers(-4, 5, size=3)
                d[0] = d[0] or 1
                v = np.outer(np.arange(5), d).astype(float) + rng.integers(-3, 4, size=3)
            if why in ("point-on-face", "point-on-edge"):
                expect = "observe"      # ON the hull's boundary: not margin-separated
            case = {"kind": "convexpolyhedron", "expect": expect, "why": why, "degenerate": True,
                    "vertices": [[("nan" if np.isnan(x) else "inf" if np.isinf(x) else float(x)) for x in r] for r in v]}
            if rng.random() < 0.4:
                case["radius"] = float(rng.integers(0, 3))
            ctx.count("convexpolyhedron:degenerate:" + why)
            yield case


# minimised corpus: inputs on which a defect was found (repaired since; must be reported again should it return)
CORPUS = [
    # b73b691: a spike pushed through an edge (margin 7.7e-3), collinear disjoint edges, almost-axis-aligned plane:
    # the sweep fails `assert(event.in_sweep == False)`; before the fix the AssertionError escaped from Polygon(...)
    {"kind": "polygon", "expect": "reject", "why": "crossing", "corpus": "sweep-assertion",
     "info": {"kind": "tjunction", "n": 7, "clockwise": None},
     "embed": {"mode": "neartilt"},
     "p2": [[-176.0, -368.0], [-336.0, -368.0], [-214.76253773689004, 19.712386789329894], [-352.0, -368.0], [-384.0, -368.0], [-256.0, 16.0], [-48.0, 16.0]],
     "vertices": [[-3080.69095072315, -1301.410314031698, -342.3690569513654], [-3080.69095308547, -1141.4103140317052, -342.36900839450425], [-3468.403338084786, -1262.6477820191737, -342.36909644876835], [-3080.690953321702, -1125.4103140317059, -342.3690035388181], [-3080.690953794166, -1093.4103140317075, -342.3689938274459], [-3464.690951904307, -1221.4103197012544, -342.3690834431774], [-3464.690948833291, -1429.4103197012448, -342.3691465670969]]},
    # exactly touching: vertex (1,0) on the edge (0,0)-(3,0); AssertionError before b73b691
    {"kind": "polygon", "expect": "observe", "why": "boundary-touch", "corpus": "touch-assertion",
     "info": {"kind": "touch", "n": 5}, "embed": {"mode": "n2"},
     "p2": [[0, 0], [3, 0], [3, 2], [1, 0], [0, 2]], "vertices": [[0, 0], [3, 0], [3, 2], [1, 0], [0, 2]]},
    # three points can never be a polyhedron; QhullError before f256559
    {"kind": "convexpolyhedron", "expect": "reject", "why": "too-few-points", "degenerate": True, "corpus": "three-points",
     "vertices": [[0, 0, 0], [1, 0, 0], [0, 1, 0]]},
    # the caller's 2-D faces array was kept (row views) before b62a6dc
    {"kind": "hygiene", "cls": "Polyhedron", "expect": "accept", "corpus": "faces-array2d",
     "vertices": [[0, 0, 0], [1, 0, 0], [0, 1, 0], [0, 0, 1]], "vertices_kind": "list",
     "faces": [[0, 2, 1], [0, 1, 3], [0, 3, 2], [1, 2, 3]], "faces_kind": "array2d"},
]


def corpus_cases(ctx):
    for case in CORPUS:
        ctx.count("corpus:" + case["corpus"])
        yield json.loads(json.dumps(case))


# --------------------------------------------------------------------------- driver


EVAL = {"polygon": eval_polygon, "is_simple": eval_is_simple, "convexpolygon": eval_convex_polygon,
        "convexpolyhedron": eval_convex_polyhedron, "curved": eval_curved, "hygiene": eval_hygiene}


def eval_case(ctx, case):
    EVAL[case["kind"]](ctx, case)


def is_simple_cases(ctx, n):
    rng = ctx.rng
    for i in range(n):
        far = False
        if i % 5 in (0, 2, 3):
            far = i % 5 != 0
            if far:    # far corner of the quantifier (scale ~1e3, offset 8..10 diameters), fragile kinds
                p2, info = gen.c15_simple_polygon(rng, kind=["star", "spiral", "star", "spiral", "convex"][int(rng.integers(5))])
            else:
                p2, info = gen.c15_simple_polygon(rng)
            exp = "accept"
        elif i % 5 == 1:        # every kind of crossing cycle, in turn
            p2, info = gen.c15_crossing_kind(rng, CROSSING_KINDS[(i // 5) % len(CROSSING_KINDS)])
            exp = "reject"
            far = (i // 5) % 3 == 2
        elif i % 10 == 4:       # next to the decision boundary: pushed through / held back by 1e-3..1e-2 of the height
            side = 1.0 if (i // 10) % 2 else -1.0
            p2, info = gen.c15_boundary_cycle(rng, BOUNDARY_KINDS[(i // 20) % 3],
                                              delta=side * float(np.exp(rng.uniform(np.log(1e-3), np.log(1e-2)))))
            info = dict(info, kind="near-" + info["kind"])
            exp = "accept" if side > 0 else "reject"
        else:
            p2, info = gen.c15_crossing_polygon(rng)
            exp = "reject"
        if far:
            sc = float(rng.uniform(600, 1000))
            d = gen.diameter(np.c_[p2, np.zeros(len(p2))]) * sc
            u = rng.normal(size=2)
            shift = (u / np.linalg.norm(u) * d * float(rng.uniform(8, 10))).tolist()
            ctx.count("is_simple:far-corner")
        else:
            sc = 1.0 if rng.random() < 0.4 else float(10 ** rng.uniform(-3, 3))
            d = gen.diameter(np.c_[p2, np.zeros(len(p2))]) * sc
            shift = (rng.normal(size=2) * d * float(rng.uniform(0, 10))).tolist() if rng.random() < 0.6 else [0.0, 0.0]
        ctx.count("is_simple:" + exp + ":" + info["kind"])
        yield {"kind": "is_simple", "expect": exp, "p2": p2.tolist(), "scale": sc, "shift": shift, "info": info}


def run(ctx):
    b = ctx.budget
    streams = [
        corpus_cases(ctx),
        polygon_cases(ctx, b(70, 1200), b(45, 800), b(40, 600)),
        is_simple_cases(ctx, b(250, 2500)),
        hygiene_cases(ctx, b(1, 12)),
        convex_polygon_cases(ctx, b(1, 6), b(40, 600), b(30, 400), b(30, 400)),
        convex_polyhedron_cases(ctx, b(25, 300), b(25, 300), b(25, 300)),
        degenerate_cases(ctx, b(2, 25)),
        curved_cases(ctx, b(40, 600)),
    ]
    for s in streams:
        for case in s:
            ctx.case(case)
            eval_case(ctx, case)


def replay(ctx, payload):
    if "broken" in payload and "case" not in payload:      # a correspondence break without a failing input
        for b in payload["broken"]:
            ctx.case(b["case"])
            eval_case(ctx, b["case"])
        return
    case = payload.get("case", payload)
    ctx.case(case)
    eval_case(ctx, case)
