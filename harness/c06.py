"""C06 — 2-D point containment (Polygon, ConvexPolygon, Circle, Ellipse) equals exact membership."""
from fractions import Fraction

import numpy as np

import gen
from common import L, InfraError, ModelRaise, exc_kind

RULE = ("simple polygons from gen.c06_simple_polygon (own star/comb/spiral/convex outlines and every kind of the C04 "
        "generator gen.polygon2d; 3-40 vertices; random in-plane turn + exact quarter turns; straddling the origin or "
        "offset up to 5 sizes into any quadrant; size 2^-10..2^10; both vertex orientations; default and explicit "
        "(+n, -n, non-unit) normals; (N,2) input, z=0, z=const and random planes of 3-space; ConvexPolygon with shuffled "
        "vertices) x points on the same 2^-26 grid: uniform in the enlarged bounding box, at distance 10^-6.5..10^-1.5 "
        "sizes from an edge / a vertex, sharing x and/or y with vertices, inside a triangle of the triangulation; "
        "circles and ellipses (a<b, a=b, a>b; centre at the origin / integer / float / far) x in-plane points in all "
        "four quadrants about the centre, at relative distance 10^-6.5..10^-1.5 from the boundary, sharing x or y with "
        "the centre; distinct = distinct (shape, point set); non-trivial = every case")
ASSUMPTIONS = [
    "region of a polygon = interior of the simple closed curve through its vertices; decided exactly (integer "
    "arithmetic on the generating grid coordinates) by a crossing-number test and, independently, by strict membership "
    "in a triangle of an exact ear-clipping triangulation evaluated by the Lean spec over Q (the two must agree)",
    "points closer than 1e-7 * size to the boundary (polygon edges, circle, ellipse, the coded box faces) are skipped",
    "polygons embedded in a random plane: vertices and points are the images of exact in-plane coordinates under the "
    "same rigid motion computed in double precision (in-plane error ~1e-16 * (size + offset))",
    "rowan.mapping.kabsch is a parameter of the model; contract R^T R = 1, det R = 1, R n = z checked per case (1e-9)",
    "Ellipse.is_inside is modelled as coded (one-sided box test); the exact ellipse membership is the oracle",
]

MARGIN = 1e-7
KNOWN_ELLIPSE = "Ellipse.is_inside:one-sided-box-test"


# ----------------------------------------------------------------------------- exact oracle (integers)


def classify_int(G, p):
    """'on' / 'in' / 'out' for the integer point p and the simple integer polygon G (any orientation):
    crossing number of the ray to +x, with exact intersection comparison."""
    n = len(G)
    px, py = p
    inside = False
    for i in range(n):
        a, b = G[i], G[(i + 1) % n]
        if gen.c06_on_segment(a, b, p):
            return "on"
        if (a[1] > py) != (b[1] > py):
            # x of the edge at height py compared with px:  ax + (py-ay)*(bx-ax)/(by-ay) > px
            num = (py - a[1]) * (b[0] - a[0]) - (px - a[0]) * (b[1] - a[1])
            if (num > 0) == (b[1] - a[1] > 0):
                inside = not inside
    return "in" if inside else "out"


def boundary_distance(A, P):
    """float distance of each point of P (m,2) to the closed polygon A (n,2)."""
    a = A[None, :, :]
    b = np.roll(A, -1, axis=0)[None, :, :]
    p = P[:, None, :]
    d = b - a
    t = np.clip(np.sum((p - a) * d, axis=-1) / np.sum(d * d, axis=-1), 0.0, 1.0)
    q = a + t[..., None] * d
    return np.min(np.linalg.norm(p - q, axis=-1), axis=1)


# ----------------------------------------------------------------------------- polygons


def make_polygon_case(rng, ctx):
    poly = gen.c06_simple_polygon(rng)
    n = len(poly["G"])
    npts = ctx.budget(70, 210) // max(1, ctx.widen)
    case = {"shape": "polygon", "poly": poly, "points": gen.c06_query_points(rng, poly, npts)}
    convex_ok = poly["kind"] in ("convex", "c04:convex", "c04:rect", "c04:triangle")
    case["cls"] = "ConvexPolygon" if (convex_ok and rng.random() < 0.6) else "Polygon"
    case["reverse"] = bool(rng.random() < 0.5)
    if case["cls"] == "ConvexPolygon":
        case["perm"] = rng.permutation(n).tolist()
    case["mode"] = ["xy2", "xy3", "zshift", "plane", "plane"][int(rng.integers(5))]
    case["normal"] = ["default", "default", "+n", "-n", "scaled"][int(rng.integers(5))]
    if case["mode"] == "plane":
        case["Q"] = gen.random_rotation(rng).tolist()
        size = 2.0 ** (poly["e"] - gen.C06_GRID) * max(max(abs(c) for c in p) for p in poly["G"])
        case["t3"] = (rng.uniform(-3, 3, size=3) * size * (rng.random() < 0.7)).tolist()
    elif case["mode"] == "zshift":
        case["z"] = float(np.round(rng.uniform(-4, 4) * 64) / 64) * 2.0 ** poly["e"]
    case["nscale"] = float(10 ** rng.uniform(-2, 2))
    return case


def embed(case, xy):
    """float (m,2) in-plane coordinates -> (m,3)"""
    m = len(xy)
    mode = case["mode"]
    if mode in ("xy2", "xy3"):
        return np.c_[xy, np.zeros(m)]
    if mode == "zshift":
        return np.c_[xy, np.full(m, case["z"])]
    Q = np.array(case["Q"])
    return np.c_[xy, np.zeros(m)] @ Q.T + np.array(case["t3"])[None, :]


def plane_normal(case):
    if case["mode"] == "plane":
        return np.array(case["Q"])[:, 2].copy()
    return np.array([0.0, 0.0, 1.0])


def eval_polygon(ctx, case):
    import coxeter
    from coxeter.shapes.polygon import _align_points_by_normal
    poly = case["poly"]
    G = [tuple(p) for p in poly["G"]]
    unit = 2.0 ** (poly["e"] - gen.C06_GRID)
    n = len(G)
    order = list(range(n))
    if case["reverse"]:
        order = order[::-1]
    if case["cls"] == "ConvexPolygon":
        order = [order[i] for i in case["perm"]]
    A = np.array(G, dtype=float) * unit                       # exact
    V2 = A[order]
    PI = [(int(p[0]), int(p[1])) for p in case["points"]]
    P2 = np.array(PI, dtype=float).reshape(-1, 2) * unit      # exact
    size = float(np.linalg.norm(A.max(axis=0) - A.min(axis=0)))
    npts = len(PI)
    cls = case["cls"]
    ctx.count("shape:" + cls)
    ctx.count("poly-kind:" + poly["kind"])
    ctx.count("orientation:" + ("cw" if case["reverse"] else "ccw"))
    ctx.count("mode:" + case["mode"])
    ctx.count("normal:" + case["normal"])
    ctx.count("scale=1" if poly["e"] == 0 else "scale!=1")
    for p in case["points"]:
        ctx.count("point:" + str(p[2]))

    # ---- construct
    nrm = plane_normal(case)
    normal = {"default": None, "+n": nrm, "-n": -nrm, "scaled": nrm * case["nscale"]}[case["normal"]]
    verts_in = V2 if case["mode"] == "xy2" else embed(case, V2)
    try:
        if cls == "ConvexPolygon":
            shp = coxeter.shapes.ConvexPolygon(verts_in, normal=normal)
        else:
            shp = coxeter.shapes.Polygon(verts_in, normal=normal)
    except Exception as e:
        ctx.fail(cls + ".__init__:raises", "constructor raised %s on a simple polygon" % exc_kind(e),
                 dict(case, points=[]), repr(e))
        return
    P3 = embed(case, P2)
    offs = float(np.max(np.abs(shp.vertices))) + size

    # ---- implementation
    try:
        res = np.asarray(shp.is_inside(P3))
    except Exception as e:
        ctx.fail(cls + ".is_inside:raises", "is_inside raised %s" % exc_kind(e), dict(case, points=[]), repr(e))
        return
    if res.shape != (npts,) or res.dtype != np.bool_:
        ctx.fail(cls + ".is_inside:shape", "result is not a boolean (N,) array", dict(case, points=[]),
                 [str(res.shape), str(res.dtype)])
        return

    # ---- exact classification on the generating coordinates (two independent exact methods)
    status = [classify_int(G, p) for p in PI]
    tri_tok = L([np.r_[A[a], A[b], A[c]] for a, b, c in poly["tris"]])
    q = ctx.driver.Q("spec.region", tri_tok, L([r for r in P2]))
    if q[0] != Fraction(gen.c06_area2(G)) * Fraction(unit) ** 2:
        raise InfraError("C06: triangulation area differs from the shoelace area")
    cnt = q[1::2]
    onb = q[2::2]
    for i in range(npts):
        if onb[i]:
            continue
        if cnt[i] not in (0, 1) or (cnt[i] == 1) != (status[i] == "in"):
            raise InfraError("C06: the two exact oracles disagree at point %r of %r" % (PI[i], poly["G"]))
    dist = boundary_distance(A, P2) if npts else np.zeros(0)
    far = dist >= MARGIN * size
    ctx.skipped_near_boundary += int(np.sum(~far))
    exact = np.array([s == "in" for s in status], dtype=bool)
    for i in range(npts):
        if far[i]:
            ctx.count("exact:" + status[i])

    # ---- theorem instance: the model over Q on the generating coordinates equals the spec
    qm = ctx.driver.Q("poly.inside", L([r for r in V2]), L([r for r in P2]))
    sgn = -1 if case["reverse"] else 1
    if cls != "ConvexPolygon":
        for i in range(npts):
            if status[i] == "on":
                continue
            if qm[2 * i] != (status[i] == "in") or (not onb[i] and qm[2 * i + 1] != 2 * sgn * cnt[i]):
                raise InfraError("C06: polygon_inside_iff instance fails at %r" % (PI[i],))

    # ---- B: model (Float) on the implementation's own rotated arrays
    verts_rot, R = _align_points_by_normal(shp.normal, shp.vertices)
    nn = np.asarray(shp.normal, dtype=float)
    cerr = max(float(np.max(np.abs(R.T @ R - np.eye(3)))), abs(float(np.linalg.det(R)) - 1.0),
               float(np.max(np.abs(R @ nn - np.array([0.0, 0.0, 1.0])))))
    if not cerr <= 1e-9:
        ctx.contract_failures.append({"contract": "kabsch: R^T R = 1, det R = 1, R n = z", "err": cerr,
                                      "normal": nn.tolist()})
        ctx.disagree("poly.kabsch-contract", dict(case, points=[]), cerr)
    if case["mode"] in ("xy2", "xy3", "zshift"):
        ctx.count("R:" + ("identity" if np.array_equal(R, np.eye(3)) else
                          "half-turn" if np.array_equal(R, np.diag([-1.0, 1.0, -1.0])) else "other"))
    pts_rot = np.dot(P3, R.T)
    try:
        fm = ctx.driver.F("poly.inside", L([r[:2] for r in verts_rot]), L([r[:2] for r in pts_rot]))
        m_in = np.array(fm[0::2], dtype=bool)
        f3 = ctx.driver.F("poly.inside3", R.ravel(), L([r for r in shp.vertices]), L([r for r in P3]))
    except ModelRaise as e:
        ctx.disagree("poly.inside", dict(case, points=[]), "model raised " + e.kind)
        return
    m3_in = np.array(f3[:npts], dtype=bool)
    m3_pts = np.array(f3[npts:4 * npts], dtype=float).reshape(npts, 3)
    m3_verts = np.array(f3[4 * npts:], dtype=float).reshape(n, 3)
    for i in range(npts):
        if far[i] and m_in[i] != res[i]:
            ctx.disagree("poly.inside", dict(case, points=[case["points"][i]]), [bool(res[i]), bool(m_in[i])])
            break
    for i in range(npts):
        if far[i] and m3_in[i] != res[i]:
            ctx.disagree("poly.inside3", dict(case, points=[case["points"][i]]), [bool(res[i]), bool(m3_in[i])])
            break
    if not (ctx.close_enough(m3_pts, pts_rot, offs) and ctx.close_enough(m3_verts, verts_rot, offs)):
        ctx.disagree("poly.inside3:rotation", dict(case, points=[]), "rotated coordinates differ")
    # the tie rule is exercised exactly: count rotated points sharing x with a rotated vertex
    if npts:
        ties = int(np.sum(np.any(pts_rot[:, None, 0] == verts_rot[None, :, 0], axis=1)))
        ctx.count("rotated-x-ties", ties)

    # ---- C: implementation vs exact membership
    for i in range(npts):
        if far[i] and bool(res[i]) != bool(exact[i]):
            ctx.fail(cls + ".is_inside:membership",
                     "is_inside differs from exact membership in the polygon's region",
                     dict(case, points=[case["points"][i]]),
                     {"impl": bool(res[i]), "exact": status[i], "dist/size": float(dist[i] / size)})
            break

    # ---- batch vs single (3,), and (N,2) points for polygons in the plane z = 0
    nsingle = min(npts, 12 if ctx.tier == "quick" else 25)
    for i in range(nsingle):
        if not far[i]:
            continue
        try:
            one = np.asarray(shp.is_inside(P3[i]))
            ok = one.shape == (1,) and bool(one[0]) == bool(res[i])
        except Exception as e:
            one, ok = repr(e), False
        if not ok:
            ctx.fail(cls + ".is_inside:batch-vs-single", "single-point call differs from the batch call",
                     dict(case, points=[case["points"][i]]), [str(one), bool(res[i])])
            break
    if case["mode"] in ("xy2", "xy3"):
        try:
            r2 = np.asarray(shp.is_inside(P2))
            ok = r2.shape == (npts,) and bool(np.all(r2[far] == res[far]))
            one2 = np.asarray(shp.is_inside(P2[0])) if npts else np.zeros(1, dtype=bool)
            ok = ok and (npts == 0 or not far[0] or (one2.shape == (1,) and bool(one2[0]) == bool(res[0])))
        except Exception as e:
            r2, ok = repr(e), False
        if not ok:
            ctx.fail(cls + ".is_inside:N2-points", "(N,2) points are not treated as points of the plane z = 0",
                     dict(case, points=case["points"][:5]), str(r2)[:300])
        else:
            m2 = np.array(ctx.driver.F("poly.inside2", R.ravel(), L([r for r in shp.vertices]), L([r for r in P2])),
                          dtype=bool)
            if np.any(m2[far] != r2[far]):
                ctx.disagree("poly.inside2", dict(case, points=[]), "padded (N,2) path differs")
        ctx.count("N2-checked")


# ----------------------------------------------------------------------------- circles and ellipses


def make_curved_case(rng, ctx):
    sh = gen.c06_curved(rng)
    npts = ctx.budget(100, 300) // max(1, ctx.widen)
    return {"shape": sh["shape"], "curved": sh, "points": gen.c06_curved_points(rng, sh, npts),
            "zoff": [1e-9, 3e-7, 0.5 * max(sh["a"], sh["b"])]}


def eval_curved(ctx, case):
    import coxeter
    sh = case["curved"]
    a, b = float(sh["a"]), float(sh["b"])
    cen = sh["center"]
    is_circle = sh["shape"] == "circle"
    cls = "Circle" if is_circle else "Ellipse"
    ctx.count("shape:" + cls)
    ctx.count("axes:" + sh["rel"])
    ctx.count("centre:" + sh["center_kind"])
    try:
        shp = coxeter.shapes.Circle(a, cen) if is_circle else coxeter.shapes.Ellipse(a, b, cen)
    except Exception as e:
        ctx.fail(cls + ".__init__:raises", "constructor raised " + exc_kind(e), dict(case, points=[]), repr(e))
        return
    cf = np.array([float(v) for v in cen])
    pts = np.array([[float(p[0]), float(p[1]), float(p[2])] for p in case["points"]]).reshape(-1, 3)
    npts = len(pts)
    try:
        res = np.asarray(shp.is_inside(pts))
    except Exception as e:
        ctx.fail(cls + ".is_inside:raises", "is_inside raised " + exc_kind(e), dict(case, points=[]), repr(e))
        return
    if res.shape != (npts,) or res.dtype != np.bool_:
        ctx.fail(cls + ".is_inside:shape", "result is not a boolean (N,) array", dict(case, points=[]),
                 [str(res.shape), str(res.dtype)])
        return
    d = pts - cf
    # margins (float): distance from the curve in units of the radius, and from the coded box faces
    rho = np.sqrt((d[:, 0] / a) ** 2 + (d[:, 1] / b) ** 2)
    far_curve = np.abs(rho - 1) >= MARGIN
    far_box = (np.abs(d[:, 0] / a - 1) >= MARGIN) & (np.abs(d[:, 1] / b - 1) >= MARGIN)
    for p, dd in zip(case["points"], d):
        ctx.count("point:" + ("corner" if str(p[3]).startswith("corner") else str(p[3])))
        ctx.count("quadrant:%s%s" % ("+" if dd[0] >= 0 else "-", "+" if dd[1] >= 0 else "-"))

    # ---- B: model at Float
    try:
        if is_circle:
            m_in = np.array(ctx.driver.F("circle.inside", a, cf, L([r for r in pts])), dtype=bool)
        else:
            m_in = np.array(ctx.driver.F("ellipse.inside", a, b, cf, L([r for r in pts])), dtype=bool)
    except ModelRaise as e:
        ctx.disagree(cls.lower() + ".inside", dict(case, points=[]), "model raised " + e.kind)
        return
    farB = far_curve if is_circle else far_box
    ctx.skipped_near_boundary += int(np.sum(~(far_curve & (farB))))
    for i in range(npts):
        if farB[i] and m_in[i] != res[i]:
            ctx.disagree(cls.lower() + ".inside", dict(case, points=[case["points"][i]]), [bool(res[i]), bool(m_in[i])])
            break
    # out-of-plane points (correspondence only: the property speaks about in-plane points)
    for dz in case["zoff"]:
        q3 = pts[: min(npts, 8)].copy()
        q3[:, 2] += dz
        dzz = q3[:, 2] - cf[2]
        okz = np.abs(np.abs(dzz) - 1e-8) > 1e-10
        try:
            r3 = np.asarray(shp.is_inside(q3))
            if is_circle:
                m3 = np.array(ctx.driver.F("circle.inside", a, cf, L([r for r in q3])), dtype=bool)
            else:
                m3 = np.array(ctx.driver.F("ellipse.inside", a, b, cf, L([r for r in q3])), dtype=bool)
        except Exception as e:
            ctx.disagree(cls.lower() + ".inside:out-of-plane", dict(case, points=[]), repr(e))
            break
        sel = farB[: len(q3)] & okz
        if np.any(m3[sel] != r3[sel]):
            ctx.disagree(cls.lower() + ".inside:out-of-plane", dict(case, points=[]), [float(dz)])
            break
        ctx.count("out-of-plane", len(q3))

    # ---- C: implementation vs exact membership (Lean spec over Q on the very inputs)
    c2 = cf[:2]
    if is_circle:
        exact = np.array(ctx.driver.Q("spec.disk", a, c2, L([r[:2] for r in pts])), dtype=bool)
        box = exact
    else:
        exact = np.array(ctx.driver.Q("spec.ellipse", a, b, c2, L([r[:2] for r in pts])), dtype=bool)
        box = np.array(ctx.driver.Q("ellipse.inside", a, b, cf, L([r for r in pts])), dtype=bool)
    # cross-check of the Q oracle with Fractions on a few points
    for i in range(min(npts, 6)):
        dx = Fraction(float(pts[i, 0])) - Fraction(float(cf[0]))
        dy = Fraction(float(pts[i, 1])) - Fraction(float(cf[1]))
        ex = (dx / Fraction(a)) ** 2 + (dy / Fraction(b)) ** 2 <= 1
        if ex != bool(exact[i]):
            raise InfraError("C06: Lean spec and Fraction oracle disagree for %r" % (case["points"][i],))
    reported = set()
    for i in range(npts):
        if not far_curve[i]:
            continue
        ctx.count("exact:" + ("in" if exact[i] else "out"))
        if bool(res[i]) == bool(exact[i]):
            continue
        if (not is_circle) and far_box[i] and bool(res[i]) == bool(box[i]):
            sig, what = KNOWN_ELLIPSE, ("Ellipse.is_inside is the one-sided box test x-cx <= a and y-cy <= b, "
                                        "not membership in the ellipse")
        elif (not is_circle) and not far_box[i]:
            continue
        else:
            sig, what = cls + ".is_inside:membership", "is_inside differs from exact membership"
        if sig not in reported:
            reported.add(sig)
            ctx.fail(sig, what, dict(case, points=[case["points"][i]], zoff=[]),
                     {"impl": bool(res[i]), "exact": bool(exact[i]), "rho": float(rho[i]),
                      "d/axes": [float(d[i, 0] / a), float(d[i, 1] / b)]})
        if sig == KNOWN_ELLIPSE:
            ctx.count("known-box-mismatch:quadrant:%s%s" % ("+" if d[i, 0] >= 0 else "-", "+" if d[i, 1] >= 0 else "-"))

    # ---- batch vs single
    for i in range(min(npts, 12 if ctx.tier == "quick" else 25)):
        try:
            one = np.asarray(shp.is_inside(pts[i]))
            ok = one.shape == (1,) and bool(one[0]) == bool(res[i])
        except Exception as e:
            one, ok = repr(e), False
        if not ok:
            ctx.fail(cls + ".is_inside:batch-vs-single", "single-point call differs from the batch call",
                     dict(case, points=[case["points"][i]], zoff=[]), [str(one), bool(res[i])])
            break


# ----------------------------------------------------------------------------- entry points


def eval_case(ctx, case):
    if case["shape"] == "polygon":
        eval_polygon(ctx, case)
    else:
        eval_curved(ctx, case)


def fixed_cases():
    """the witnesses of the known finding and the textbook shapes, always evaluated"""
    sq = {"kind": "c04:rect", "G": [[0, 0], [2 ** 26, 0], [2 ** 26, 2 ** 26], [0, 2 ** 26]], "e": 0,
          "tris": [[0, 1, 2], [0, 2, 3]], "turn": 0.0, "quarter": 0, "offset": [0, 0]}
    h = 2 ** 25
    pts = [[h, h, "uniform"], [3 * h, h, "uniform"], [2 * h, 4 * h, "shared-x"], [-h, 2 * h, "shared-y"],
           [0, 3 * h, "shared-x"], [h, 2 * h + 64, "near-edge"], [h, 2 * h - 64, "near-edge"]]
    out = []
    for rev in (False, True):
        for normal in ("default", "-n"):
            out.append({"shape": "polygon", "poly": sq, "points": pts, "cls": "Polygon", "reverse": rev,
                        "mode": "xy3", "normal": normal, "nscale": 1.0})
    ell = {"shape": "ellipse", "a": 1.0, "b": 2.0, "center": [0, 0, 0], "center_kind": "origin", "rel": "a<b"}
    out.append({"shape": "ellipse", "curved": ell, "zoff": [],
                "points": [[-5.0, -5.0, 0.0, "witness"], [0.9, 1.9, 0.0, "witness"], [0.5, -1.0, 0.0, "witness"],
                           [-0.9, 1.9, 0.0, "witness"], [0.9, -1.9, 0.0, "witness"], [3.0, 0.0, 0.0, "witness"]]})
    return out


def run(ctx):
    for case in fixed_cases():
        ctx.case(case)
        eval_case(ctx, case)
    npoly = ctx.budget(220, 2500)
    for _ in range(npoly):
        case = make_polygon_case(ctx.rng, ctx)
        ctx.case(case)
        eval_case(ctx, case)
    ncurved = ctx.budget(120, 1500)
    for _ in range(ncurved):
        case = make_curved_case(ctx.rng, ctx)
        ctx.case(case)
        eval_case(ctx, case)


def replay(ctx, payload):
    case = payload.get("case", payload)
    ctx.case(case)
    eval_case(ctx, case)
