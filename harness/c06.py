"""C06 — 2-D point containment (Polygon, ConvexPolygon, Circle, Ellipse) equals exact membership."""
from fractions import Fraction

import json
from math import gcd

import numpy as np

import gen
import history
from common import L, InfraError, ModelRaise, exc_kind, read_shuffled

RULE = ("simple polygons from gen.c06_simple_polygon (own star/comb/spiral/convex outlines and every kind of the C04 "
        "generator gen.polygon2d; 3-40 vertices; random in-plane turn + exact quarter turns; straddling the origin or "
        "offset up to 5 sizes into any quadrant; size 2^-10..2^10; orientation classes ccw / cw / first corner reflex "
        "(start vertex rolled) x default and explicit (+n, -n, non-unit) normals; (N,2) vertex input, z=0, z=const, "
        "random planes and almost-flat planes (gen.near_axis_rotation, tilt 1e-7..3e-2 rad, incl. flipped) of 3-space; "
        "ConvexPolygon with shuffled vertices; one third of the objects reached through mutators "
        "(history.maybe_via_history), and every object queried again after its centroid / area setters) x points on "
        "the same 2^-26 grid: uniform in the enlarged bounding box, at distance 10^-6.5..10^-1.5 sizes from an edge / a "
        "vertex, sharing x and/or y with vertices, inside a triangle of the triangulation, exactly on edges and vertices "
        "(tie rule, exact comparison only); every point set asked as (N,3), (N,2), single (3,) and (2,) in a per-case "
        "shuffled order, plus malformed widths; circles and ellipses (sizes 1e-3..1e3; a<b, a=b, a>b; centre at the origin / "
        "integer / float / far; out-of-plane offsets of 1e-12..1e-4 and 0.5 sizes; one third reached through the radius / axes / centre setters, all re-queried after a centre "
        "move) x in-plane points in all four quadrants about the centre, at relative distance 10^-6.5..10^-1.5 from "
        "the boundary, sharing x or y with the centre; distinct = distinct (shape, point set); non-trivial = every case")
ASSUMPTIONS = [
    "region of a polygon = interior of the simple closed curve through its vertices; decided exactly (integer "
    "arithmetic on the generating grid coordinates) by a crossing-number test and, independently, by strict membership "
    "in a triangle of an exact ear-clipping triangulation evaluated by the Lean spec over Q (the two must agree)",
    "points closer than 1e-7 * size to the boundary (polygon edges, circle, ellipse, the coded box faces) are skipped",
    "polygons embedded in a random plane: vertices and points are the images of exact in-plane coordinates under the "
    "same rigid motion computed in double precision (in-plane error ~1e-16 * (size + offset))",
    "rowan.mapping.kabsch is a parameter of the model; contract R^T R = 1, det R = 1, R n = z checked per case (1e-9); "
    "by polygon_inside3_iff / polygon_inside_frame_indep the answer does not depend on which admissible R it returns",
    "the triangulation certificate (certCheck: boundary chain by edge cancellation, consistent strict orientation; "
    "offCheck) and the convexity certificate (convexCheck) are evaluated by the Lean driver exactly over Q, on the "
    "implementation's own rotated vertex array whenever Kabsch returned exactly 1 or diag(-1,1,-1)",
    "points exactly on the boundary: the property is silent; the implementation is compared bit-exactly with the "
    "model over Q (correspondence), and the model's value is the one proved in polygon_on_edge_ccw / _cw",
    "Ellipse.is_inside is modelled as coded (one-sided box test); the exact ellipse membership is the oracle",
    "circles / ellipses: a point whose offset from the shape's plane is at most 1e-9 * size (size = radius, larger "
    "semi-axis) counts as an in-plane point and must be answered like the in-plane point with the same x, y; larger "
    "offsets are compared with the model only (isclose(z, 0, atol = 1e-8 * size), /repo bab419e)",
]

MARGIN = 1e-7
KNOWN_ELLIPSE = "Ellipse.is_inside:one-sided-box-test"


# ----------------------------------------------------------------------------- exact oracle (integers)


def classify_int(G, p):
    """'on' / 'in' / 'out' for the integer point p and the simple integer polygon G (any orientation):
    crossing number of the ray to +x, with exact intersection comparison."""
    n = len(G)
    px, py = p
    inside = False
    for i in range(n):
        a, b = G[i], G[(i + 1) % n]
        if gen.c06_on_segment(a, b, p):
            return "on"
        if (a[1] > py) != (b[1] > py):
            # x of the edge at height py compared with px:  ax + (py-ay)*(bx-ax)/(by-ay) > px
            num = (py - a[1]) * (b[0] - a[0]) - (px - a[0]) * (b[1] - a[1])
            if (num > 0) == (b[1] - a[1] > 0):
                inside = not inside
    return "in" if inside else "out"


def boundary_distance(A, P):
    """float distance of each point of P (m,2) to the closed polygon A (n,2)."""
    a = A[None, :, :]
    b = np.roll(A, -1, axis=0)[None, :, :]
    p = P[:, None, :]
    d = b - a
    t = np.clip(np.sum((p - a) * d, axis=-1) / np.sum(d * d, axis=-1), 0.0, 1.0)
    q = a + t[..., None] * d
    return np.min(np.linalg.norm(p - q, axis=-1), axis=1)


# ----------------------------------------------------------------------------- polygons


def boundary_points(rng, G, k):
    """k grid points exactly ON the boundary: vertices, and lattice points in the open part of edges"""
    n = len(G)
    out = []
    for _ in range(k):
        i = int(rng.integers(n))
        a, b = G[i], G[(i + 1) % n]
        g = gcd(abs(b[0] - a[0]), abs(b[1] - a[1]))
        if g > 1 and rng.random() < 0.7:
            t = int(rng.integers(1, g))
            out.append([a[0] + t * ((b[0] - a[0]) // g), a[1] + t * ((b[1] - a[1]) // g), "on-edge"])
        else:
            out.append([a[0], a[1], "on-vertex"])
    return out


def corner_info(G):
    """per vertex j of the counter-clockwise polygon G: (reflex?, |sin| of the corner angle)"""
    n = len(G)
    out = []
    for j in range(n):
        a, b, c = G[j - 1], G[j], G[(j + 1) % n]
        cr = gen.c06_orient(a, b, c)
        la = float(np.hypot(b[0] - a[0], b[1] - a[1]))
        lb = float(np.hypot(c[0] - b[0], c[1] - b[1]))
        out.append((cr < 0, abs(cr) / (la * lb)))
    return out


def vertex_order(case, n):
    order = list(range(n))
    if case["reverse"]:
        order = order[::-1]
    st = int(case.get("start", 0)) % n
    order = order[st:] + order[:st]
    if case["cls"] == "ConvexPolygon":
        order = [order[i] for i in case["perm"]]
    return order


def make_polygon_case(rng, ctx):
    poly = gen.c06_simple_polygon(rng)
    G = poly["G"]
    n = len(G)
    # batch sizes vary from case to case (a vectorised implementation may treat sizes / residues differently):
    # mostly moderate, sometimes large, sometimes tiny; independent of the widening factor for the large ones
    u = rng.random()
    if u < 0.12:
        npts = int(rng.integers(60, 161))
    elif u < 0.22:
        npts = int(rng.integers(1, 8))
    else:
        npts = (ctx.budget(44, 150) + int(rng.integers(0, 17))) // max(1, ctx.widen)
    pts = gen.c06_query_points(rng, poly, npts) + boundary_points(rng, G, max(1, npts // 7))
    pts = [pts[i] for i in rng.permutation(len(pts))]
    case = {"shape": "polygon", "poly": poly, "points": pts}
    convex_ok = poly["kind"] in ("convex", "c04:convex", "c04:rect", "c04:triangle")
    case["cls"] = "ConvexPolygon" if (convex_ok and rng.random() < 0.6) else "Polygon"
    case["reverse"] = bool(rng.random() < 0.5)
    # the first corner (it fixes the stored normal): a clearly convex or, for a third of the non-convex polygons,
    # a clearly reflex corner of the outline
    info = corner_info(G)
    reflex = [j for j in range(n) if info[j][0] and info[j][1] >= 0.02]
    convex = [j for j in range(n) if not info[j][0] and info[j][1] >= 0.02]
    want_reflex = bool(reflex) and case["cls"] == "Polygon" and rng.random() < 0.4
    pool = reflex if want_reflex else (convex or list(range(n)))
    j = int(pool[int(rng.integers(len(pool)))])
    base = list(range(n))[::-1] if case["reverse"] else list(range(n))
    case["start"] = (base.index(j) - 1) % n          # order[1] == j
    case["first_corner"] = "reflex" if want_reflex else "convex"
    if case["cls"] == "ConvexPolygon":
        case["perm"] = rng.permutation(n).tolist()
    case["mode"] = ["xy2", "xy3", "zshift", "plane", "plane", "neartilt", "neartilt"][int(rng.integers(7))]
    case["normal"] = ["default", "default", "+n", "-n", "scaled"][int(rng.integers(5))]
    if case["mode"] in ("plane", "neartilt"):
        Q = gen.random_rotation(rng) if case["mode"] == "plane" else gen.near_axis_rotation(rng)
        case["Q"] = np.asarray(Q, dtype=float).tolist()
        size = 2.0 ** (poly["e"] - gen.C06_GRID) * max(max(abs(c) for c in p) for p in poly["G"])
        case["t3"] = (rng.uniform(-3, 3, size=3) * size * (rng.random() < 0.7)).tolist()
    elif case["mode"] == "zshift":
        case["z"] = float(np.round(rng.uniform(-4, 4) * 64) / 64) * 2.0 ** poly["e"]
    case["nscale"] = float(10 ** rng.uniform(-2, 2))
    return case


def embed(case, xy):
    """float (m,2) in-plane coordinates -> (m,3)"""
    m = len(xy)
    mode = case["mode"]
    if mode in ("xy2", "xy3"):
        return np.c_[xy, np.zeros(m)]
    if mode == "zshift":
        return np.c_[xy, np.full(m, case["z"])]
    Q = np.array(case["Q"])
    return np.c_[xy, np.zeros(m)] @ Q.T + np.array(case["t3"])[None, :]


def unembed(case, p3):
    """(m,3) points of space -> float in-plane coordinates of their projection along the plane's normal"""
    mode = case["mode"]
    if mode in ("xy2", "xy3", "zshift"):
        return np.asarray(p3, dtype=float)[:, :2].copy()
    Q = np.array(case["Q"])
    return ((np.asarray(p3, dtype=float) - np.array(case["t3"])[None, :]) @ Q)[:, :2]


def plane_normal(case):
    if case["mode"] in ("plane", "neartilt"):
        return np.array(case["Q"])[:, 2].copy()
    return np.array([0.0, 0.0, 1.0])


def thunk(fn):
    def run():
        try:
            return ("ok", np.asarray(fn()))
        except Exception as e:  # noqa: BLE001
            return ("exc", exc_kind(e), repr(e)[:200])
    return run


def rows_arg(width, rows):
    return [int(width), L([L([float(v) for v in r]) for r in rows])]


def float_cross_reliable(GI, p):
    """the float evaluation dx1*dy2 - dy1*dx2 of Polygon.is_inside has the exact sign for every edge of the integer
    polygon GI and the integer point p (each product carries a relative rounding error of 2^-53)"""
    n = len(GI)
    for i in range(n):
        a, b = GI[i], GI[(i + 1) % n]
        t1 = (a[0] - p[0]) * (b[1] - p[1])
        t2 = (a[1] - p[1]) * (b[0] - p[0])
        if t1 != t2 and abs(t1 - t2) << 46 <= max(abs(t1), abs(t2)):
            return False
    return True


def _orF(a, b, c):
    return (b[0] - a[0]) * (c[1] - a[1]) - (b[1] - a[1]) * (c[0] - a[0])


def _on_closed(a, b, p):
    return _orF(a, b, p) == 0 and (a[0] - p[0]) * (b[0] - p[0]) + (a[1] - p[1]) * (b[1] - p[1]) <= 0


def steiner_triangulation(T, p):
    """T: triangles (three points of Fractions each), consistently oriented; p lies in the open part of an interior
    edge shared by two of them.  Those two are replaced by four triangles round a Steiner point next to the edge, so that
    p is on no closed edge any more.  Returns the new list or None (the Lean checker judges the result anyway)."""
    hits = []
    for k, t in enumerate(T):
        for i in range(3):
            u, v, w = t[i], t[(i + 1) % 3], t[(i + 2) % 3]
            if _orF(u, v, p) == 0 and (u[0] - p[0]) * (v[0] - p[0]) + (u[1] - p[1]) * (v[1] - p[1]) < 0:
                hits.append((k, u, v, w))
    if len(hits) != 2:
        return None
    (k1, u, v, w1), (k2, v2, u2, w2) = hits
    if (u, v) != (u2, v2):
        return None
    sg = 1 if _orF(u, v, w1) > 0 else -1
    rest = [t for k, t in enumerate(T) if k not in (k1, k2)]
    for lam in (Fraction(1, 2), Fraction(1, 4), Fraction(3, 4), Fraction(3, 8), Fraction(5, 8)):
        for ek in (6, 10, 14, 20, 26):
            eps = Fraction(1, 2 ** ek)
            s = (u[0] + lam * (v[0] - u[0]) + eps * (w1[0] - u[0]), u[1] + lam * (v[1] - u[1]) + eps * (w1[1] - u[1]))
            if Fraction(float(s[0])) != s[0] or Fraction(float(s[1])) != s[1]:
                continue
            new = [(s, v, w1), (s, w1, u), (s, u, w2), (s, w2, v)]
            if any(_orF(*t) * sg <= 0 for t in new):
                continue
            if any(_on_closed(t[i], t[(i + 1) % 3], p) for t in new for i in range(3)):
                continue
            return rest + new
    return None


def frac_pt(r):
    return (Fraction(float(r[0])), Fraction(float(r[1])))


def eval_polygon(ctx, case):
    import coxeter
    from coxeter.shapes.polygon import _align_points_by_normal
    poly = case["poly"]
    G = [tuple(int(c) for c in p) for p in poly["G"]]
    unit = 2.0 ** (poly["e"] - gen.C06_GRID)
    n = len(G)
    order = vertex_order(case, n)
    A = np.array(G, dtype=float) * unit                       # exact
    V2 = A[order]
    PI = [(int(p[0]), int(p[1])) for p in case["points"]]
    pcl = [str(p[2]) for p in case["points"]]
    P2 = np.array(PI, dtype=float).reshape(-1, 2) * unit      # exact
    size = float(np.linalg.norm(A.max(axis=0) - A.min(axis=0)))
    npts = len(PI)
    cls = case["cls"]
    mode = case["mode"]
    oclass = ("cw" if case["reverse"] else "ccw") + ("+reflex-first" if case.get("first_corner") == "reflex" else "")
    ctx.count("shape:" + cls)
    ctx.count("poly-kind:" + poly["kind"])
    ctx.count("orientation:" + oclass)
    ctx.count("mode:" + mode)
    ctx.count("normal:" + case["normal"])
    ctx.count("class:%s|%s|%s" % (oclass, case["normal"], "xy" if mode in ("xy2", "xy3", "zshift") else mode))
    ctx.count("scale=1" if poly["e"] == 0 else "scale!=1")
    for c in pcl:
        ctx.count("point:" + c)
    bare = dict(case, points=[])

    # ---- construct (directly, then possibly the same geometry reached through the public mutators)
    nrm = plane_normal(case)
    normal = {"default": None, "+n": nrm, "-n": -nrm, "scaled": nrm * case["nscale"]}[case["normal"]]
    verts_in = V2 if mode == "xy2" else embed(case, V2)
    try:
        if cls == "ConvexPolygon":
            shp = coxeter.shapes.ConvexPolygon(verts_in, normal=normal)
        else:
            shp = coxeter.shapes.Polygon(verts_in, normal=normal)
    except Exception as e:
        ctx.fail(cls + ".__init__:raises", "constructor raised %s on a simple polygon" % exc_kind(e), bare, repr(e))
        return
    key = json.dumps([poly["G"], poly["e"], order, mode, case["normal"], npts], sort_keys=True)
    hrng = history.rng_for(key)
    shp, how = history.maybe_via_history(shp, hrng, 1.0 / 3.0, ctx)
    direct = how.startswith("direct")
    P3 = embed(case, P2)
    offs = float(np.max(np.abs(shp.vertices))) + size

    # ---- the queries, in an order drawn per case: (N,3), (N,2), (N,2) padded by hand, single (3,), single (2,),
    #      malformed widths
    nsingle = min(npts, 8 if ctx.tier == "quick" else 16)
    sel = [int(i) for i in hrng.choice(npts, size=nsingle, replace=False)] if npts else []
    P3pad = np.c_[P3[:, :2], np.zeros(npts)]
    getters = {
        "N3": thunk(lambda: shp.is_inside(P3)),
        "N2": thunk(lambda: shp.is_inside(P3[:, :2].copy())),
        "N3pad": thunk(lambda: shp.is_inside(P3pad)),
        "one3": lambda: [thunk(lambda i=i: shp.is_inside(P3[i]))() for i in sel],
        "one2": lambda: [thunk(lambda i=i: shp.is_inside(P3[i, :2].copy()))() for i in sel],
        "list3": thunk(lambda: shp.is_inside(P3[:3].tolist())),
        "w0": thunk(lambda: shp.is_inside([])),
        "w1": thunk(lambda: shp.is_inside([[1.0], [2.0]])),
        "w4": thunk(lambda: shp.is_inside(np.c_[P3[:2], np.ones(len(P3[:2]))])),
        "scalar": thunk(lambda: shp.is_inside(0.5)),
        "empty3": thunk(lambda: shp.is_inside(np.zeros((0, 3)))),
        "empty2": thunk(lambda: shp.is_inside(np.zeros((0, 2)))),
    }
    got, qorder = read_shuffled(getters, key)
    ctx.count("first-query:" + qorder[0])
    rN3 = got["N3"]
    if rN3[0] != "ok":
        ctx.fail(cls + ".is_inside:raises", "is_inside raised %s" % rN3[1], bare, rN3[2])
        return
    res = rN3[1]
    if res.shape != (npts,) or res.dtype != np.bool_:
        ctx.fail(cls + ".is_inside:shape", "result is not a boolean (N,) array", bare, [str(res.shape), str(res.dtype)])
        return

    # ---- exact classification on the generating coordinates
    status = [classify_int(G, p) for p in PI]
    dist = boundary_distance(A, P2) if npts else np.zeros(0)
    far = dist >= MARGIN * size
    ctx.skipped_near_boundary += int(np.sum(~far))
    exact = np.array([s == "in" for s in status], dtype=bool)
    for i in range(npts):
        if far[i]:
            ctx.count("exact:" + status[i])

    # ---- B: the implementation's own frame
    verts_rot, R = _align_points_by_normal(shp.normal, shp.vertices)
    nn = np.asarray(shp.normal, dtype=float)
    cerr = max(float(np.max(np.abs(R.T @ R - np.eye(3)))), float(np.max(np.abs(R @ R.T - np.eye(3)))),
               abs(float(np.linalg.det(R)) - 1.0), float(np.max(np.abs(R @ nn - np.array([0.0, 0.0, 1.0])))))
    if not cerr <= 1e-9:
        ctx.contract_failures.append({"contract": "kabsch: R^T R = 1, det R = 1, R n = z", "err": cerr,
                                      "normal": nn.tolist()})
        ctx.disagree("poly.kabsch-contract", bare, cerr)
    frame = ("identity" if np.array_equal(R, np.eye(3)) else
             "half-turn" if np.array_equal(R, np.diag([-1.0, 1.0, -1.0])) else "other")
    if mode in ("xy2", "xy3", "zshift"):
        ctx.count("R:" + frame)
    exactR = direct and frame != "other" and mode in ("xy2", "xy3", "zshift")
    pts_rot = np.dot(P3, R.T)

    # ---- the certificates, evaluated by the Lean driver exactly over Q
    sx = -1.0 if (exactR and frame == "half-turn") else 1.0
    flip = np.array([sx, 1.0])
    if exactR:
        Vc = np.ascontiguousarray(verts_rot[:, :2])   # the implementation's own rotated vertex array (exact dyadics)
        Pc = np.ascontiguousarray(pts_rot[:, :2])
        if not (sorted(map(tuple, Vc.tolist())) == sorted(map(tuple, (A * flip).tolist()))
                and np.array_equal(Pc, P2 * flip)):
            ctx.disagree("poly.exact-frame", bare, "rotated arrays are not the exactly rotated inputs")
            exactR = False
    if not exactR:
        sx, flip = 1.0, np.array([1.0, 1.0])
        Vc = A.copy() if cls == "ConvexPolygon" else V2
        Pc = P2
    VcF = [frac_pt(r) for r in Vc]
    ccw_frame = sum(VcF[i][0] * VcF[(i + 1) % n][1] - VcF[(i + 1) % n][0] * VcF[i][1] for i in range(n)) > 0
    # the ear-clipping triangles (counter-clockwise in the generating coordinates), oriented like the polygon cycle
    if ccw_frame == (sx > 0):
        Tc = [np.r_[A[a] * flip, A[b] * flip, A[c] * flip] for a, b, c in poly["tris"]]
    else:
        Tc = [np.r_[A[a] * flip, A[c] * flip, A[b] * flip] for a, b, c in poly["tris"]]
    q = ctx.driver.Q("cert.region", L([r for r in Vc]), L(Tc), L([r for r in Pc]))
    if not q[0]:
        raise InfraError("C06: the Lean certificate checker rejects the ear-clipping triangulation of %r" % (poly["G"],))
    ctx.count("cert:accepted")
    rec = [q[1 + 6 * i: 7 + 6 * i] for i in range(npts)]      # off, inRegion, count, model, halfTurnSum, onPolygon
    qmodel = np.zeros(npts, dtype=bool)
    decided = np.zeros(npts, dtype=bool)
    TcF = None
    for i in range(npts):
        off, inreg, cnt, mdl, hs, onp = rec[i]
        qmodel[i] = bool(mdl)
        if onp != (status[i] == "on"):
            raise InfraError("C06: onPolygon (Lean, Q) and the integer oracle disagree at %r" % (PI[i],))
        if onp:
            ctx.count("cert:on-boundary")
            if pcl[i] == "on-edge" and sum(gen.c06_on_segment(G[k], G[(k + 1) % n], PI[i]) for k in range(n)) == 1:
                # polygon_on_edge_ccw / _cw : +1 -> False, -1 -> True
                if hs != (1 if ccw_frame else -1) or bool(mdl) != (not ccw_frame):
                    raise InfraError("C06: polygon_on_edge instance fails at %r (sum %r)" % (PI[i], hs))
                ctx.count("tie-rule:on-edge:" + ("ccw-frame->False" if ccw_frame else "cw-frame->True"))
            continue
        if not off:
            # the point is on a diagonal of the ear clipping: a certificate with a Steiner point for this point
            if TcF is None:
                TcF = [(frac_pt(t[0:2]), frac_pt(t[2:4]), frac_pt(t[4:6])) for t in Tc]
            T2 = steiner_triangulation(TcF, frac_pt(Pc[i]))
            if T2 is None:
                ctx.count("cert:steiner-not-found")
                continue
            q2 = ctx.driver.Q("cert.region", L([r for r in Vc]),
                              L([np.array([float(c) for pt in t for c in pt]) for t in T2]), L([Pc[i]]))
            if not (q2[0] and q2[1]):
                ctx.count("cert:steiner-rejected")
                continue
            ctx.count("cert:steiner")
            off, inreg, cnt, mdl, hs, onp = q2[1:7]
        if cnt not in (0, 1) or bool(inreg) != (status[i] == "in"):
            raise InfraError("C06: Lean spec over Q and the integer oracle disagree at %r of %r" % (PI[i], poly["G"]))
        if bool(mdl) != bool(inreg) or hs != (2 if ccw_frame else -2) * cnt:
            raise InfraError("C06: polygon_inside_certified instance fails at %r" % (PI[i],))
        decided[i] = True
    ctx.count("cert:points-certified", int(np.sum(decided)))

    # the even-odd rule (winding_parity_crossing / inside_eq_evenOdd_certified): triangulation-free
    qe = ctx.driver.Q("spec.evenodd", L([r for r in Vc]), L([r for r in Pc]))
    for i in range(npts):
        X, w, onp = qe[3 * i: 3 * i + 3]
        if onp:
            continue
        if (w - X) % 2 != 0 or abs(w) > 1:
            raise InfraError("C06: winding_parity_crossing instance fails / |winding| > 1 for a simple polygon at %r" % (PI[i],))
        if (X % 2 == 1) != (status[i] == "in") or bool(qmodel[i]) != (X % 2 == 1):
            raise InfraError("C06: even-odd rule (Lean, Q, vertical ray) and the integer oracle (horizontal ray) "
                             "disagree at %r" % (PI[i],))
    ctx.count("even-odd-checked")

    # convex polygons: the triangulation-free certificate
    if poly["kind"] in ("convex", "c04:convex", "c04:rect", "c04:triangle"):
        qc = ctx.driver.Q("convex.inside", L([r for r in Vc]), L([r for r in Pc]))
        if qc[0] or qc[1]:
            ctx.count("convex-cert:accepted")
            for i in range(npts):
                onp, inc, mdl = qc[2 + 3 * i: 5 + 3 * i]
                if onp:
                    continue
                if bool(inc) != (status[i] == "in") or bool(mdl) != bool(inc):
                    raise InfraError("C06: convex_inside_certified instance fails at %r" % (PI[i],))
        else:
            ctx.count("convex-cert:not-strictly-convex")

    # intrinsic membership in space (no rotation), for polygons parallel to the xy plane
    if exactR:
        z0 = float(case["z"]) if mode == "zshift" else 0.0
        T3 = [np.r_[A[a], z0, A[b], z0, A[c], z0] for a, b, c in poly["tris"]]
        q3 = ctx.driver.Q("spec.region3", nn + 0.0, L(T3), L([r for r in P3]))
        for i in range(npts):
            if not q3[2 * i + 1] and bool(q3[2 * i]) != (status[i] == "in"):
                raise InfraError("C06: intrinsic spec (inRegion3) and the integer oracle disagree at %r" % (PI[i],))
        ctx.count("intrinsic-spec-checked")

    # ---- B: model (Float) on the implementation's own arrays
    try:
        fm = ctx.driver.F("poly.inside", L([r[:2] for r in verts_rot]), L([r[:2] for r in pts_rot]))
        m_in = np.array(fm[0::2], dtype=bool)
        f3 = ctx.driver.F("poly.inside3", R.ravel(), L([r for r in shp.vertices]), L([r for r in P3]))
        a3 = np.array(ctx.driver.F("poly.arg", R.ravel(), L([r for r in shp.vertices]), *rows_arg(3, P3)), dtype=bool)
        a2 = np.array(ctx.driver.F("poly.arg", R.ravel(), L([r for r in shp.vertices]), *rows_arg(2, P3[:, :2])),
                      dtype=bool)
    except ModelRaise as e:
        ctx.disagree("poly.inside", bare, "model raised " + e.kind)
        return
    m3_in = np.array(f3[:npts], dtype=bool)
    m3_pts = np.array(f3[npts:4 * npts], dtype=float).reshape(npts, 3)
    m3_verts = np.array(f3[4 * npts:], dtype=float).reshape(n, 3)
    for name, mm in (("poly.inside", m_in), ("poly.inside3", m3_in), ("poly.arg:N3", a3)):
        for i in range(npts):
            if far[i] and mm[i] != res[i]:
                ctx.disagree(name, dict(case, points=[case["points"][i]]), [bool(res[i]), bool(mm[i])])
                break
    if not (ctx.close_enough(m3_pts, pts_rot, offs) and ctx.close_enough(m3_verts, verts_rot, offs)):
        ctx.disagree("poly.inside3:rotation", bare, "rotated coordinates differ")
    if npts:
        ties = int(np.sum(np.any(pts_rot[:, None, 0] == verts_rot[None, :, 0], axis=1)))
        ctx.count("rotated-x-ties", ties)
    # exact frames: the implementation must agree with the model over Q on EVERY point, boundary points included
    if exactR:
        GI = [(int(round(sx)) * G[i][0], G[i][1]) for i in range(n)]
        nex = 0
        for i in range(npts):
            if not float_cross_reliable(GI, (int(round(sx)) * PI[i][0], PI[i][1])):
                ctx.count("exact-compare:skipped-rounding")
                continue
            nex += 1
            if bool(res[i]) != bool(qmodel[i]):
                ctx.disagree("poly.exact", dict(case, points=[case["points"][i]]),
                             {"impl": bool(res[i]), "model-over-Q": bool(qmodel[i]), "class": pcl[i],
                              "status": status[i]})
                break
            if status[i] == "on":
                ctx.count("tie-rule:impl=model:" + pcl[i] + ":" + str(bool(res[i])))
        ctx.count("exact-compare", nex)

    # ---- C: implementation vs exact membership
    for i in range(npts):
        if far[i] and bool(res[i]) != bool(exact[i]):
            ctx.fail(cls + ".is_inside:membership",
                     "is_inside differs from exact membership in the polygon's region",
                     dict(case, points=[case["points"][i]]),
                     {"impl": bool(res[i]), "exact": status[i], "dist/size": float(dist[i] / size), "reached": how,
                      "query-order": qorder})
            break

    # ---- (N,2) points: the points (x, y, 0) of space
    rN2, rPad = got["N2"], got["N3pad"]
    pad_rot = np.dot(P3pad, R.T)
    far2 = boundary_distance(verts_rot[:, :2], pad_rot[:, :2]) >= MARGIN * size if npts else np.zeros(0, dtype=bool)
    ok = (rN2[0] == "ok" and rPad[0] == "ok" and rN2[1].shape == (npts,) and rN2[1].dtype == np.bool_
          and bool(np.all(rN2[1][far2] == rPad[1][far2])))
    if ok and mode in ("xy2", "xy3"):
        ok = bool(np.all(rN2[1][far] == exact[far]))
    if not ok:
        ctx.fail(cls + ".is_inside:N2-points", "(N,2) points are not treated as the points (x, y, 0)",
                 dict(case, points=case["points"][:5]),
                 {"N2": str(rN2[1:])[:200], "padded": str(rPad[1:])[:200], "reached": how, "query-order": qorder})
    else:
        if np.any(a2[far2] != rN2[1][far2]):
            ctx.disagree("poly.arg:N2", bare, "padded (N,2) path differs")
        if exactR and mode in ("xy2", "xy3") and np.any(rN2[1] != res):
            ctx.disagree("poly.exact:N2", bare, "(N,2) and (N,3) answers differ for a polygon in the plane z = 0")
        ctx.count("N2-checked:" + ("in-plane" if mode in ("xy2", "xy3") else "projected"))

    # ---- batch vs single, both layouts; list input; empty input
    for lay, ref, farx in (("one3", res, far), ("one2", rN2[1] if rN2[0] == "ok" else None, far2)):
        if ref is None:
            continue
        for k, i in enumerate(sel):
            if not farx[i]:
                continue
            one = got[lay][k]
            if not (one[0] == "ok" and one[1].shape == (1,) and one[1].dtype == np.bool_ and bool(one[1][0]) == bool(ref[i])):
                ctx.fail(cls + ".is_inside:batch-vs-single", "single-point call differs from the batch call",
                         dict(case, points=[case["points"][i]]),
                         {"layout": lay, "single": str(one[1:])[:200], "batch": bool(ref[i]), "query-order": qorder})
                break
        ctx.count("single-checked:" + lay, len(sel))
    l3 = got["list3"]
    if not (l3[0] == "ok" and l3[1].shape == (min(3, npts),) and bool(np.all(l3[1][far[:3]] == res[:3][far[:3]]))):
        ctx.fail(cls + ".is_inside:batch-vs-single", "a list of rows is not treated like the array", bare, str(l3)[:200])
    for nm, w in (("empty3", 3), ("empty2", 2)):
        r0 = got[nm]
        if not (r0[0] == "ok" and r0[1].shape == (0,)):
            ctx.fail(cls + ".is_inside:shape", "an empty (0,%d) array does not give an empty result" % w, bare, str(r0)[:200])
    # malformed widths: the model raises ValueError (np.dot shape mismatch)
    for nm, w, rows in (("w0", 0, [[]]), ("w1", 1, [[1.0], [2.0]]), ("w4", 4, np.c_[P3[:2], np.ones(len(P3[:2]))]),
                        ("scalar", 1, [[0.5]])):
        try:
            mk = ctx.driver.F("poly.arg", R.ravel(), L([r for r in shp.vertices]), *rows_arg(w, rows))
            mk = "ok"
        except ModelRaise as e:
            mk = e.kind
        ik = "ok" if got[nm][0] == "ok" else got[nm][1]
        if mk != ik:
            ctx.disagree("poly.arg:width-%d" % w, bare, {"impl": ik, "model": mk})
    ctx.count("arg-shapes-checked")

    # ---- the same object after its public mutators: query -> move -> query -> resize -> query
    if hrng.random() < 0.5:
        mutate_and_requery(ctx, case, shp, cls, P3, exact, far, size, how, hrng)


def mutate_and_requery(ctx, case, shp, cls, P3, exact, far, size, how, hrng):
    steps = ["move", "resize"] if hrng.random() < 0.5 else ["resize", "move"]
    pts = P3.copy()
    scale_now = 1.0
    for st in steps:
        try:
            before = np.array(shp.vertices, dtype=float)
            if st == "move":
                d = hrng.normal(size=3) * size * float(hrng.uniform(0.3, 3.0))
                if case["mode"] in ("xy2", "xy3", "zshift") and hrng.random() < 0.7:
                    d[2] = 0.0
                attr = "centroid" if (hrng.random() < 0.5 or not hasattr(type(shp), "center")) else "center"
                setattr(shp, attr, np.array(getattr(shp, attr), dtype=float) + d)
                after = np.array(shp.vertices, dtype=float)
                disp = np.mean(after - before, axis=0)
                if not np.allclose(after - before, disp[None, :], rtol=0, atol=1e-11 * (size + np.max(np.abs(after)))):
                    ctx.count("requery:setter-not-a-translation")    # C08's business
                    return
                pts = pts + disp[None, :]
            else:
                a0 = float(shp.area)
                shp.area = 4.0 * a0
                after = np.array(shp.vertices, dtype=float)
                if not np.allclose(after, 2.0 * before, rtol=1e-12, atol=1e-12 * size):
                    ctx.count("requery:setter-not-a-doubling")
                    return
                pts = 2.0 * pts
                scale_now *= 2.0
            r = np.asarray(shp.is_inside(pts))
        except Exception as e:  # noqa: BLE001
            ctx.fail(cls + ".is_inside:raises", "is_inside raised %s after %s" % (exc_kind(e), st),
                     dict(case, points=[]), repr(e))
            return
        ctx.count("requery:after-" + st)
        # the moved points carry a rounding error of ~1e-16 * (size + offset): far below the margin
        bad = [i for i in range(len(pts)) if far[i] and bool(r[i]) != bool(exact[i])] if r.shape == (len(pts),) else [0]
        if bad:
            i = bad[0]
            ctx.fail(cls + ".is_inside:membership:after-" + st,
                     "is_inside of the same object after its %s setter differs from exact membership in the moved "
                     "polygon" % ("centroid/center" if st == "move" else "area"),
                     dict(case, points=[case["points"][i]]),
                     {"impl": str(r[i] if r.shape == (len(pts),) else r.shape), "exact": bool(exact[i]), "steps": steps,
                      "reached": how})
            return


# ----------------------------------------------------------------------------- circles and ellipses


def curved_shape(rng):
    """A circle or an ellipse (dict like gen.c06_curved) at sizes 1e-3 .. 1e3: a<b, a=b, a>b, centre at the origin /
    integer / float / far (in units of the size)."""
    shape = "circle" if rng.random() < 0.4 else "ellipse"
    a = float(10 ** rng.uniform(-3, 3))
    rel = ["a<b", "a=b", "a>b"][int(rng.integers(3))]
    if shape == "circle" or rel == "a=b":
        b = a
    elif rel == "a<b":
        b = a * float(rng.uniform(1.1, 8))
    else:
        b = a / float(rng.uniform(1.1, 8))
    ck = ["origin", "int", "float", "far"][int(rng.integers(4))]
    m = max(a, b)
    if ck == "origin":
        c = [0, 0, 0]
    elif ck == "int":
        c = [int(v) for v in rng.integers(-5, 6, size=3)]
    elif ck == "float":
        c = [float(v) for v in rng.uniform(-2 * m, 2 * m, size=3)]
    else:
        c = [float(v) for v in rng.uniform(-10 * m, 10 * m, size=3)]
    return {"shape": shape, "a": a, "b": b, "center": c, "center_kind": ck,
            "rel": "a=b" if a == b else ("a<b" if a < b else "a>b")}


def make_curved_case(rng, ctx):
    sh = curved_shape(rng) if rng.random() < 0.7 else gen.c06_curved(rng)
    npts = (ctx.budget(90, 290) + int(rng.integers(0, 21))) // max(1, ctx.widen)
    # out-of-plane offsets RELATIVE to the size (radius / larger semi-axis), both signs: within rounding of the plane
    # (1e-12 .. 1e-9.3), round the switch 1e-8 * size of the implementation, clearly off (.. 1e-4), and far off
    zrel = [float(10 ** rng.uniform(-12, -9.3)) * (1 if rng.random() < 0.5 else -1) for _ in range(2)]
    zrel += [float(10 ** rng.uniform(-9.3, -4)) * (1 if rng.random() < 0.5 else -1) for _ in range(3)]
    zrel += [0.5 * (1 if rng.random() < 0.5 else -1)]
    return {"shape": sh["shape"], "curved": sh, "points": gen.c06_curved_points(rng, sh, npts), "zrel": zrel}


def eval_curved(ctx, case):
    import coxeter
    sh = case["curved"]
    a, b = float(sh["a"]), float(sh["b"])
    cen = sh["center"]
    is_circle = sh["shape"] == "circle"
    cls = "Circle" if is_circle else "Ellipse"
    ctx.count("shape:" + cls)
    ctx.count("axes:" + sh["rel"])
    ctx.count("centre:" + sh["center_kind"])
    try:
        shp = coxeter.shapes.Circle(a, cen) if is_circle else coxeter.shapes.Ellipse(a, b, cen)
    except Exception as e:
        ctx.fail(cls + ".__init__:raises", "constructor raised " + exc_kind(e), dict(case, points=[]), repr(e))
        return
    key = json.dumps([sh["shape"], a, b, [float(v) for v in cen], len(case["points"])])
    hrng = history.rng_for(key)
    # a third of the shapes are reached through the radius / axes and centre setters (same numbers put back)
    shp, how = history.maybe_via_history(shp, hrng, 1.0 / 3.0, ctx)
    if is_circle:
        same = float(shp.radius) == a
    else:
        same = float(shp.a) == a and float(shp.b) == b
    if not (same and np.array_equal(np.asarray(shp.centroid, dtype=float), np.array([float(v) for v in cen]))):
        ctx.count("reached:setters-did-not-restore")       # C08's business; judge the directly built shape
        shp = coxeter.shapes.Circle(a, cen) if is_circle else coxeter.shapes.Ellipse(a, b, cen)
        how = "direct"
    cf = np.array([float(v) for v in cen])
    pts = np.array([[float(p[0]), float(p[1]), float(p[2])] for p in case["points"]]).reshape(-1, 3)
    npts = len(pts)
    try:
        res = np.asarray(shp.is_inside(pts))
    except Exception as e:
        ctx.fail(cls + ".is_inside:raises", "is_inside raised " + exc_kind(e), dict(case, points=[]), repr(e))
        return
    if res.shape != (npts,) or res.dtype != np.bool_:
        ctx.fail(cls + ".is_inside:shape", "result is not a boolean (N,) array", dict(case, points=[]),
                 [str(res.shape), str(res.dtype)])
        return
    d = pts - cf
    # margins (float): distance from the curve in units of the radius, and from the coded box faces
    rho = np.sqrt((d[:, 0] / a) ** 2 + (d[:, 1] / b) ** 2)
    far_curve = np.abs(rho - 1) >= MARGIN
    far_box = (np.abs(d[:, 0] / a - 1) >= MARGIN) & (np.abs(d[:, 1] / b - 1) >= MARGIN)
    for p, dd in zip(case["points"], d):
        ctx.count("point:" + ("corner" if str(p[3]).startswith("corner") else str(p[3])))
        ctx.count("quadrant:%s%s" % ("+" if dd[0] >= 0 else "-", "+" if dd[1] >= 0 else "-"))

    # ---- B: model at Float
    try:
        if is_circle:
            m_in = np.array(ctx.driver.F("circle.inside", a, cf, L([r for r in pts])), dtype=bool)
        else:
            m_in = np.array(ctx.driver.F("ellipse.inside", a, b, cf, L([r for r in pts])), dtype=bool)
    except ModelRaise as e:
        ctx.disagree(cls.lower() + ".inside", dict(case, points=[]), "model raised " + e.kind)
        return
    farB = far_curve if is_circle else far_box
    ctx.skipped_near_boundary += int(np.sum(~(far_curve & (farB))))
    for i in range(npts):
        if farB[i] and m_in[i] != res[i]:
            ctx.disagree(cls.lower() + ".inside", dict(case, points=[case["points"][i]]), [bool(res[i]), bool(m_in[i])])
            break
    # ---- integer-typed points: the answer must not depend on the dtype / container the points arrive in (an offset
    #      array allocated with the points' dtype truncates `point - centre` for fractional centres)
    ip = np.round(pts).astype(np.int64)
    try:
        ref_i = np.asarray(shp.is_inside(ip.astype(np.float64)))
        for nm, arg in (("int64-array", ip.copy()), ("int-list", ip.tolist()), ("int32-array", ip.astype(np.int32))):
            got_i = np.asarray(shp.is_inside(arg))
            if got_i.shape != ref_i.shape or not np.array_equal(got_i, ref_i):
                k = int(np.flatnonzero(got_i != ref_i)[0]) if got_i.shape == ref_i.shape else 0
                ctx.fail(cls + ".is_inside:integer-points:" + nm, "integer-typed points are answered differently from the "
                         "same points as float64", dict(case, points=[]),
                         {"point": ip[k].tolist(), "as_" + nm: bool(got_i[k]) if got_i.size > k else None,
                          "as_float64": bool(ref_i[k])})
                break
    except Exception as e:  # noqa: BLE001
        ctx.fail(cls + ".is_inside:integer-points:raises", "is_inside raised %s on integer-typed points" % exc_kind(e),
                 dict(case, points=[]), repr(e))
    # ---- out-of-plane offsets relative to the size.  B: implementation = model (isclose(z, 0, atol = 1e-8 * size))
    #      everywhere except a hair round the switch.  C: a point within rounding of the plane (|dz| <= 1e-9 * size, the
    #      project's natural tolerance) is an in-plane point: its answer must be that of its in-plane twin, at every
    #      size of the shape.
    size = a if is_circle else max(a, b)
    ctx.count("size:1e%+d" % int(np.floor(np.log10(size))))
    ins = ([i for i in range(npts) if farB[i] and far_curve[i] and res[i] and rho[i] < 1][:5]
           + [i for i in range(npts) if farB[i] and far_curve[i] and res[i] and rho[i] > 1][:1])
    outs = [i for i in range(npts) if farB[i] and far_curve[i] and not res[i]][:3]
    pick = ins + outs
    for zr in case.get("zrel", []):
        if not pick:
            break
        q3 = pts[pick].copy()
        q3[:, 2] = q3[:, 2] + zr * size
        dzz = q3[:, 2] - cf[2]                          # the offsets actually realised in doubles
        try:
            r3 = np.asarray(shp.is_inside(q3))
            if is_circle:
                m3 = np.array(ctx.driver.F("circle.inside", a, cf, L([r for r in q3])), dtype=bool)
            else:
                m3 = np.array(ctx.driver.F("ellipse.inside", a, b, cf, L([r for r in q3])), dtype=bool)
        except Exception as e:
            ctx.disagree(cls.lower() + ".inside:out-of-plane", dict(case, points=[]), repr(e))
            break
        if r3.shape != (len(pick),):
            ctx.fail(cls + ".is_inside:shape", "result is not a boolean (N,) array", dict(case, points=[]), str(r3.shape))
            break
        ctx.count("out-of-plane:" + ("within-rounding" if abs(zr) <= 1e-9 else "off" if abs(zr) < 0.1 else "far"),
                  len(pick))
        bad = [k for k in range(len(pick)) if abs(dzz[k]) <= 1e-9 * size and bool(r3[k]) != bool(res[pick[k]])]
        if bad:
            k = bad[0]
            ctx.fail(cls + ".is_inside:membership:in-plane-up-to-rounding",
                     "a point within rounding of the shape's plane (|dz| <= 1e-9 * size) is not answered like the "
                     "in-plane point with the same x, y",
                     dict(case, points=[case["points"][pick[k]]], zrel=[float(zr)]),
                     {"dz": float(dzz[k]), "dz/size": float(dzz[k] / size), "size": size, "impl": bool(r3[k]),
                      "in-plane answer": bool(res[pick[k]])})
        okz = np.abs(np.abs(dzz) / (1e-8 * size) - 1.0) > 1e-6
        if np.any(m3[okz] != r3[okz]):
            ctx.disagree(cls.lower() + ".inside:out-of-plane", dict(case, points=[]),
                         {"zrel": float(zr), "size": size, "impl": str(r3), "model": str(m3)})
        if bad or np.any(m3[okz] != r3[okz]):
            break

    # ---- C: implementation vs exact membership (Lean spec over Q on the very inputs)
    c2 = cf[:2]
    if is_circle:
        exact = np.array(ctx.driver.Q("spec.disk", a, c2, L([r[:2] for r in pts])), dtype=bool)
        box = exact
    else:
        exact = np.array(ctx.driver.Q("spec.ellipse", a, b, c2, L([r[:2] for r in pts])), dtype=bool)
        box = np.array(ctx.driver.Q("ellipse.inside", a, b, cf, L([r for r in pts])), dtype=bool)
    # cross-check of the Q oracle with Fractions on a few points
    for i in range(min(npts, 6)):
        dx = Fraction(float(pts[i, 0])) - Fraction(float(cf[0]))
        dy = Fraction(float(pts[i, 1])) - Fraction(float(cf[1]))
        ex = (dx / Fraction(a)) ** 2 + (dy / Fraction(b)) ** 2 <= 1
        if ex != bool(exact[i]):
            raise InfraError("C06: Lean spec and Fraction oracle disagree for %r" % (case["points"][i],))
    reported = set()
    for i in range(npts):
        if not far_curve[i]:
            continue
        ctx.count("exact:" + ("in" if exact[i] else "out"))
        if bool(res[i]) == bool(exact[i]):
            continue
        if (not is_circle) and far_box[i] and bool(res[i]) == bool(box[i]):
            sig, what = KNOWN_ELLIPSE, ("Ellipse.is_inside is the one-sided box test x-cx <= a and y-cy <= b, "
                                        "not membership in the ellipse")
        elif (not is_circle) and not far_box[i]:
            continue
        else:
            sig, what = cls + ".is_inside:membership", "is_inside differs from exact membership"
        if sig not in reported:
            reported.add(sig)
            ctx.fail(sig, what, dict(case, points=[case["points"][i]], zrel=[]),
                     {"impl": bool(res[i]), "exact": bool(exact[i]), "rho": float(rho[i]),
                      "d/axes": [float(d[i, 0] / a), float(d[i, 1] / b)]})
        if sig == KNOWN_ELLIPSE:
            ctx.count("known-box-mismatch:quadrant:%s%s" % ("+" if d[i, 0] >= 0 else "-", "+" if d[i, 1] >= 0 else "-"))

    # ---- batch vs single
    for i in range(min(npts, 12 if ctx.tier == "quick" else 25)):
        try:
            one = np.asarray(shp.is_inside(pts[i]))
            ok = one.shape == (1,) and bool(one[0]) == bool(res[i])
        except Exception as e:
            one, ok = repr(e), False
        if not ok:
            ctx.fail(cls + ".is_inside:batch-vs-single", "single-point call differs from the batch call",
                     dict(case, points=[case["points"][i]], zrel=[]), [str(one), bool(res[i])])
            break

    # ---- argument handling (correspondence): (N,3) rows, list input, and the widths NumPy broadcasting
    #      accepts (1) or rejects (0, 2, 4) in `np.atleast_2d(points) - self.centroid`
    op = "circle.arg" if is_circle else "ellipse.arg"
    head = [a, cf] if is_circle else [a, b, cf]
    probes = {"w3": (3, pts[:4]), "w2": (2, pts[:4, :2]), "w1": (1, pts[:4, :1]), "w4": (4, np.c_[pts[:2], np.ones(len(pts[:2]))]),
              "w0": (0, [[]]), "scalar": (1, [[float(pts[0, 0])]] if npts else [[0.5]])}
    pyarg = {"w3": pts[:4].tolist(), "w2": pts[:4, :2], "w1": pts[:4, :1], "w4": np.c_[pts[:2], np.ones(len(pts[:2]))],
             "w0": [], "scalar": float(pts[0, 0]) if npts else 0.5}
    got, qorder = read_shuffled({k: thunk(lambda k=k: shp.is_inside(pyarg[k])) for k in probes}, key)
    for k, (w, rows) in probes.items():
        try:
            mk = ("ok", np.array(ctx.driver.F(op, *head, *rows_arg(w, rows)), dtype=bool))
        except ModelRaise as e:
            mk = ("exc", e.kind)
        g = got[k]
        if g[0] != mk[0] or (g[0] == "exc" and g[1] != mk[1]):
            ctx.disagree(op + ":" + k, dict(case, points=[], zrel=[]), {"impl": str(g[:2]), "model": str(mk[:2])})
        elif g[0] == "ok" and k == "w3":
            sel = farB[: len(g[1])]
            if g[1].shape != mk[1].shape or np.any(g[1][sel] != mk[1][sel]) or np.any(g[1][sel] != res[: len(g[1])][sel]):
                ctx.disagree(op + ":" + k, dict(case, points=[], zrel=[]), "rows answered differently")
    ctx.count("arg-shapes-checked")

    # ---- the same object after a centre move: query -> move -> query
    if hrng.random() < 0.6:
        d = np.r_[hrng.uniform(-3, 3, size=2) * max(a, b), (hrng.uniform(-3, 3) * max(a, b)) if hrng.random() < 0.5 else 0.0]
        attr = "centroid" if hrng.random() < 0.5 else "center"
        try:
            setattr(shp, attr, cf + d)
            c1 = np.asarray(shp.centroid, dtype=float)
            moved = pts + (c1 - cf)[None, :]
            moved[:, 2] = c1[2]                      # in-plane points of the moved shape
            r2 = np.asarray(shp.is_inside(moved))
        except Exception as e:  # noqa: BLE001
            ctx.fail(cls + ".is_inside:raises", "is_inside raised %s after a centre move" % exc_kind(e),
                     dict(case, points=[], zrel=[]), repr(e))
            return
        # the moved points are rounded: compare with exact membership about the NEW centre on the moved doubles
        c2 = c1[:2]
        inplane = moved[:, 2] == c1[2]
        d2 = moved - c1
        rho2 = np.sqrt((d2[:, 0] / a) ** 2 + (d2[:, 1] / b) ** 2)
        fc2 = (np.abs(rho2 - 1) >= MARGIN) & inplane
        fb2 = (np.abs(d2[:, 0] / a - 1) >= MARGIN) & (np.abs(d2[:, 1] / b - 1) >= MARGIN)
        if is_circle:
            ex2 = np.array(ctx.driver.Q("spec.disk", a, c2, L([r[:2] for r in moved])), dtype=bool)
            bx2 = ex2
        else:
            ex2 = np.array(ctx.driver.Q("spec.ellipse", a, b, c2, L([r[:2] for r in moved])), dtype=bool)
            bx2 = np.array(ctx.driver.Q("ellipse.inside", a, b, c1, L([r for r in moved])), dtype=bool)
        ctx.count("requery:after-move")
        for i in range(npts):
            if not fc2[i] or bool(r2[i]) == bool(ex2[i]):
                continue
            if (not is_circle) and (not fb2[i] or bool(r2[i]) == bool(bx2[i])):
                continue          # near a box face, or the listed box-test finding (reported above on the fresh shape)
            ctx.fail(cls + ".is_inside:membership:after-move",
                     "is_inside of the same object after its centre setter differs from exact membership about the "
                     "new centre", dict(case, points=[case["points"][i]], zrel=[]),
                     {"impl": bool(r2[i]), "exact": bool(ex2[i]), "reached": how, "new-centre": c1.tolist()})
            break


# ----------------------------------------------------------------------------- entry points


def eval_case(ctx, case):
    if case["shape"] == "polygon":
        eval_polygon(ctx, case)
    else:
        eval_curved(ctx, case)


def fixed_cases():
    """the witnesses of the known finding and the textbook shapes, always evaluated"""
    sq = {"kind": "c04:rect", "G": [[0, 0], [2 ** 26, 0], [2 ** 26, 2 ** 26], [0, 2 ** 26]], "e": 0,
          "tris": [[0, 1, 2], [0, 2, 3]], "turn": 0.0, "quarter": 0, "offset": [0, 0]}
    h = 2 ** 25
    pts = [[h, h, "uniform"], [3 * h, h, "uniform"], [2 * h, 4 * h, "shared-x"], [-h, 2 * h, "shared-y"],
           [0, 3 * h, "shared-x"], [h, 2 * h + 64, "near-edge"], [h, 2 * h - 64, "near-edge"]]
    out = []
    for rev in (False, True):
        for normal in ("default", "-n"):
            out.append({"shape": "polygon", "poly": sq, "points": pts, "cls": "Polygon", "reverse": rev,
                        "mode": "xy3", "normal": normal, "nscale": 1.0})
    ell = {"shape": "ellipse", "a": 1.0, "b": 2.0, "center": [0, 0, 0], "center_kind": "origin", "rel": "a<b"}
    out.append({"shape": "ellipse", "curved": ell, "zrel": [],
                "points": [[-5.0, -5.0, 0.0, "witness"], [0.9, 1.9, 0.0, "witness"], [0.5, -1.0, 0.0, "witness"],
                           [-0.9, 1.9, 0.0, "witness"], [0.9, -1.9, 0.0, "witness"], [3.0, 0.0, 0.0, "witness"]]})
    return out


def run(ctx):
    for case in fixed_cases():
        ctx.case(case)
        eval_case(ctx, case)
    npoly = ctx.budget(190, 1800)
    for _ in range(npoly):
        case = make_polygon_case(ctx.rng, ctx)
        ctx.case(case)
        eval_case(ctx, case)
    ncurved = ctx.budget(100, 1100)
    for _ in range(ncurved):
        case = make_curved_case(ctx.rng, ctx)
        ctx.case(case)
        eval_case(ctx, case)


def replay(ctx, payload):
    case = payload.get("case", payload)
    ctx.case(case)
    eval_case(ctx, case)
