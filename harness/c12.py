"""C12 — compute_form_factor_amplitude is the Fourier transform of the shape."""
import itertools

import numpy as np
from numpy.polynomial.legendre import leggauss
from scipy.special import spherical_jn

import gen
import history
from common import I, L, ModelRaise, exc_kind

RULE = ("shapes: gen.convex_solid (as ConvexPolyhedron and as Polyhedron copy), boxes with known frame, voxel solids "
        "(L/U/frame/steps, as Polyhedron with unit-square faces), prisms over non-convex polygons, planar polygons "
        "(regular/star/comb/lattice, both orientations, default/explicit/opposing normal, random plane in 3-space), "
        "spheres with centres; q: |q|*size in {0} U [1e-3,30] in random directions, exactly along face normals, "
        "perpendicular to edges, parallel to edges, along axes, at the ends 1e-3 and 30 of the |q|*size range, batches of "
        "size 1.. mixing zero / in-plane-zero / generic; density != 1 and omitted; the q argument also as (3,) array, "
        "nested list, flat list, empty batch (argument glue); a third of the shapes reached through history.via_history "
        "(warmed scaled/shifted copy brought to the target by its own mutators); own history clause: form factor -> 1..3 "
        "mutators (centroid, every _rescale-based size setter, size setter last or first, re-queried in between) -> form "
        "factor; distinct = distinct (shape, q batch); non-trivial = at least one non-zero q")
ASSUMPTIONS = [
    "exact Fourier transforms are computed independently of the code's Stokes reduction: tetrahedra/triangles by the "
    "Hermite-Genocchi divided difference of exp (Opitz matrix exponential, self-validated against Gauss-Legendre "
    "quadrature each run), boxes/voxel solids/prisms by product closed forms, balls by the spherical Bessel form",
    "numerical tolerance of the value clause: 1e-9*measure*density + 16*eps*(sum of |terms| of the Stokes sum)*density "
    "(the implemented formula cancels catastrophically at small |q|*size; this is floating point, outside the theorems)",
    "np.isclose windows: a wave vector with 0 < |q|^2 <= 1e-8 (or 0 < |q_inplane|^2 <= 1e-8 for a face) is treated "
    "as zero by the code; deviations explained by the rigorous bound A*|q_par|*rmax of that replacement are reported "
    "under the signature '<Class>.compute_form_factor_amplitude:isclose-window' (known finding), anything larger is a "
    "plain value failure",
    "continuity clause: |F(q)-F(q')| <= |q-q'|*rmax*measure (Lipschitz bound of the true transform) + the window "
    "bound + numerical tolerance, on pairs (special q', q' + small delta)",
    "Polygon/Polyhedron constructors' validity checks are C15; faces of a Polyhedron are given outward "
    "counter-clockwise (C02/C07)",
    "certificates evaluated exactly (driver, Q mode) on the implementation's own vertex data: FF.triangulationCheck (an ear "
    "clipping of the polygon has the polygon's edge cycle as boundary chain) and FF.surfaceClosedCheck (the fan triangles of "
    "vertices[face] form a closed oriented surface) - the hypotheses `hcert` / `hclosed` of the Lean theorems "
    "polygon_ff_eq_checked_triangulation / polyhedron_ff_eq_checked_tet_integrals; their right-hand sides (sum over the "
    "ear-clipping triangles / over the cone tetrahedra of the implementation's faces of the exact simplex transforms) are "
    "evaluated by divided differences and compared with the implementation and with the independent oracle",
    "the geometric hypotheses of those theorems (unit normals, exact planarity, counter-clockwise faces) hold for the ideal "
    "real polyhedron; on the floating-point data they hold to rounding and are not checked exactly",
]
EPS = 2.220446049250313e-16
WIN = 1e-8

# ===================================================================== independent exact transforms


def dd_exp(z):
    """divided differences exp[z_0..z_n] of the rows of z (M, n+1) complex: top-right entry of exp of the
    bidiagonal matrix diag(z) + superdiag(1) (Opitz), by scaling-and-squaring Taylor, mean removed."""
    z = np.asarray(z, dtype=complex)
    M, k = z.shape
    if M == 0:
        return np.zeros(0, dtype=complex)
    zm = z.mean(axis=1)
    A = np.zeros((M, k, k), dtype=complex)
    idx = np.arange(k)
    A[:, idx, idx] = z - zm[:, None]
    A[:, idx[:-1], idx[:-1] + 1] = 1.0
    nrm = float(np.max(np.abs(z - zm[:, None]))) + 1.0
    s = max(0, int(np.ceil(np.log2(nrm / 0.25))))
    B = A / (2.0 ** s)
    E = np.broadcast_to(np.eye(k, dtype=complex), (M, k, k)).copy()
    T = E.copy()
    for j in range(1, 22):
        T = T @ B / j
        E = E + T
    for _ in range(s):
        E = E @ E
    return E[:, 0, k - 1] * np.exp(zm)


def dd_exp_quad(z, n=48):
    """exp[z_0..z_n] by Hermite-Genocchi + Gauss-Legendre on the Duffy-transformed simplex (validation only)."""
    z = np.asarray(z, dtype=complex)
    x, w = leggauss(n)
    x = (x + 1) / 2
    w = w / 2
    if len(z) == 3:
        U, V = np.meshgrid(x, x, indexing="ij")
        W = np.outer(w, w)
        t1, t2 = U, (1 - U) * V
        return np.sum(W * (1 - U) * np.exp((1 - t1 - t2) * z[0] + t1 * z[1] + t2 * z[2]))
    U, V, S = np.meshgrid(x, x, x, indexing="ij")
    W = w[:, None, None] * w[None, :, None] * w[None, None, :]
    t1, t2, t3 = U, (1 - U) * V, (1 - U) * (1 - V) * S
    return np.sum(W * (1 - U) ** 2 * (1 - V) * np.exp((1 - t1 - t2 - t3) * z[0] + t1 * z[1] + t2 * z[2] + t3 * z[3]))


def ft_tets(tets, Q):
    """sum over tetrahedra of 6 V exp[-i q.v_0, .., -i q.v_3]"""
    T = np.asarray(tets, dtype=float)
    vol6 = np.einsum("mi,mi->m", T[:, 1] - T[:, 0], np.cross(T[:, 2] - T[:, 0], T[:, 3] - T[:, 0]))
    return np.array([np.sum(vol6 * dd_exp(-1j * (T @ q))) for q in np.asarray(Q, dtype=float)])


def ft_polygon(vs, n, Q):
    """transform of the planar REGION bounded by vs (orientation independent), q projected on the plane:
    signed triangle fan from the first vertex, each triangle 2 A exp[z0,z1,z2]."""
    vs = np.asarray(vs, dtype=float)
    n = np.asarray(n, dtype=float)
    n = n / np.linalg.norm(n)
    a = vs[1:-1] - vs[0]
    b = vs[2:] - vs[0]
    area2 = np.cross(a, b) @ n
    sgn = np.sign(np.sum(area2))
    out = []
    for q in np.asarray(Q, dtype=float):
        qp = q - (q @ n) * n
        ph = vs @ qp
        z = -1j * np.stack([np.full(len(a), ph[0]), ph[1:-1], ph[2:]], axis=1)
        out.append(sgn * np.sum(area2 * dd_exp(z)))
    return np.array(out)


def seg_ft(lo, hi, k):
    """int_lo^hi exp(-i k x) dx"""
    w = hi - lo
    return w * np.sinc(k * w / (2 * np.pi)) * np.exp(-1j * k * (lo + hi) / 2)


def ft_boxes(boxes, Q):
    Q = np.asarray(Q, dtype=float)
    out = np.zeros(len(Q), dtype=complex)
    for lo, hi in boxes:
        out += seg_ft(lo[0], hi[0], Q[:, 0]) * seg_ft(lo[1], hi[1], Q[:, 1]) * seg_ft(lo[2], hi[2], Q[:, 2])
    return out


def ft_ball(r, c, Q):
    Q = np.asarray(Q, dtype=float)
    x = np.linalg.norm(Q, axis=1) * r
    vol = 4.0 / 3.0 * np.pi * r ** 3
    with np.errstate(divide="ignore", invalid="ignore"):
        amp = np.where(x == 0, 1.0, 3 * spherical_jn(1, x) / np.where(x == 0, 1.0, x))
    return vol * amp * np.exp(-1j * (Q @ np.asarray(c, dtype=float)))


def placed(ft0, frame, Q):
    """transform of x -> s R x + t applied to a body with transform ft0: s^3 e^{-i q.t} F0(s R^T q)"""
    s, R, t = frame
    Q = np.asarray(Q, dtype=float)
    return s ** 3 * np.exp(-1j * (Q @ t)) * ft0(s * (Q @ R))


_validated = False


def self_validate(ctx):
    """spec self-validation: Opitz divided differences against quadrature; box form against tetrahedra."""
    global _validated
    if _validated:
        return
    rng = np.random.default_rng(12)
    worst = 0.0
    for trial in range(24):
        k = 3 if trial % 2 else 4
        a = rng.normal(size=k) * 10 ** rng.uniform(-3, 1.4) + rng.normal() * 200
        if trial % 5 == 0:
            a[1] = a[0]
        if trial % 7 == 0:
            a[2] = a[0] + 1e-9
        if trial % 11 == 0:
            a[:] = a[0]
        z = -1j * a
        worst = max(worst, abs(dd_exp(z[None, :])[0] - dd_exp_quad(z)))
    cube = np.array(list(itertools.product([0.0, 1.0], repeat=3))) * [1.0, 2.0, 0.5] + [0.3, -0.2, 0.9]
    tets, _, _ = gen.cone_tets(cube)
    Q = rng.normal(size=(6, 3)) * 3
    Q[0] = [2.0, 0, 0]
    worst2 = np.max(np.abs(ft_tets(tets, Q) - ft_boxes([(cube.min(0), cube.max(0))], Q)))
    ctx.extra["oracle_self_validation"] = {"dd_exp_vs_quadrature": worst, "tets_vs_box": float(worst2)}
    if worst > 1e-12 or worst2 > 1e-12:
        from common import InfraError
        raise InfraError("C12 oracle self-validation failed: %r %r" % (worst, worst2))
    _validated = True


# ===================================================================== geometry of the oracle side


def tri_geom(tris):
    """unit normals, areas, perimeters of (outward) triangles"""
    T = np.asarray(tris, dtype=float)
    cr = np.cross(T[:, 1] - T[:, 0], T[:, 2] - T[:, 0])
    A = np.linalg.norm(cr, axis=1) / 2
    N = cr / (2 * A)[:, None]
    P = sum(np.linalg.norm(T[:, (i + 1) % 3] - T[:, i], axis=1) for i in range(3))
    return N, A, P


def solid_bounds(geom, Q, V, rmax):
    """per q: (window bound, conditioning sum, in_zero_window, near_decision_boundary) for a solid whose
    boundary pieces are geom = (N, A, P)."""
    N, A, P = geom
    win, cond, zw, near = [], [], [], []
    for q in np.asarray(Q, dtype=float):
        qq = float(q @ q)
        qa = np.sqrt(qq)
        marg = 1e-6 * WIN + 4e-18 * qa
        if qq == 0:
            win.append(0.0); cond.append(V); zw.append(False); near.append(False)
            continue
        if qq <= WIN:
            win.append(qa * rmax * V); cond.append(V); zw.append(True); near.append(abs(qq - WIN) <= marg)
            continue
        qn = N @ q
        qp = q[None, :] - qn[:, None] * N
        qp2 = np.einsum("ij,ij->i", qp, qp)
        w = qp2 <= WIN
        win.append(float(np.sum(np.abs(qn[w]) / qq * A[w] * np.sqrt(qp2[w]) * rmax)))
        cond.append(float(np.sum(np.abs(qn[~w]) * P[~w] / (qq * np.sqrt(qp2[~w]))) + np.sum(np.abs(qn[w]) * A[w] / qq)))
        zw.append(False)
        near.append(bool(abs(qq - WIN) <= marg or np.any(np.abs(qp2 - WIN) <= marg)))
    return np.array(win), np.array(cond), np.array(zw), np.array(near)


def polygon_bounds(vs, n, Q, area, rmax):
    vs = np.asarray(vs, dtype=float)
    per = float(np.sum(np.linalg.norm(np.roll(vs, -1, axis=0) - vs, axis=1)))
    win, cond, zw, near = [], [], [], []
    for q in np.asarray(Q, dtype=float):
        qp = q - (q @ n) * n
        qp2 = float(qp @ qp)
        marg = 1e-6 * WIN + 4e-18 * float(np.linalg.norm(q))
        if qp2 <= WIN:
            win.append(np.sqrt(qp2) * rmax * area); cond.append(area); zw.append(qp2 > 0)
        else:
            win.append(0.0); cond.append(per / np.sqrt(qp2)); zw.append(False)
        near.append(abs(qp2 - WIN) <= marg)
    return np.array(win), np.array(cond), np.array(zw), np.array(near)


# ===================================================================== generators (c12_ prefixed)


def cross2(a, b):
    return float(a[0] * b[1] - a[1] * b[0])


def c12_frame(rng, size):
    """random similarity x -> s R x + t; offset up to 10 sizes"""
    s = 1.0 if rng.random() < 0.6 else float(10 ** rng.uniform(-3, 3))
    R = gen.random_rotation(rng) if rng.random() < 0.65 else np.eye(3)
    off = 0.0 if rng.random() < 0.3 else float(rng.uniform(0, 10))
    d = rng.normal(size=3)
    d /= np.linalg.norm(d)
    return s, R, d * off * size * s, {"scale": s, "rotated": not np.allclose(R, np.eye(3)), "offset_diams": off}


VOXEL_SHAPES = {
    "rod2": [(0, 0, 0), (1, 0, 0)],
    "L3": [(0, 0, 0), (1, 0, 0), (0, 1, 0)],
    "L4": [(0, 0, 0), (1, 0, 0), (2, 0, 0), (0, 1, 0)],
    "U5": [(0, 0, 0), (1, 0, 0), (2, 0, 0), (0, 1, 0), (2, 1, 0)],
    "T4": [(0, 0, 0), (1, 0, 0), (2, 0, 0), (1, 1, 0)],
    "plate4": [(0, 0, 0), (1, 0, 0), (0, 1, 0), (1, 1, 0)],
    "step4": [(0, 0, 0), (1, 0, 0), (1, 1, 0), (1, 1, 1)],
    "frame8": [(x, y, 0) for x in range(3) for y in range(3) if (x, y) != (1, 1)],
    "C7": [(0, 0, 0), (1, 0, 0), (2, 0, 0), (0, 1, 0), (0, 2, 0), (1, 2, 0), (2, 2, 0)],
    "tripod4": [(0, 0, 0), (1, 0, 0), (0, 1, 0), (0, 0, 1)],
}
_DIRS = [((1, 0, 0), [(1, 0, 0), (1, 1, 0), (1, 1, 1), (1, 0, 1)]),
         ((-1, 0, 0), [(0, 0, 0), (0, 0, 1), (0, 1, 1), (0, 1, 0)]),
         ((0, 1, 0), [(0, 1, 0), (0, 1, 1), (1, 1, 1), (1, 1, 0)]),
         ((0, -1, 0), [(0, 0, 0), (1, 0, 0), (1, 0, 1), (0, 0, 1)]),
         ((0, 0, 1), [(0, 0, 1), (1, 0, 1), (1, 1, 1), (0, 1, 1)]),
         ((0, 0, -1), [(0, 0, 0), (0, 1, 0), (1, 1, 0), (1, 0, 0)])]


def c12_voxel_faces(cells):
    """boundary unit squares (outward counter-clockwise) of a union of unit cells: vertices, faces"""
    cells = set(tuple(c) for c in cells)
    verts, faces = {}, []
    for c in sorted(cells):
        for d, corners in _DIRS:
            if tuple(np.add(c, d)) in cells:
                continue
            f = []
            for k in corners:
                p = tuple(np.add(c, k))
                f.append(verts.setdefault(p, len(verts)))
            faces.append(f)
    V = np.array(sorted(verts, key=verts.get), dtype=float)
    return V, faces


def c12_voxel_solid(rng):
    name = list(VOXEL_SHAPES)[int(rng.integers(len(VOXEL_SHAPES)))]
    cells = VOXEL_SHAPES[name]
    ext = np.exp(rng.uniform(-0.7, 0.7, size=3)) if rng.random() < 0.5 else np.ones(3)   # anisotropic cells
    V, faces = c12_voxel_faces(cells)
    V = V * ext
    s, R, t, info = c12_frame(rng, gen.diameter(V))
    boxes = [(np.array(c, dtype=float) * ext, (np.array(c, dtype=float) + 1) * ext) for c in cells]
    info.update(kind="voxel:" + name)
    return {"shape": "polyhedron", "vertices": (s * V @ R.T + t).tolist(), "faces": faces, "info": info,
            "oracle": {"type": "boxes", "boxes": [[lo.tolist(), hi.tolist()] for lo, hi in boxes],
                       "frame": [s, R.tolist(), t.tolist()]}}


def c12_box(rng):
    ext = np.exp(rng.uniform(-1, 1, size=3))
    V = np.array(list(itertools.product([0.0, 1.0], repeat=3))) * ext - ext * (0.5 if rng.random() < 0.5 else 0.0)
    s, R, t, info = c12_frame(rng, gen.diameter(V))
    info.update(kind="box")
    return {"shape": "convex" if rng.random() < 0.5 else "polyhedron_of_convex",
            "vertices": (s * V @ R.T + t).tolist(), "info": info,
            "oracle": {"type": "boxes", "boxes": [[V.min(0).tolist(), V.max(0).tolist()]],
                       "frame": [s, R.tolist(), t.tolist()]}}


def c12_polygon2d(rng):
    """simple polygon in the xy-plane, counter-clockwise. Returns (kind, (n,2) array)."""
    kind = ["regular", "star", "comb", "lattice", "triangle", "rect", "L"][int(rng.integers(7))]
    if kind == "regular":
        p = gen.ngon(int(rng.integers(3, 13)), phase=float(rng.uniform(0, 1)))
    elif kind == "star":
        n = int(rng.integers(5, 25))
        ang = np.sort(rng.uniform(0, 2 * np.pi, size=n))
        while np.min(np.diff(np.r_[ang, ang[0] + 2 * np.pi])) < 0.02 or np.max(np.diff(np.r_[ang, ang[0] + 2 * np.pi])) > 2.5:
            ang = np.sort(rng.uniform(0, 2 * np.pi, size=n))
        r = rng.uniform(0.3, 1.0, size=n)
        p = np.stack([r * np.cos(ang), r * np.sin(ang)], axis=1)
    elif kind == "comb":
        n = int(rng.integers(2, 7))
        pts = [(0.0, 0.0), (float(n), 0.0)]
        for i in range(n, 0, -1):
            pts.append((float(i), float(rng.uniform(0.8, 2.0))))
            pts.append((i - 0.5, float(rng.uniform(0.15, 0.5))))
        pts.append((0.0, float(rng.uniform(0.8, 2.0))))
        p = np.array(pts)
    elif kind == "lattice":
        pts = rng.integers(-4, 5, size=(12, 2)).astype(float)
        from scipy.spatial import ConvexHull
        while np.linalg.matrix_rank(pts - pts[0]) < 2:
            pts = rng.integers(-4, 5, size=(12, 2)).astype(float)
        p = pts[ConvexHull(pts).vertices]
    elif kind == "triangle":
        p = rng.normal(size=(3, 2))
        while abs(cross2(p[1] - p[0], p[2] - p[0])) < 0.2:
            p = rng.normal(size=(3, 2))
        if cross2(p[1] - p[0], p[2] - p[0]) < 0:
            p = p[::-1]
    elif kind == "rect":
        a, b = np.exp(rng.uniform(-1, 1, size=2))
        p = np.array([[0, 0], [a, 0], [a, b], [0, b]], dtype=float)
    else:
        a, b = rng.uniform(0.3, 0.7, size=2)
        p = np.array([[0, 0], [1, 0], [1, a], [b, a], [b, 1], [0, 1]], dtype=float)
    return kind, np.asarray(p, dtype=float)


def c12_polygon(rng):
    kind, p = c12_polygon2d(rng)
    p = p + (rng.normal(size=2) if rng.random() < 0.5 else 0.0)
    p = np.roll(p, -int(rng.integers(len(p))), axis=0)          # any start corner (reflex ones included)
    cw = bool(rng.random() < 0.5)
    if cw:
        p = p[::-1]
    V = np.c_[p, np.zeros(len(p))]
    s, R, t, info = c12_frame(rng, gen.diameter(V))
    V = s * V @ R.T + t
    nz = R[:, 2]
    mode = ["default", "explicit", "opposing"][int(rng.integers(3))]
    normal = None if mode == "default" else (nz if mode == "explicit" else -nz).tolist()
    if normal is not None and rng.random() < 0.3:
        normal = (np.array(normal) * float(rng.uniform(0.5, 3))).tolist()     # not unit on purpose
    info.update(kind="polygon:" + kind, clockwise=cw, normal_mode=mode, n=len(p))
    return {"shape": "polygon", "vertices": V.tolist(), "normal": normal, "plane_normal": nz.tolist(), "info": info}


def c12_ear_clip(p):
    """triangulation (index triples, counter-clockwise) of a simple counter-clockwise polygon p (n,2)"""
    idx = list(range(len(p)))
    tris = []
    guard = 0
    while len(idx) > 3 and guard < 10000:
        guard += 1
        m = len(idx)
        for k in range(m):
            i0, i1, i2 = idx[(k - 1) % m], idx[k], idx[(k + 1) % m]
            a, b, c = p[i0], p[i1], p[i2]
            if cross2(b - a, c - b) <= 1e-12:
                continue
            inside = False
            for j in idx:
                if j in (i0, i1, i2):
                    continue
                x = p[j]
                if cross2(b - a, x - a) >= -1e-12 and cross2(c - b, x - b) >= -1e-12 and cross2(a - c, x - c) >= -1e-12:
                    inside = True
                    break
            if not inside:
                tris.append([i0, i1, i2])
                idx.pop(k)
                break
        else:
            return None
    tris.append(list(idx))
    return tris


def c12_prism(rng):
    """right prism over a simple (possibly non-convex) polygon; the caps are given as coplanar triangles
    (Polyhedron.volume supports convex faces only), the sides as rectangles."""
    kind, p = c12_polygon2d(rng)
    n = len(p)
    tri = c12_ear_clip(p)
    if tri is None:
        return None
    h = float(np.exp(rng.uniform(-1, 1)))
    V = np.vstack([np.c_[p, np.zeros(n)], np.c_[p, h * np.ones(n)]])
    faces = [[t[0], t[2], t[1]] for t in tri] + [[n + t[0], n + t[1], n + t[2]] for t in tri]
    for i in range(n):
        j = (i + 1) % n
        faces.append([i, j, n + j, n + i])
    s, R, t, info = c12_frame(rng, gen.diameter(V))
    info.update(kind="prism:" + kind, n=n)
    return {"shape": "polyhedron", "vertices": (s * V @ R.T + t).tolist(), "faces": faces, "info": info,
            "oracle": {"type": "prism", "polygon": p.tolist(), "height": h, "frame": [s, R.tolist(), t.tolist()]}}


def c12_convex(rng):
    v, info = gen.convex_solid(rng)
    return {"shape": "convex" if rng.random() < 0.6 else "polyhedron_of_convex", "vertices": v.tolist(),
            "info": info, "oracle": {"type": "tets"}}


def c12_sphere(rng):
    r = float(10 ** rng.uniform(-3, 3)) if rng.random() < 0.6 else float(rng.uniform(0.5, 2))
    off = 0.0 if rng.random() < 0.25 else float(rng.uniform(0, 10))
    c = rng.normal(size=3)
    c = c / np.linalg.norm(c) * off * 2 * r
    return {"shape": "sphere", "radius": r, "center": c.tolist(), "info": {"kind": "sphere", "offset_diams": off}}


def c12_qs(rng, ctx, size, normals, edges, quick_max=24, thorough_max=400):
    """a batch of wave vectors from the quantifier's classes; returns (Q, classes)"""
    structured = [["random"], ["zero"], ["zero", "random"], ["normal", "zero", "random"], ["zero", "zero"],
                  ["normal", "normal", "zero"], ["normal"], ["edgeperp"], ["axis"], ["random", "normal"],
                  ["edgepar"], ["range-lo"], ["range-hi"], ["normal", "edgepar", "zero", "range-lo"],
                  ["zero", "normal"], ["edgeperp", "zero"]]
    if rng.random() < 0.45:
        classes = list(structured[int(rng.integers(len(structured)))])
    else:
        nmax = quick_max if ctx.tier == "quick" else thorough_max
        n = int(np.ceil(np.exp(rng.uniform(0, np.log(nmax)))))
        pool = ["zero", "random", "random", "random", "normal", "edgeperp", "axis", "edgepar", "range-lo", "range-hi"]
        classes = [pool[int(rng.integers(len(pool)))] for _ in range(n)]
    Q = []
    for idx, c in enumerate(classes):
        k = float(10 ** rng.uniform(-3, np.log10(30))) / size
        if c == "normal" and not len(normals):
            c = "random"
        if c in ("edgeperp", "edgepar") and not len(edges):
            c = "random"
        classes[idx] = c
        if c == "zero":
            q = np.zeros(3)
        elif c == "random":
            d = rng.normal(size=3)
            q = k * d / np.linalg.norm(d)
        elif c == "normal":
            n_ = np.asarray(normals[int(rng.integers(len(normals)))], dtype=float)
            q = k * (1 if rng.random() < 0.5 else -1) * n_ / np.linalg.norm(n_)
        elif c == "edgeperp":
            e = np.asarray(edges[int(rng.integers(len(edges)))], dtype=float)
            d = np.cross(e, rng.normal(size=3))
            q = k * d / np.linalg.norm(d)
        elif c == "edgepar":
            e = np.asarray(edges[int(rng.integers(len(edges)))], dtype=float)
            q = k * (1 if rng.random() < 0.5 else -1) * e / np.linalg.norm(e)
        elif c in ("range-lo", "range-hi"):
            d = rng.normal(size=3)
            if len(normals) and rng.random() < 0.4:
                d = np.asarray(normals[int(rng.integers(len(normals)))], dtype=float)
            q = (1e-3 if c == "range-lo" else 30.0) / size * d / np.linalg.norm(d)
        else:
            q = np.zeros(3)
            q[int(rng.integers(3))] = k * (1 if rng.random() < 0.5 else -1)
        Q.append(q)
        ctx.count("q:" + c)
    ctx.count("batch:1" if len(Q) == 1 else ("batch:2-9" if len(Q) < 10 else "batch:10+"))
    return np.array(Q, dtype=float), classes


# ===================================================================== evaluation


def cx(r):
    """driver reply (re im re im ...) -> complex array"""
    a = np.array(r, dtype=float)
    return a[0::2] + 1j * a[1::2]


def fan_tris(V, faces):
    V = np.asarray(V, dtype=float)
    return [np.array([V[f[0]], V[f[i]], V[f[i + 1]]]) for f in faces for i in range(1, len(f) - 1)]


def classify(ctx, cls, case, F, E, tol, win, zero_mask, rho, what):
    """value clause for a batch: ok / window finding / failure"""
    err = np.abs(F - E)
    for i in range(len(F)):
        if err[i] <= tol[i]:
            continue
        detail = {"i": i, "q": case["q"][i], "impl": F[i], "exact": E[i], "err": float(err[i]), "tol": float(tol[i]),
                  "window_bound": float(win[i] * rho)}
        if zero_mask[i]:
            ctx.fail("%s.compute_form_factor_amplitude:zero" % cls, "F(0) is not density*measure", case, detail)
        elif win[i] > 0 and err[i] <= tol[i] + 1.05 * win[i] * abs(rho):
            ctx.fail("%s.compute_form_factor_amplitude:isclose-window" % cls,
                     "a non-zero (in-plane) wave vector inside the absolute np.isclose window is treated as zero", case,
                     detail)
        else:
            ctx.fail("%s.compute_form_factor_amplitude:value" % cls, what, case, detail)
        return False
    return True


def solid_oracle(case):
    """independent description of the solid: exact transform function, volume, boundary pieces"""
    v = np.array(case["vertices"], dtype=float)
    o = case["oracle"]
    if o["type"] == "tets":
        tets, tris, _ = gen.cone_tets(v)
        T = np.asarray(tets)
        vol = float(np.sum(np.einsum("mi,mi->m", T[:, 1] - T[:, 0], np.cross(T[:, 2] - T[:, 0], T[:, 3] - T[:, 0]))) / 6)
        return (lambda Q: ft_tets(tets, Q)), vol, tri_geom(tris)
    s, R, t = o["frame"]
    frame = (float(s), np.array(R, dtype=float), np.array(t, dtype=float))
    if "faces" in case:
        tris = fan_tris(v, case["faces"])
    else:
        _, tris, _ = gen.cone_tets(v)
    if o["type"] == "boxes":
        boxes = [(np.array(lo, dtype=float), np.array(hi, dtype=float)) for lo, hi in o["boxes"]]
        vol = frame[0] ** 3 * float(sum(np.prod(hi - lo) for lo, hi in boxes))
        return (lambda Q: placed(lambda Q0: ft_boxes(boxes, Q0), frame, Q)), vol, tri_geom(tris)
    p = np.array(o["polygon"], dtype=float)
    h = float(o["height"])
    p3 = np.c_[p, np.zeros(len(p))]
    x, y = p[:, 0], p[:, 1]
    area = abs(0.5 * float(np.sum(x * np.roll(y, -1) - np.roll(x, -1) * y)))

    def ft0(Q0):
        return ft_polygon(p3, [0.0, 0.0, 1.0], Q0) * seg_ft(0.0, h, Q0[:, 2])
    return (lambda Q: placed(ft0, frame, Q)), frame[0] ** 3 * area * h, tri_geom(tris)


def build_solid(case, shift=None):
    from coxeter.shapes import ConvexPolyhedron, Polyhedron
    v = np.array(case["vertices"], dtype=float)
    if shift is not None:
        v = v + shift
    if case["shape"] == "convex":
        return ConvexPolyhedron(v)
    if case["shape"] == "polyhedron_of_convex":
        cp = ConvexPolyhedron(v)
        return Polyhedron(cp.vertices, [list(map(int, f)) for f in cp.faces])
    return Polyhedron(v, case["faces"])


def num_tol(measure, cond, Q, rmax, rho):
    qa = np.linalg.norm(np.asarray(Q, dtype=float), axis=1)
    return (1e-9 * measure + 16 * EPS * cond * (1 + qa * rmax)) * abs(rho)


def eval_solid(ctx, case):
    Q = np.array(case["q"], dtype=float).reshape(-1, 3)
    rho = float(case["density"])
    cls = "ConvexPolyhedron" if case["shape"] == "convex" else "Polyhedron"
    v = np.array(case["vertices"], dtype=float)
    rmax = float(np.max(np.linalg.norm(v, axis=1)))
    try:
        p = build_solid(case)
        if case.get("q_classes") != ["witness"]:
            p, how = history.maybe_via_history(p, history.rng_for({"v": case["vertices"], "m": case.get("mseed", 0)}), 0.33, ctx)
        eqs = np.array(p._equations, dtype=float).copy()
        faces = [np.array(p.vertices[f], dtype=float) for f in p.faces]
        vol_impl = float(p.volume)
        F = np.array(p.compute_form_factor_amplitude(Q.copy(), density=rho), dtype=complex)
    except Exception as e:
        ctx.fail("%s.compute_form_factor_amplitude:raises" % cls, "raised %s on a valid shape and (N,3) batch" % exc_kind(e),
                 case, repr(e))
        return
    if F.shape != (len(Q),):
        ctx.fail("%s.compute_form_factor_amplitude:shape" % cls, "result is not one amplitude per wave vector", case,
                 list(F.shape))
        return
    exact, vol, geom = solid_oracle(case)
    win, cond, zw, near = solid_bounds(geom, Q, vol, rmax)
    tol = num_tol(vol, cond, Q, rmax, rho)
    zero_mask = np.all(Q == 0, axis=1)
    for k, b in (("branch:zero-window-nonzero-q", zw), ("branch:inplane-window", (win > 0) & ~zw)):
        if np.any(b):
            ctx.count(k, int(np.sum(b)))
    # ---------------- B: model (Float) on the implementation's own faces / equations / volume
    ftoks = L([[L(list(fv)), eq[:3], float(eq[3])] for fv, eq in zip(faces, eqs)])
    try:
        M = cx(ctx.driver.F("ff.polyhedron", I(0), ftoks, vol_impl, L(list(Q)), rho))
        ok = ~near
        ctx.skipped_near_boundary += int(np.sum(near))
        if np.any(np.abs(F - M)[ok] > tol[ok]):
            i = int(np.argmax(np.where(ok, np.abs(F - M) - tol, -np.inf)))
            ctx.disagree("ff.polyhedron", case, {"i": i, "q": Q[i], "impl": F[i], "model": M[i], "tol": tol[i]})
        if len(Q) <= 6:
            M1 = cx(ctx.driver.F("ff.polyhedron", I(1), ftoks, vol_impl, L(list(Q)), rho))
            if not np.array_equal(M, M1):
                ctx.disagree("ff.polyhedron:batch-vs-single-model", case, [M, M1])
    except ModelRaise as e:
        ctx.disagree("ff.polyhedron", case, "model raised " + e.kind)
    # ---------------- C: implementation vs exact transform
    E = rho * exact(Q)
    if not ctx.close_enough(vol_impl, vol, vol):
        ctx.fail("%s.volume:value" % cls, "volume differs from the exact one", case, [vol_impl, vol])
    if not classify(ctx, cls, case, F, E, tol, win, zero_mask, rho,
                    "amplitude differs from density * integral of exp(-i q.r) over the solid"):
        return
    spec_tie(ctx, case, Q, rho, E, tol)
    solid_certificate(ctx, cls, case, p, Q, rho, F, E, tol, win, zw)
    glue_probe(ctx, "polyhedron", case, p,
               lambda kind, rows, dens: ctx.driver.F("ff.call.polyhedron", ftoks, vol_impl, I(kind), L(list(rows)),
                                                     *dens_tokens(dens)), Q, rho, tol, near)
    if case.get("mseed", 0) % 2 == 0:
        history_solid(ctx, cls, case, Q, rho)
    consequences(ctx, cls, case, Q, rho, F, tol, win,
                 lambda QQ, r: np.array(p.compute_form_factor_amplitude(QQ, density=r), dtype=complex),
                 lambda t: build_solid(case, shift=t), rmax, vol, lambda QQ, t: QQ @ t,
                 lambda t: solid_bounds(geom, Q, vol, rmax + float(np.linalg.norm(t))))


def spec_tie(ctx, case, Q, rho, E, tol):
    """the Lean specification closed forms (driver, Float) against the Python oracle on the same solid"""
    if case.get("mseed", 0) % 3 != 0:
        return
    o = case["oracle"]
    if o["type"] == "boxes":
        s, R, t = float(o["frame"][0]), np.array(o["frame"][1], dtype=float), np.array(o["frame"][2], dtype=float)
        Q0 = s * (Q @ R)
        S = cx(ctx.driver.F("spec.ff.boxes", L([[np.array(lo, dtype=float), np.array(hi, dtype=float)] for lo, hi in o["boxes"]]),
                            L(list(Q0)), rho))
        S = s ** 3 * np.exp(-1j * (Q @ t)) * S
        if np.any(np.abs(S - E) > tol):
            ctx.disagree("spec.ff.boxes:vs-oracle", case, [S, E])
    elif o["type"] == "tets":
        tets, _, _ = gen.cone_tets(np.array(case["vertices"], dtype=float))
        if len(tets) > 40:
            return
        T = np.asarray(tets)
        vol6 = np.abs(np.einsum("mi,mi->m", T[:, 1] - T[:, 0], np.cross(T[:, 2] - T[:, 0], T[:, 3] - T[:, 0])))
        S = cx(ctx.driver.F("spec.ff.tets", L([np.asarray(x) for x in tets]), L(list(Q)), rho))
        for i, q in enumerate(Q):
            a = T @ q                                        # (M,4) phases; the closed form needs them distinct
            d = np.abs(a[:, :, None] - a[:, None, :]) + np.eye(4)[None] * 1e300
            sep = d.min()
            if sep < 0.3:
                continue
            prod = np.prod(np.where(np.eye(4)[None] > 0, 1.0, np.abs(a[:, :, None] - a[:, None, :])), axis=2)
            amp = float(np.sum(vol6[:, None] / prod)) * abs(rho)
            if abs(S[i] - E[i]) > tol[i] + 64 * EPS * amp * (1 + float(np.max(np.abs(a)))):
                ctx.disagree("spec.ff.tets:vs-oracle", case, [i, S[i], E[i]])
                break


def consequences(ctx, cls, case, Q, rho, F, tol, win, call, shifted, rmax, measure, phase_arg, shifted_bounds):
    """the 'consequently' clauses, implementation against itself (metamorphic)"""
    rng = np.random.default_rng(case.get("mseed", 0))
    sig = "%s.compute_form_factor_amplitude:" % cls
    try:
        Fm = call(-Q, rho)
        if np.any(np.abs(Fm - np.conj(F)) > 2 * tol):
            ctx.fail(sig + "conjugate", "F(-q) is not the complex conjugate of F(q)", case, [Fm, F])
        F1 = call(Q.copy(), 1.0)
        if np.any(np.abs(rho * F1 - F) > 2 * tol):
            ctx.fail(sig + "density", "F is not linear in density", case, [F1, F, rho])
        for i in sorted(set(int(k) for k in rng.integers(len(Q), size=min(3, len(Q))))):
            Fs = call(Q[i:i + 1].copy(), rho)
            if Fs.shape != (1,) or abs(Fs[0] - F[i]) > 2 * tol[i]:
                ctx.fail(sig + "batch", "a (1,3) batch disagrees with the same row inside a larger batch", case,
                         [i, Fs, F[i]])
        t = rng.normal(size=3) * measure ** (1.0 / (2 if cls == "Polygon" else 3))
        p2 = shifted(t)
        F2 = np.array(p2.compute_form_factor_amplitude(Q.copy(), density=rho), dtype=complex)
        win2 = shifted_bounds(t)[0]
        lim = 4 * tol * (1 + np.linalg.norm(t) / max(rmax, 1e-300)) + 1.05 * (win + win2) * abs(rho)
        if np.any(np.abs(F2 - np.exp(-1j * phase_arg(Q, t)) * F) > lim):
            ctx.fail(sig + "translate", "translating the shape by t does not multiply F by exp(-i q.t)", case,
                     {"t": t, "F2": F2, "F": F})
    except Exception as e:
        ctx.fail(sig + "raises", "raised %s in a metamorphic call" % exc_kind(e), case, repr(e))


def continuity(ctx, cls, case, call, specials, measure, rmax, bounds, rho, size):
    """F(q' + delta) against F(q') for special q' (zero, along a face normal, perpendicular to an edge):
    Lipschitz bound of the true transform + window bound + numerical tolerance."""
    rng = np.random.default_rng(case.get("mseed", 0) + 1)
    base, pert = [], []
    for q0 in specials:
        for eps in (3e-5, 9.9e-5, 1.01e-4, 3e-4, 1e-6 / size, 1e-3 / size):
            u = rng.normal(size=3)
            u /= np.linalg.norm(u)
            base.append(q0)
            pert.append(q0 + eps * u)
    if not base:
        return
    base, pert = np.array(base), np.array(pert)
    try:
        Fb, Fp = call(base.copy(), rho), call(pert.copy(), rho)
    except Exception as e:
        ctx.fail("%s.compute_form_factor_amplitude:raises" % cls, "raised %s on a continuity probe" % exc_kind(e), case,
                 repr(e))
        return
    wb, cb, _, _ = bounds(base)
    wp, cp_, _, _ = bounds(pert)
    lip = np.linalg.norm(pert - base, axis=1) * rmax * measure * abs(rho)
    tol = num_tol(measure, cb, base, rmax, rho) + num_tol(measure, cp_, pert, rmax, rho)
    dev = np.abs(Fp - Fb)
    ctx.count("continuity:pairs", len(base))
    ctx.count("continuity:needs-window-allowance", int(np.sum(dev > lip + tol)))
    bad = dev > lip + tol + 1.05 * (wb + wp) * abs(rho)
    if np.any(bad):
        i = int(np.argmax(bad))
        ctx.fail("%s.compute_form_factor_amplitude:continuity" % cls,
                 "F jumps between a special wave vector and a nearby one by more than the Lipschitz + window bound",
                 case, {"q0": base[i], "q": pert[i], "F0": Fb[i], "F": Fp[i], "allowed": float((lip + tol + wb + wp)[i])})



# ===================================================================== argument glue, certificates, histories


def dens_tokens(d):
    return [I(0)] if d is None else [I(1), float(d)]


def glue_probe(ctx, cls, case, obj, model_call, Q, rho, tol, near):
    """B (correspondence) for the argument glue: the q argument as an (N,3) array with density omitted, as a (3,)
    array, as nested / flat Python lists, as an empty batch — results, lengths and exception kinds against the model's
    `…Call` functions; C: omitting `density` is the same as `density=1.0`."""
    rng = np.random.default_rng(case.get("mseed", 0) + 7)
    if len(Q) > 8:                      # the glue does not depend on the batch size: a few rows of a big batch
        sel = np.sort(rng.choice(len(Q), size=6, replace=False))
        Q, tol, near = Q[sel], tol[sel], near[sel]
    i = int(rng.integers(len(Q)))
    tol1 = tol / abs(rho)
    probes = [("arr2-default", 0, Q.copy(), Q, None, tol1, near),
              ("arr1", 1, Q[i].copy(), Q[i:i + 1], rho, tol[i:i + 1], near[i:i + 1]),
              ("list2", 2, Q.tolist(), Q, rho, tol, near),
              ("list1-default", 3, Q[i].tolist(), Q[i:i + 1], None, tol1[i:i + 1], near[i:i + 1]),
              ("empty", 0, np.zeros((0, 3)), np.zeros((0, 3)), rho, np.zeros(0), np.zeros(0, dtype=bool))]
    if len(Q) > 6 and case.get("mseed", 0) % 4:
        probes = [probes[0], probes[1 + int(rng.integers(4))]]
    for name, kind, qarg, rows, dens, tl, nr in probes:
        ctx.count("glue:" + name)
        try:
            r = obj.compute_form_factor_amplitude(qarg) if dens is None else obj.compute_form_factor_amplitude(qarg, dens)
            impl = ("ok", np.atleast_1d(np.asarray(r, dtype=complex)))
        except Exception as e:
            impl = ("raise", exc_kind(e))
        try:
            mod = ("ok", cx(model_call(kind, rows, dens)))
        except ModelRaise as e:
            mod = ("raise", e.kind)
        if np.any(nr):
            ctx.skipped_near_boundary += 1
            continue
        if impl[0] != mod[0] or (impl[0] == "raise" and impl[1] != mod[1]):
            ctx.disagree("ff.call.%s:%s" % (cls, name), case, {"impl": impl, "model": mod})
            continue
        if impl[0] == "ok":
            a, b = impl[1], mod[1]
            if a.shape != b.shape:
                ctx.disagree("ff.call.%s:%s:length" % (cls, name), case, [list(a.shape), list(b.shape)])
                continue
            reps = max(1, len(a) // max(1, len(tl))) if len(tl) else 1
            tt = np.tile(tl, reps) if len(tl) and len(a) == reps * len(tl) else np.full(len(a), float(np.max(tl)) if len(tl) else 0.0)
            if np.any(np.abs(a - b) > tt):
                ctx.disagree("ff.call.%s:%s:value" % (cls, name), case, [a, b])
    # C: density omitted == density 1.0
    try:
        a = np.asarray(obj.compute_form_factor_amplitude(Q.copy()), dtype=complex)
        b = np.asarray(obj.compute_form_factor_amplitude(Q.copy(), density=1.0), dtype=complex)
        if a.shape != b.shape or not np.array_equal(a, b):
            ctx.fail("%s.compute_form_factor_amplitude:density-default" % cls,
                     "omitting density is not the same as density=1.0", case, [a, b])
    except Exception as e:
        ctx.fail("%s.compute_form_factor_amplitude:raises" % cls, "raised %s with density omitted" % exc_kind(e), case, repr(e))


def polygon_triangles(V, nz):
    """ear clipping of the simple polygon V (n,3) lying in the plane with unit normal nz: index triples, each oriented
    like the polygon's own vertex order (so that the triangles' boundary chain is the polygon's edge cycle)"""
    n = len(V)
    a = np.array([1.0, 0, 0]) if abs(nz[0]) < 0.8 else np.array([0, 1.0, 0])
    e1 = np.cross(nz, a)
    e1 /= np.linalg.norm(e1)
    e2 = np.cross(nz, e1)
    p = np.c_[V @ e1, V @ e2]
    x, y = p[:, 0], p[:, 1]
    area2 = float(np.sum(x * np.roll(y, -1) - np.roll(x, -1) * y))
    if area2 > 0:
        tri = c12_ear_clip(p)
        return None if tri is None else [list(t) for t in tri]
    tri = c12_ear_clip(p[::-1])
    if tri is None:
        return None
    return [[n - 1 - t[2], n - 1 - t[1], n - 1 - t[0]] for t in tri]


def ft_triangles(tris, n, Q):
    """sum over triangles of 2*area * exp[z0,z1,z2] with the in-plane wave vector (the right-hand side of the Lean
    theorem polygon_ff_eq_region_integral evaluated by divided differences)"""
    T = np.asarray(tris, dtype=float)
    area2 = np.linalg.norm(np.cross(T[:, 1] - T[:, 0], T[:, 2] - T[:, 0]), axis=1)
    out = []
    for q in np.asarray(Q, dtype=float):
        qp = q - (q @ n) * n
        out.append(np.sum(area2 * dd_exp(-1j * (T @ qp))))
    return np.array(out)


def polygon_certificate(ctx, case, Vimpl, nz, Q, rho, F, E, tol, win):
    tri = polygon_triangles(np.asarray(Vimpl, dtype=float), nz)
    if tri is None:
        ctx.count("certificate:triangulation:earclip-failed")
        return
    tris = [np.array([Vimpl[t[0]], Vimpl[t[1]], Vimpl[t[2]]], dtype=float) for t in tri]
    ok = ctx.driver.Q("ff.tricheck", L(list(np.asarray(Vimpl, dtype=float))), L(tris))[0]
    ctx.count("certificate:triangulation:" + ("ok" if ok else "REJECTED"))
    if not ok:
        ctx.disagree("ff.tricheck", case, "the exact checker rejected an ear clipping of the implementation's vertices")
        return
    E2 = rho * ft_triangles(tris, nz, Q)
    if np.any(np.abs(E2 - E) > tol):
        ctx.disagree("theorem-rhs:earclip-triangles-vs-fan-oracle", case, [E2, E])
    bad = np.abs(F - E2) > tol + 1.05 * win * abs(rho)
    if np.any(bad):
        i = int(np.argmax(bad))
        ctx.fail("Polygon.compute_form_factor_amplitude:value",
                 "amplitude differs from density * sum over the triangles of a triangulation of the exact triangle transforms",
                 case, {"i": i, "q": Q[i], "impl": F[i], "exact": E2[i]})


def solid_certificate(ctx, cls, case, p, Q, rho, F, E, tol, win, zw):
    """closed-surface certificate on the implementation's vertices[face] (exact) and the right-hand side of
    polyhedron_ff_eq_checked_tet_integrals: cone tetrahedra over the fan triangles of the implementation's faces"""
    V = np.array(p.vertices, dtype=float)
    faces = [list(map(int, f)) for f in p.faces]
    r = ctx.driver.Q("ff.surface_closed", L([L(list(V[f])) for f in faces]))
    ctx.count("certificate:surface-closed:" + ("ok" if r[0] else "REJECTED"))
    if not r[0]:
        ctx.fail("%s.faces:closed-oriented-surface" % cls,
                 "the fan triangles of vertices[face] do not form a closed consistently oriented surface "
                 "(directed edges do not cancel in pairs)", case, {"n_triangles": r[1]})
        return
    apex = V.mean(axis=0)
    tets = [np.array([apex, V[f[0]], V[f[i]], V[f[i + 1]]]) for f in faces for i in range(1, len(f) - 1)]
    E3 = rho * ft_tets(tets, Q)
    if np.any(np.abs(E3 - E) > tol):
        ctx.disagree("theorem-rhs:cone-over-impl-faces-vs-oracle", case, [E3, E])
    bad = (np.abs(F - E3) > tol + 1.05 * win * abs(rho)) & ~zw
    if np.any(bad):
        i = int(np.argmax(bad))
        ctx.fail("%s.compute_form_factor_amplitude:value" % cls,
                 "amplitude differs from density * sum over the cone tetrahedra of the faces of the exact simplex transforms",
                 case, {"i": i, "q": Q[i], "impl": F[i], "exact": E3[i]})


SIZE_SETTERS_3D = ("volume", "surface_area", "insphere_radius", "circumsphere_radius",
                   "minimal_centered_bounding_sphere_radius", "maximal_centered_bounded_sphere_radius")


def history_solid(ctx, cls, case, Q, rho):
    """query -> mutate -> query on ONE object: the form factor is evaluated first (whatever it caches is cached for the
    old geometry), then the shape is changed in place by 1..3 public mutators (centroid setter, and every size setter
    that goes through _rescale: volume, surface_area, *_radius), re-queried in between with probability 0.6, with a
    size setter LAST in half of the cases and FIRST in the other half; the final amplitude must be that of a newly
    constructed shape with the same vertices and faces."""
    from coxeter.shapes import ConvexPolyhedron, Polyhedron
    rng = np.random.default_rng(case.get("mseed", 0) + 11)
    steps = []
    try:
        p = build_solid(case)
        size = gen.diameter(np.array(p.vertices, dtype=float))
        qw = np.vstack([Q[:2], rng.normal(size=(1, 3)) / size])
        p.compute_form_factor_amplitude(qw.copy(), density=rho)            # the first query
        steps.append("query")

        def resize():
            for _ in range(8):
                name = SIZE_SETTERS_3D[int(rng.integers(len(SIZE_SETTERS_3D)))]
                try:
                    cur = float(getattr(p, name))
                    if not (np.isfinite(cur) and cur > 0):
                        continue
                    k = float(np.exp(rng.uniform(-0.7, 0.7)))
                    setattr(p, name, cur * k)
                    steps.append(name)
                    return
                except Exception:      # noqa: BLE001  no such ball for this shape / setter not offered: C08/C13, not C12
                    continue
            p.volume = float(p.volume) * 1.7
            steps.append("volume")

        def move():
            p.centroid = np.array(p.centroid, dtype=float) + rng.normal(size=3) * size
            steps.append("centroid")

        n = int(rng.integers(1, 4))
        size_last = bool(rng.random() < 0.5)
        plan = []
        for k in range(n):
            plan.append(resize if rng.random() < 0.6 else move)
        if size_last:
            plan[-1] = resize
        else:
            plan[0] = resize
        for k, f in enumerate(plan):
            f()
            if k < len(plan) - 1 and rng.random() < 0.6:
                p.compute_form_factor_amplitude(qw.copy(), density=rho)
                steps.append("query")
        ctx.count("history:" + ("size-last" if plan[-1] is resize else "move-last"))
        Fh = np.array(p.compute_form_factor_amplitude(Q.copy(), density=rho), dtype=complex)
        V = np.array(p.vertices, dtype=float).copy()
        faces = [list(map(int, f)) for f in p.faces]
        fresh = ConvexPolyhedron(V) if cls == "ConvexPolyhedron" else Polyhedron(V, faces)
        Ff = np.array(fresh.compute_form_factor_amplitude(Q.copy(), density=rho), dtype=complex)
        vol = float(fresh.volume)
    except Exception as e:
        ctx.fail("%s.compute_form_factor_amplitude:raises" % cls, "raised %s after an in-place history %s" % (exc_kind(e), steps),
                 case, repr(e))
        return
    rmax = float(np.max(np.linalg.norm(V, axis=1)))
    geom = tri_geom(fan_tris(V, [list(map(int, f)) for f in fresh.faces]))
    win, cond, zw, near = solid_bounds(geom, Q, vol, rmax)
    tolh = 4 * num_tol(vol, cond, Q, rmax, rho) + 2.1 * win * abs(rho)
    bad = (np.abs(Fh - Ff) > tolh) & ~near
    if np.any(bad):
        i = int(np.argmax(bad))
        ctx.fail("%s.compute_form_factor_amplitude:history" % cls,
                 "after the in-place history %s the amplitude differs from that of a newly constructed shape with the same "
                 "vertices" % "+".join(steps), case, {"i": i, "q": Q[i], "after_history": Fh[i], "fresh": Ff[i], "steps": steps})


def history_polygon(ctx, case, make, V, normal, Q, rho, tol, win, near):
    """in-place history of a Polygon (centroid / area setters) against a newly constructed polygon with the resulting
    vertices"""
    rng = np.random.default_rng(case.get("mseed", 0) + 13)
    if case.get("mseed", 0) % 2:
        return
    try:
        p = make(V, normal)
        size = gen.diameter(np.asarray(V, dtype=float))
        p.compute_form_factor_amplitude(Q[:2].copy(), density=rho)          # query first
        t = rng.normal(size=3) * size
        nrm = np.array(p.normal, dtype=float)
        t = t - (t @ nrm) * nrm if rng.random() < 0.5 else t
        s = float(np.exp(rng.uniform(-0.5, 0.5)))
        sname = ["area", "perimeter"][int(rng.integers(2))]

        def resize():
            if sname == "area":
                p.area = float(p.area) * s * s
            else:
                p.perimeter = float(p.perimeter) * s

        if rng.random() < 0.5:
            p.centroid = np.array(p.centroid, dtype=float) + t
            p.compute_form_factor_amplitude(Q[:1].copy(), density=rho)
            resize()
            ctx.count("history:polygon:size-last")
        else:
            resize()
            p.compute_form_factor_amplitude(Q[:1].copy(), density=rho)
            p.centroid = np.array(p.centroid, dtype=float) + t
            ctx.count("history:polygon:move-last")
        Fh = np.array(p.compute_form_factor_amplitude(Q.copy(), density=rho), dtype=complex)
        W = np.array(p.vertices, dtype=float).copy()
        Ff = np.array(make(W, normal).compute_form_factor_amplitude(Q.copy(), density=rho), dtype=complex)
    except Exception as e:
        ctx.fail("Polygon.compute_form_factor_amplitude:raises", "raised %s after an in-place history" % exc_kind(e), case,
                 repr(e))
        return
    fac = max(1.0, s * s) * (1 + float(np.linalg.norm(t)) / max(size, 1e-300))
    if np.any((np.abs(Fh - Ff) > 8 * tol * fac + 2.1 * win * abs(rho) * fac) & ~near):
        ctx.fail("Polygon.compute_form_factor_amplitude:history",
                 "after in-place changes (centroid, area) the amplitude differs from that of a new polygon with the same "
                 "vertices", case, [Fh, Ff])


def eval_polygon(ctx, case):
    from coxeter.shapes import Polygon
    cls = "Polygon"
    V = np.array(case["vertices"], dtype=float)
    Q = np.array(case["q"], dtype=float).reshape(-1, 3)
    rho = float(case["density"])
    nz = np.array(case["plane_normal"], dtype=float)
    nz = nz / np.linalg.norm(nz)
    normal = None if case["normal"] is None else list(case["normal"])

    def make(verts, nrm):
        return Polygon(np.array(verts, dtype=float), normal=None if nrm is None else list(nrm))
    try:
        p = make(V, normal)
    except Exception as e:
        ctx.count("polygon:constructor-raised:" + exc_kind(e))     # constructor validity is C15
        return
    if case.get("q_classes") != ["witness"]:
        p, how = history.maybe_via_history(p, history.rng_for({"v": case["vertices"], "m": case.get("mseed", 0)}), 0.33, ctx)
    rmax = float(np.max(np.linalg.norm(V, axis=1)))
    a = V[1:-1] - V[0]
    b = V[2:] - V[0]
    area = abs(float(np.sum(np.cross(a, b) @ nz))) / 2
    try:
        n_impl = np.array(p.normal, dtype=float)
        sa, ar = float(p.signed_area), float(p.area)
        F = np.array(p.compute_form_factor_amplitude(Q.copy(), density=rho), dtype=complex)
    except Exception as e:
        ctx.fail("Polygon.compute_form_factor_amplitude:raises", "raised %s on a valid polygon and (N,3) batch" % exc_kind(e),
                 case, repr(e))
        return
    if F.shape != (len(Q),):
        ctx.fail("Polygon.compute_form_factor_amplitude:shape", "result is not one amplitude per wave vector", case,
                 list(F.shape))
        return
    win, cond, zw, near = polygon_bounds(V, nz, Q, area, rmax)
    tol = num_tol(area, cond, Q, rmax, rho)
    qpar = Q - (Q @ nz)[:, None] * nz
    zero_mask = np.all(Q == 0, axis=1)
    if np.any(zw & (win * abs(rho) > tol)):
        ctx.count("branch:inplane-window-nonzero", int(np.sum(zw)))
    ctx.count("branch:inplane-zero", int(np.sum(np.einsum("ij,ij->i", qpar, qpar) <= WIN)))
    # ---------------- B
    try:
        g = ctx.driver.F("ff.polygon_geom", L(list(V)), I(0 if normal is None else 1),
                         np.zeros(3) if normal is None else np.array(normal, dtype=float))
        if not ctx.close_enough(n_impl, np.array(g[0:3]), 1.0):
            ctx.disagree("ff.polygon_geom:normal", case, [n_impl, g[0:3]])
        if not (ctx.close_enough(sa, g[3], area + rmax ** 2) and ctx.close_enough(ar, g[4], area + rmax ** 2)):
            ctx.disagree("ff.polygon_geom:signed_area", case, [sa, ar, g[3], g[4]])
        M = cx(ctx.driver.F("ff.polygon", I(0), L(list(np.array(p.vertices, dtype=float))), n_impl, L(list(Q)), rho))
        ok = ~near
        ctx.skipped_near_boundary += int(np.sum(near))
        if np.any(np.abs(F - M)[ok] > tol[ok]):
            i = int(np.argmax(np.where(ok, np.abs(F - M) - tol, -np.inf)))
            ctx.disagree("ff.polygon", case, {"i": i, "q": Q[i], "impl": F[i], "model": M[i], "tol": tol[i]})
        if len(Q) <= 6:
            M1 = cx(ctx.driver.F("ff.polygon", I(1), L(list(np.array(p.vertices, dtype=float))), n_impl, L(list(Q)), rho))
            if not np.array_equal(M, M1):
                ctx.disagree("ff.polygon:batch-vs-single-model", case, [M, M1])
    except ModelRaise as e:
        ctx.disagree("ff.polygon", case, "model raised " + e.kind)
    # ---------------- C
    E = rho * ft_polygon(V, nz, Q)
    if not classify(ctx, cls, case, F, E, tol, win, zero_mask | (np.einsum("ij,ij->i", qpar, qpar) == 0), rho,
                    "amplitude differs from density * integral of exp(-i q_par.r) over the polygon"):
        return
    if case.get("mseed", 0) % 3 == 0:      # Lean Spec.polygonFT (Green boundary form) against the triangle-fan oracle
        S = cx(ctx.driver.F("spec.ff.polygon", L(list(V)), nz, L(list(Q)), rho))
        okq = np.einsum("ij,ij->i", qpar, qpar) > WIN
        if np.any(np.abs(S - E)[okq] > tol[okq]):
            ctx.disagree("spec.ff.polygon:vs-oracle", case, [S, E])
    polygon_certificate(ctx, case, np.array(p.vertices, dtype=float), nz, Q, rho, F, E, tol, win)
    glue_probe(ctx, "polygon", case, p,
               lambda kind, rows, dens: ctx.driver.F("ff.call.polygon", L(list(np.array(p.vertices, dtype=float))), n_impl,
                                                     I(kind), L(list(rows)), *dens_tokens(dens)), Q, rho, tol, near)
    history_polygon(ctx, case, make, V, normal, Q, rho, tol, win, near)
    # orientation independence: same region, other vertex direction / normal conventions
    for verts, nrm, tag in ((V[::-1], None, "reversed-default"), (V[::-1], nz, "reversed+n"), (V[::-1], -nz, "reversed-n"),
                            (V, nz, "same+n"), (V, -nz, "same-n"), (np.roll(V, -1, axis=0), normal, "rolled")):
        try:
            Fo = np.array(make(verts, nrm).compute_form_factor_amplitude(Q.copy(), density=rho), dtype=complex)
        except Exception as e:
            ctx.count("polygon:variant-raised:" + exc_kind(e))
            continue
        if np.any(np.abs(Fo - F) > 2 * tol):
            ctx.fail("Polygon.compute_form_factor_amplitude:orientation",
                     "amplitude depends on the direction of the vertices / the sign convention of the normal (%s)" % tag,
                     case, {"variant": tag, "F": F, "Fo": Fo})
            return
    call = lambda QQ, r: np.array(p.compute_form_factor_amplitude(QQ, density=r), dtype=complex)   # noqa: E731
    consequences(ctx, cls, case, Q, rho, F, tol, win, call, lambda t: make(V + t, normal), rmax, area,
                 lambda QQ, t: (QQ - (QQ @ nz)[:, None] * nz) @ t,
                 lambda t: polygon_bounds(V + t, nz, Q, area, rmax + float(np.linalg.norm(t))))
    if case.get("probe"):
        size = gen.diameter(V)
        e0 = V[1] - V[0]
        d = np.cross(e0, nz)
        k = float(case["probe"]) / size
        specials = [np.zeros(3), k * nz, 3 * k * nz, k * d / np.linalg.norm(d)]
        continuity(ctx, cls, case, call, specials, area, rmax, lambda QQ: polygon_bounds(V, nz, QQ, area, rmax), rho, size)


def eval_sphere(ctx, case):
    from coxeter.shapes import Sphere
    cls = "Sphere"
    r, c = float(case["radius"]), np.array(case["center"], dtype=float)
    Q = np.array(case["q"], dtype=float).reshape(-1, 3)
    rho = float(case["density"])
    vol = 4.0 / 3.0 * np.pi * r ** 3
    try:
        s = Sphere(r, c.copy())
        s, how = history.maybe_via_history(s, history.rng_for({"r": r, "c": case["center"], "m": case.get("mseed", 0)}), 0.33, ctx)
        F = np.array(s.compute_form_factor_amplitude(Q.copy(), density=rho), dtype=complex)
    except Exception as e:
        ctx.fail("Sphere.compute_form_factor_amplitude:raises", "raised %s" % exc_kind(e), case, repr(e))
        return
    qq = np.einsum("ij,ij->i", Q, Q)
    qa = np.sqrt(qq)
    zw = (qq > 0) & (qq <= WIN)
    win = np.where(zw, vol * (qa * r) ** 2 / 10, 0.0)
    near = np.abs(qq - WIN) <= 1e-6 * WIN
    cond = np.where(qq <= WIN, vol, 8 * np.pi * r / np.where(qq > 0, qq, 1.0))
    rmax = float(np.linalg.norm(c)) + r
    tol = num_tol(vol, cond, Q, rmax, rho)
    if np.any(zw):
        ctx.count("branch:zero-window-nonzero-q", int(np.sum(zw)))
    try:
        M = cx(ctx.driver.F("ff.sphere", I(0), r, c, L(list(Q)), rho))
        ok = ~near
        ctx.skipped_near_boundary += int(np.sum(near))
        if np.any(np.abs(F - M)[ok] > tol[ok]):
            i = int(np.argmax(np.where(ok, np.abs(F - M) - tol, -np.inf)))
            ctx.disagree("ff.sphere", case, {"i": i, "q": Q[i], "impl": F[i], "model": M[i], "tol": tol[i]})
        if len(Q) <= 6:
            M1 = cx(ctx.driver.F("ff.sphere", I(1), r, c, L(list(Q)), rho))
            if not np.array_equal(M, M1):
                ctx.disagree("ff.sphere:batch-vs-single-model", case, [M, M1])
    except ModelRaise as e:
        ctx.disagree("ff.sphere", case, "model raised " + e.kind)
    E = rho * ft_ball(r, c, Q)
    if not classify(ctx, cls, case, F, E, tol, win, qq == 0, rho,
                    "amplitude differs from density * integral of exp(-i q.r) over the ball"):
        return
    S = cx(ctx.driver.F("spec.ff.ball", r, c, L(list(Q)), rho))       # Lean Spec.ballFT against scipy's Bessel form
    if np.any(np.abs(S - E) > tol):
        ctx.disagree("spec.ff.ball:vs-oracle", case, [S, E])
    glue_probe(ctx, "sphere", case, s,
               lambda kind, rows, dens: ctx.driver.F("ff.call.sphere", r, c, I(kind), L(list(rows)), *dens_tokens(dens)),
               Q, rho, tol, near)
    try:                                              # in-place history: setters, then the same as a new Sphere
        s2 = Sphere(1.0, np.zeros(3))
        s2.compute_form_factor_amplitude(Q[:1].copy(), density=rho)
        s2.centroid = c.copy()
        s2.compute_form_factor_amplitude(Q[:1].copy(), density=rho)
        s2.volume = vol
        Fh = np.array(s2.compute_form_factor_amplitude(Q.copy(), density=rho), dtype=complex)
        if np.any((np.abs(Fh - F) > 4 * tol) & ~near):
            ctx.fail("Sphere.compute_form_factor_amplitude:history",
                     "a sphere brought to (radius, centre) by the setters gives another amplitude than a new one", case, [Fh, F])
    except Exception as e:
        ctx.fail("Sphere.compute_form_factor_amplitude:raises", "raised %s after setters" % exc_kind(e), case, repr(e))
    call = lambda QQ, d: np.array(s.compute_form_factor_amplitude(QQ, density=d), dtype=complex)   # noqa: E731
    consequences(ctx, cls, case, Q, rho, F, tol, win, call, lambda t: Sphere(r, c + t), rmax, vol,
                 lambda QQ, t: QQ @ t, lambda t: (win,))
    if case.get("probe"):
        def bounds(QQ):
            q2 = np.einsum("ij,ij->i", QQ, QQ)
            z = (q2 > 0) & (q2 <= WIN)
            return (np.where(z, vol * q2 * r * r / 10, 0.0), np.where(q2 <= WIN, vol, 8 * np.pi * r / np.where(q2 > 0, q2, 1.0)),
                    z, None)
        continuity(ctx, cls, case, call, [np.zeros(3)], vol, rmax, bounds, rho, 2 * r)


def eval_case(ctx, case):
    self_validate(ctx)
    if case["shape"] == "polygon":
        eval_polygon(ctx, case)
    elif case["shape"] == "sphere":
        eval_sphere(ctx, case)
    else:
        eval_solid(ctx, case)
        if case.get("probe"):
            solid_probe(ctx, case)


def solid_probe(ctx, case):
    cls = "ConvexPolyhedron" if case["shape"] == "convex" else "Polyhedron"
    try:
        p = build_solid(case)
    except Exception:
        return
    v = np.array(case["vertices"], dtype=float)
    rmax = float(np.max(np.linalg.norm(v, axis=1)))
    _, vol, geom = solid_oracle(case)
    size = gen.diameter(v)
    rho = float(case["density"])
    k = float(case["probe"]) / size
    N = geom[0]
    rng = np.random.default_rng(case.get("mseed", 0) + 2)
    specials = [np.zeros(3)]
    for i in rng.integers(len(N), size=2):
        specials += [k * N[i], 5 * k * N[i]]
    call = lambda QQ, r: np.array(p.compute_form_factor_amplitude(QQ, density=r), dtype=complex)   # noqa: E731
    continuity(ctx, cls, case, call, specials, vol, rmax, lambda QQ: solid_bounds(geom, QQ, vol, rmax), rho, size)


def make_case(ctx, which):
    rng = ctx.rng
    case = None
    while case is None:
        case = {"convex": c12_convex, "box": c12_box, "voxel": c12_voxel_solid, "prism": c12_prism,
                "polygon": c12_polygon, "sphere": c12_sphere}[which](rng)
    info = case["info"]
    ctx.count("kind:" + info["kind"].split(":")[0])
    ctx.count("class:" + case["shape"])
    if which == "polygon":
        ctx.count("polygon:" + ("cw" if info["clockwise"] else "ccw") + "/" + info["normal_mode"])
    if which == "sphere":
        size, normals, edges = 2 * case["radius"], [], []
    else:
        V = np.array(case["vertices"], dtype=float)
        size = gen.diameter(V)
        if which == "polygon":
            normals = [case["plane_normal"]]
            edges = list(np.roll(V, -1, axis=0) - V)
        else:
            tris = fan_tris(V, case["faces"]) if "faces" in case else gen.cone_tets(V)[1]
            normals = list(tri_geom(tris)[0])
            edges = [t[(i + 1) % 3] - t[i] for t in tris for i in range(3)]
    Q, classes = c12_qs(rng, ctx, size, normals, edges)
    case["q"] = Q.tolist()
    case["q_classes"] = classes
    case["density"] = 1.0 if rng.random() < 0.25 else float(np.round(10 ** rng.uniform(-1, 1), 3)) * (1 if rng.random() < 0.8 else -1)
    case["mseed"] = int(rng.integers(1 << 30))
    if rng.random() < 0.35:
        case["probe"] = float(10 ** rng.uniform(-1, 1))
    return case


def witness_cases():
    """the kernel-checked counter-examples of Props/C12.lean (`polygon_ff_translate_fails`,
    `polyhedron_ff_translate_fails`): unit square / unit cube moved by t = (20000 pi, 0, 0), q = (5e-5, 0, 0).
    The Fourier transform is minus the one at the origin; the code returns the plain area / volume."""
    t = np.array([20000 * np.pi, 0.0, 0.0])
    sq = np.array([[0, 0, 0], [1, 0, 0], [1, 1, 0], [0, 1, 0]], dtype=float) + t
    cube = np.array(list(itertools.product([0.0, 1.0], repeat=3))) + t
    common = {"q": [[5e-5, 0.0, 0.0]], "q_classes": ["witness"], "density": 1.0, "mseed": 1}
    return [dict(common, shape="polygon", vertices=sq.tolist(), normal=[0.0, 0.0, 1.0], plane_normal=[0.0, 0.0, 1.0],
                 info={"kind": "polygon:lean-witness", "clockwise": False, "normal_mode": "explicit", "n": 4}),
            dict(common, shape="convex", vertices=cube.tolist(), info={"kind": "lean-witness"},
                 oracle={"type": "boxes", "boxes": [[[0, 0, 0], [1, 1, 1]]], "frame": [1.0, np.eye(3).tolist(), t.tolist()]})]


def run(ctx):
    for case in witness_cases():
        ctx.count("kind:lean-witness")
        ctx.case(case)
        eval_case(ctx, case)
    mix = (["convex"] * 5 + ["box"] * 2 + ["voxel"] * 2 + ["prism"] * 2 + ["polygon"] * 6 + ["sphere"] * 3)
    n = ctx.budget(180, 1600)
    for i in range(n):
        case = make_case(ctx, mix[i % len(mix)])
        ctx.case(case, nontrivial=bool(np.any(np.array(case["q"]) != 0)))
        eval_case(ctx, case)


def replay(ctx, payload):
    case = payload.get("case", payload)
    ctx.case(case)
    eval_case(ctx, case)
